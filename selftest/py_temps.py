"""Generated neutral edit (Python package): explaining variables.
  return <call>(... <call> ...)   ->   tmp_rN = <inner call>; out_rN = <outer call>(... tmp_rN ...); return out_rN
i.e. every `return` of a call expression first binds the value to a fresh local, and the first
call-valued positional argument of that call is bound to a local of its own.  Evaluation order is
unchanged (the hoisted argument is the first thing the call evaluates after its callee name, and
only the first call-valued argument is hoisted when everything before it is a name or constant).
Generators (functions containing `yield`) and lambdas are left alone.

usage: py_temps.py <repo copy>"""
import ast
import glob
import os
import sys


def _simple(e):
    return isinstance(e, (ast.Name, ast.Constant)) or (isinstance(e, ast.Attribute) and _simple(e.value))


def rewrite(text):
    tree = ast.parse(text)
    n = 0
    for fn in ast.walk(tree):
        if not isinstance(fn, (ast.FunctionDef,)):
            continue
        if any(isinstance(x, (ast.Yield, ast.YieldFrom)) for x in ast.walk(fn)):
            continue

        def fix(body):
            nonlocal n
            out = []
            for s in body:
                for fld in ('body', 'orelse', 'finalbody'):
                    b = getattr(s, fld, None)
                    if isinstance(b, list) and b and isinstance(b[0], ast.stmt) and \
                            not isinstance(s, (ast.FunctionDef, ast.ClassDef, ast.AsyncFunctionDef)):
                        setattr(s, fld, fix(b))
                if isinstance(s, ast.Try):
                    for h in s.handlers:
                        h.body = fix(h.body)
                if isinstance(s, ast.Return) and isinstance(s.value, ast.Call) and \
                        not any(isinstance(x, (ast.Lambda, ast.Await)) for x in ast.walk(s.value)):
                    call = s.value
                    pre = []
                    # first call-valued positional argument, if everything before it is simple
                    if _simple(call.func) or isinstance(call.func, ast.Attribute):
                        for i, a in enumerate(call.args):
                            if isinstance(a, ast.Starred):
                                break
                            if isinstance(a, ast.Call):
                                if isinstance(call.func, ast.Attribute) and not _simple(call.func.value):
                                    break
                                t = 'tmp_r%d' % n
                                pre.append(ast.Assign(targets=[ast.Name(id=t, ctx=ast.Store())], value=a))
                                call.args[i] = ast.Name(id=t, ctx=ast.Load())
                                break
                            if not _simple(a):
                                break
                    o = 'out_r%d' % n
                    n += 1
                    out += pre
                    out.append(ast.Assign(targets=[ast.Name(id=o, ctx=ast.Store())], value=call))
                    out.append(ast.Return(value=ast.Name(id=o, ctx=ast.Load())))
                    continue
                out.append(s)
            return out
        fn.body = fix(fn.body)
    ast.fix_missing_locations(tree)
    return ast.unparse(tree) + '\n', n


def main(repo):
    tot = 0
    for p in glob.glob(os.path.join(repo, 'optree', '**', '*.py'), recursive=True):
        out, n = rewrite(open(p).read())
        tot += n
        open(p, 'w').write(out)
    print('%d returns given explaining variables' % tot)


if __name__ == '__main__':
    main(os.path.abspath(sys.argv[1]))
