"""Generated neutral edit (C++): local variables lose their `const`.
    const ssize_t arity = ...;   ->   ssize_t arity = ...;
    const auto it = m.find(k);   ->   auto it = m.find(k);
    const bool ok = a == b;      ->   bool ok = a == b;
Only block-scope declarations with an initialiser (a line `const T name = ...` / `const T name{...}`);
parameters, members and `static const` / `constexpr` are left alone.  Nothing assigns to these
variables (they were const), so behaviour is unchanged.  A rule that fires took the keyword, not
the absence of assignments, as its evidence that a value does not change.

usage: drop_const.py <repo copy>"""
import glob
import os
import re
import sys

DECL = re.compile(
    r'^(?P<ind>[ \t]+)const (?P<rest>(?:auto|bool|ssize_t|Py_ssize_t|size_t|int|PyTreeKind|py::\w+|std::[\w:]+(?:<[^;=(){}]*>)?'
    r'|RegistrationPtr|PyTreeTypeRegistry::RegistrationPtr|Node)\s*(?:&|\*)?\s*(?:\w+|\[[\w, ]+\])\s*(?:=|\{))', re.M)


def cxx_drop(text):
    n = 0

    def sub(m):
        nonlocal n
        line_start = m.start()
        prev = text[:line_start].rstrip()
        # a declaration starts a statement: the previous non-blank character ends one
        if prev and prev[-1] not in '{};:':
            return m.group(0)
        # `auto&` bound to a temporary needs its const
        if '&' in m.group('rest') or '*' in m.group('rest').split('=')[0]:
            return m.group(0)
        n += 1
        return m.group('ind') + m.group('rest')
    return DECL.sub(sub, text), n


def main(repo):
    total = 0
    for pat in ('src/*.cpp', 'src/treespec/*.cpp', 'include/optree/*.h'):
        for p in glob.glob(os.path.join(repo, pat)):
            out, n = cxx_drop(open(p).read())
            total += n
            open(p, 'w').write(out)
    print('%d local declarations lost their const' % total)


if __name__ == '__main__':
    main(os.path.abspath(sys.argv[1]))
