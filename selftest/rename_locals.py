"""Generated neutral edit: rename every local variable of every function of a Python module
(scope-aware: a nested function that reads the variable as a free variable sees the new name).
Parameters, globals, attributes, keywords and imported names are untouched, so behaviour is
unchanged; a check that fires on the result depends on the spelling of a local.

usage (as a library): rename_module(source_text, suffix='_rn') -> new source text (ast.unparse)."""
import ast
import builtins


def _params(fn):
    a = fn.args
    out = [x.arg for x in a.posonlyargs + a.args + a.kwonlyargs]
    if a.vararg:
        out.append(a.vararg.arg)
    if a.kwarg:
        out.append(a.kwarg.arg)
    return set(out)


_SCOPES = (ast.FunctionDef, ast.AsyncFunctionDef, ast.ClassDef, ast.Lambda)


def _own_nodes(fn):
    """nodes of fn's own scope (not entering nested function/class/lambda bodies; comprehensions
    are entered - their targets are renamed consistently, which is harmless)"""
    stack = list(fn.body) if not isinstance(fn, ast.Lambda) else [fn.body]
    while stack:
        n = stack.pop()
        if isinstance(n, _SCOPES):
            # decorators / defaults / bases belong to the enclosing scope, the body does not
            if not isinstance(n, ast.Lambda):
                stack.extend(n.decorator_list)
            if isinstance(n, ast.ClassDef):
                stack.extend(n.bases)
                stack.extend(k.value for k in n.keywords)
            else:
                stack.extend(n.args.defaults + [x for x in n.args.kw_defaults if x is not None])
            continue
        yield n
        stack.extend(ast.iter_child_nodes(n))


def _scopes_in(fn):
    """directly nested function / lambda / class scopes of fn"""
    stack = list(fn.body) if not isinstance(fn, ast.Lambda) else [fn.body]
    while stack:
        n = stack.pop()
        if isinstance(n, _SCOPES):
            yield n
            continue
        stack.extend(ast.iter_child_nodes(n))


POSONLY = False


def _posonly(fn):
    if isinstance(fn, ast.Lambda) or not POSONLY:
        return set()
    return {a.arg for a in fn.args.posonlyargs if a.arg not in ('self', 'cls', '_')}


def _locals_of(fn):
    stored, declared = set(), set()
    for n in _own_nodes(fn):
        if isinstance(n, ast.Name) and isinstance(n.ctx, (ast.Store, ast.Del)):
            stored.add(n.id)
        elif isinstance(n, (ast.Global, ast.Nonlocal)):
            declared.update(n.names)
        elif isinstance(n, ast.ExceptHandler) and n.name:
            declared.add(n.name)          # leave handler names alone (a str field, not a Name)
        elif isinstance(n, (ast.Import, ast.ImportFrom)):
            for al in n.names:
                declared.add((al.asname or al.name).split('.')[0])
    return {x for x in (stored - declared - _params(fn)) | _posonly(fn)
            if not (x.startswith('__') and x.endswith('__')) and x != '_'}


def _apply(fn, mapping):
    """rename Names of fn's own scope according to mapping, then descend into nested scopes with
    the part of the mapping they do not shadow"""
    if mapping:
        for n in _own_nodes(fn):
            if isinstance(n, ast.Name) and n.id in mapping:
                n.id = mapping[n.id]
        if not isinstance(fn, (ast.Lambda, ast.ClassDef)):
            for a in fn.args.posonlyargs:
                if a.arg in mapping and a.arg in _posonly(fn):
                    a.arg = mapping[a.arg]
    for sub in _scopes_in(fn):
        if isinstance(sub, ast.ClassDef):
            # class body: names stored there are attributes, reads of enclosing locals are renamed
            stored = {x.id for x in ast.walk(sub) if isinstance(x, ast.Name) and isinstance(x.ctx, ast.Store)}
            inner = {k: v for k, v in mapping.items() if k not in stored}
            _apply(sub, inner)
            continue
        shadow = (_params(sub) - _posonly(sub)) | (_locals_of(sub) if not isinstance(sub, ast.Lambda) else set())
        inner = {k: v for k, v in mapping.items() if k not in shadow}
        if not isinstance(sub, ast.Lambda):
            taken = set(inner.values())
            for x in sorted(_locals_of(sub)):
                inner[x] = x + SUFFIX if (x + SUFFIX) not in taken else x + SUFFIX + '2'
        _apply(sub, inner)


SUFFIX = '_rn'


def rename_module(text, suffix='_rn', posonly=False):
    global SUFFIX, POSONLY
    SUFFIX = suffix
    POSONLY = posonly
    tree = ast.parse(text)
    count = 0
    for node in ast.walk(tree):
        pass
    tops = []
    stack = [tree]
    while stack:
        n = stack.pop()
        for c in ast.iter_child_nodes(n):
            if isinstance(c, (ast.FunctionDef, ast.AsyncFunctionDef)):
                tops.append(c)
            elif isinstance(c, ast.ClassDef):
                stack.append(c)
            elif isinstance(c, (ast.If, ast.Try, ast.With)):
                stack.append(c)
    for fn in tops:
        loc = _locals_of(fn)
        mapping = {x: x + suffix for x in loc if not hasattr(builtins, x + suffix)}
        count += len(mapping)
        _apply(fn, mapping)
    ast.fix_missing_locations(tree)
    return ast.unparse(tree) + '\n', count


if __name__ == '__main__':
    import sys
    src = open(sys.argv[1]).read()
    out, n = rename_module(src)
    sys.stdout.write(out)
    sys.stderr.write('%d locals renamed\n' % n)
