"""Generated neutral edit: built-in relational comparisons are mirrored - `a < b` becomes `b > a`,
`a >= b` becomes `b <= a` - wherever both operands are plain names / member paths / integer
literals and the comparison is a whole operand (preceded by `(`, `&&`, `||`, `return`, `;` and
followed by `)`, `&&`, `||`, `;`).  Behaviour is unchanged; a rule that fires reads a bound /
range / depth test off one spelling of the inequality.

usage: swap_rel.py <repo copy>"""
import glob
import os
import re
import sys

from rename_cxx_locals import _scan

OPND = r'(?:[A-Za-z_]\w*(?:(?:\.|->|::)[A-Za-z_]\w*)*(?:\(\))?|\d+)'
PAT = re.compile(r'(?P<pre>\(|&&\s+|\|\|\s+|\breturn\s+|;\s+)(?P<lhs>' + OPND + r')\s+'
                 r'(?P<op><=|>=|<|>)\s+(?P<rhs>' + OPND + r')(?=\s*(?:\)|&&|\|\||;))')
MIRROR = {'<': '>', '>': '<', '<=': '>=', '>=': '<='}


def swap(text):
    out = []
    i = 0
    n = 0
    pos = 0
    while i < len(text):
        j = _scan(text, i)
        if j != i:
            i = j
            continue
        if text[i] == '#' and text[:i].rstrip(' \t').endswith('\n'):
            j = text.find('\n', i)
            i = len(text) if j < 0 else j
            continue
        m = PAT.match(text, i)
        if m and not re.match(r'(?:template|typename|class)\b', m.group('lhs')):
            out.append(text[pos:i])
            out.append('%s%s %s %s' % (m.group('pre'), m.group('rhs'), MIRROR[m.group('op')], m.group('lhs')))
            pos = i = m.end()
            n += 1
            continue
        i += 1
    out.append(text[pos:])
    return ''.join(out), n


def main(repo):
    tot = 0
    for pat in ('src/*.cpp', 'src/treespec/*.cpp', 'include/optree/*.h'):
        for p in glob.glob(os.path.join(repo, pat)):
            out, n = swap(open(p).read())
            tot += n
            open(p, 'w').write(out)
    print('%d inequalities mirrored' % tot)


if __name__ == '__main__':
    main(os.path.abspath(sys.argv[1]))
