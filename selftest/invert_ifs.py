"""Generated neutral edit: every two-armed conditional is written the other way round.
C++   `if (c) A else B`      ->  `if (!(c)) B else A`   (attributes [[likely]] / [[unlikely]] travel
      with their arm; `if constexpr`, `if (init; c)`, and `else if` chains are left alone)
Python `if c: A else: B`     ->  `if not (c): B else: A` (elif chains are left alone)
Behaviour is unchanged.  A rule that fires depends on which arm of a branch is written first, or
on the textual form of a condition, rather than on what the code does on each outcome.

usage: invert_ifs.py <repo copy>       (rewrites in place, prints the counts)"""
import ast
import glob
import os
import re
import sys

from rename_cxx_locals import _scan

ATTR = re.compile(r'\s*(\[\[\w+\]\])')


def _match(text, i, open_c, close_c):
    """index just after the bracket that closes the one at text[i]"""
    depth = 0
    while i < len(text):
        j = _scan(text, i)
        if j != i:
            i = j
            continue
        c = text[i]
        if c == open_c:
            depth += 1
        elif c == close_c:
            depth -= 1
            if depth == 0:
                return i + 1
        i += 1
    return -1


def _skip_ws(text, i):
    while i < len(text):
        if text[i].isspace():
            i += 1
            continue
        j = _scan(text, i)
        if j != i and text[i] == '/':
            i = j
            continue
        break
    return i


def cxx_invert(text):
    out = []
    i = 0
    n = 0
    pos = 0
    for m in re.finditer(r'\bif\s*\(', text):
        if m.start() < pos:
            continue
        # not preceded by `else` (an else-if chain), not `if constexpr`
        before = text[:m.start()].rstrip()
        if before.endswith('else') or before.endswith('#'):
            continue
        line_start = text.rfind('\n', 0, m.start()) + 1
        if text[line_start:m.start()].lstrip().startswith(('#', '//', '*')):
            continue
        po = m.end() - 1
        pc = _match(text, po, '(', ')')
        if pc < 0:
            continue
        cond = text[po + 1:pc - 1]
        # `if (init; cond)`: leave alone
        depth = 0
        semi = False
        for ch in cond:
            if ch in '([{':
                depth += 1
            elif ch in ')]}':
                depth -= 1
            elif ch == ';' and depth == 0:
                semi = True
        if semi or re.search(r'(?<![=!<>+\-*/|&^%])=(?!=)', cond):
            continue          # `if (T x = init)`: a declaration cannot be negated in place
        k = pc
        a1 = ATTR.match(text, k)
        attr1 = ''
        if a1:
            attr1 = a1.group(1)
            k = a1.end()
        k = _skip_ws(text, k)
        if k >= len(text) or text[k] != '{':
            continue
        b1 = _match(text, k, '{', '}')
        if b1 < 0:
            continue
        body1 = text[k:b1]
        e = _skip_ws(text, b1)
        if not text.startswith('else', e) or (text[e + 4:e + 5].isalnum() or text[e + 4:e + 5] == '_'):
            continue
        k2 = e + 4
        a2 = ATTR.match(text, k2)
        attr2 = ''
        if a2:
            attr2 = a2.group(1)
            k2 = a2.end()
        k2 = _skip_ws(text, k2)
        if k2 >= len(text) or text[k2] != '{':
            continue          # else-if chain or single statement
        b2 = _match(text, k2, '{', '}')
        if b2 < 0:
            continue
        body2 = text[k2:b2]
        # nested conditionals inside the arms are rewritten by recursion on the arm text
        body1, n1 = cxx_invert(body1)
        body2, n2 = cxx_invert(body2)
        out.append(text[pos:m.start()])
        out.append('if (!(%s))%s %s else%s %s' % (cond, (' ' + attr2) if attr2 else '', body2,
                                                  (' ' + attr1) if attr1 else '', body1))
        n += 1 + n1 + n2
        pos = b2
    out.append(text[pos:])
    return ''.join(out), n


def python_invert(text):
    tree = ast.parse(text)
    n = 0
    for node in ast.walk(tree):
        if isinstance(node, ast.If) and node.orelse and not (
                len(node.orelse) == 1 and isinstance(node.orelse[0], ast.If)):
            node.test = ast.UnaryOp(op=ast.Not(), operand=node.test)
            node.body, node.orelse = node.orelse, node.body
            n += 1
    # an `elif` whose parent was swapped into the body is now a nested `if`: fine, same meaning
    ast.fix_missing_locations(tree)
    return ast.unparse(tree) + '\n', n


def main(repo, lang='both'):
    tp = tc = 0
    if lang in ('both', 'py'):
        for p in glob.glob(os.path.join(repo, 'optree', '**', '*.py'), recursive=True):
            out, n = python_invert(open(p).read())
            tp += n
            open(p, 'w').write(out)
    if lang in ('both', 'cxx'):
        for pat in ('src/*.cpp', 'src/treespec/*.cpp', 'include/optree/*.h'):
            for p in glob.glob(os.path.join(repo, pat)):
                out, n = cxx_invert(open(p).read())
                tc += n
                open(p, 'w').write(out)
    print('%d python and %d c++ conditionals inverted' % (tp, tc))


if __name__ == '__main__':
    main(os.path.abspath(sys.argv[1]), sys.argv[2] if len(sys.argv) > 2 else 'both')
