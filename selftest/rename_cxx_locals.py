"""Generated neutral edit for the engine: rename every local variable (and structured binding) of
every function in src/ and include/optree/ by appending a suffix.  Names come from the analysed
program (VarDecl / BindingDecl inside function bodies); the edit is applied to the source text of
each function's extent, token-wise, never touching member accesses (`.x`, `->x`), qualified names
(`ns::x`), string / character literals, comments, preprocessor lines or the identifier-pasting
macros.  The result must still compile and pass the tests (checked once when this was written; the
neutral-edit runner only needs it to parse).

usage: rename_cxx_locals.py <repo copy>      (rewrites files in place, prints the count)"""
import os
import re
import sys

HERE = os.path.dirname(os.path.abspath(__file__))
sys.path.insert(0, os.path.dirname(HERE))

SUFFIX = '_rn'
PASTING_MACROS = ('Py_Get_ID', 'Py_Declare_ID')
IDENT = re.compile(r'[A-Za-z_]\w*')


WITH_PARAMS = False
MACRO_BOUND = {'visit', 'arg'}     # names the CPython macro Py_VISIT refers to


def local_names(prog):
    """(file, first line of the function) -> set of local names declared in its body (and, with
    WITH_PARAMS, the parameter names of the definition: a declaration may spell them differently)"""
    out = {}
    for f in prog.funcs.values():
        if f.body is None or f.is_lambda or not f.file:
            continue
        if f.inits or (f.record and f.name == f.record.split('::')[-1]):
            continue     # constructors: the initialiser list uses braces, the extent scan is too simple
        names = set()
        params = {p[0] for p in f.params if p[0]}
        for n in f.body.walk(into_lambdas=True):
            if n.kind in ('VarDecl', 'BindingDecl') and n.name:
                names.add(n.name)
        # lambdas are separate functions in the IR: take their locals too (they live in the extent)
        stack = [f]
        while stack:
            g = stack.pop()
            for l in prog.lambdas_of(g):
                for n in l.body.walk(into_lambdas=True) if l.body is not None else ():
                    if n.kind in ('VarDecl', 'BindingDecl') and n.name:
                        names.add(n.name)
                params |= {p[0] for p in l.params if p[0]}
                stack.append(l)
        if WITH_PARAMS:
            names |= params - MACRO_BOUND
        else:
            names -= params
        if names:
            out.setdefault((f.file, f.line), set()).update(names)
    return out


def _scan(text, i):
    """skip a string / char literal / comment starting at i; return new index or i if none"""
    c = text[i]
    if c == '"' or c == "'":
        # raw strings are not used in this code base
        j = i + 1
        while j < len(text) and text[j] != c:
            j += 2 if text[j] == '\\' else 1
        return j + 1
    if text.startswith('//', i):
        j = text.find('\n', i)
        return len(text) if j < 0 else j
    if text.startswith('/*', i):
        j = text.find('*/', i + 2)
        return len(text) if j < 0 else j + 2
    return i


def function_extent(text, line):
    """character range [a, b) of the function that starts at 1-based `line`: from the start of that
    line to the brace that closes its body"""
    pos = 0
    for _ in range(line - 1):
        pos = text.find('\n', pos) + 1
    # go back over the lines of the declaration head (template <...>, return type, attributes)
    start = pos
    i = pos
    depth = 0
    paren = 0
    seen_open = False
    while i < len(text):
        j = _scan(text, i)
        if j != i:
            i = j
            continue
        c = text[i]
        if not seen_open and c in '([':
            paren += 1
        elif not seen_open and c in ')]':
            paren -= 1
        elif c == '{' and (seen_open or paren == 0):
            depth += 1
            seen_open = True
        elif c == '}' and seen_open:
            depth -= 1
            if depth == 0:
                return start, i + 1
        elif c == ';' and not seen_open and paren == 0:
            return None       # a declaration
        i += 1
    return None


def rename_extent(text, a, b, names):
    out = []
    i = a
    count = 0
    line_start = True
    while i < b:
        j = _scan(text, i)
        if j != i:
            out.append(text[i:j])
            i = j
            continue
        c = text[i]
        if c == '#' and text[:i].rstrip(' \t').endswith('\n'):
            j = text.find('\n', i)
            while j > 0 and text[j - 1] == '\\':
                j = text.find('\n', j + 1)
            j = b if j < 0 else j
            out.append(text[i:j])
            i = j
            continue
        m = IDENT.match(text, i)
        if m and (i == 0 or not (text[i - 1].isalnum() or text[i - 1] == '_')):
            tok = m.group(0)
            j = m.end()
            if tok in PASTING_MACROS:
                k = text.find(')', j)
                out.append(text[i:k + 1])
                i = k + 1
                continue
            if tok in names:
                prev = text[:i].rstrip()
                nxt = text[j:].lstrip()
                member = prev.endswith('.') and not prev.endswith('...') or prev.endswith('->') or prev.endswith('::')
                if not member and not nxt.startswith('::'):
                    out.append(tok + SUFFIX)
                    count += 1
                    i = j
                    continue
            out.append(tok)
            i = j
            continue
        out.append(c)
        i += 1
    return ''.join(out), count


def main(repo):
    os.environ['OPTREE_REPO'] = repo
    from sa.cxx_frontend import load_program
    prog = load_program('py312')
    names = local_names(prog)
    by_file = {}
    for (f, line), ns in names.items():
        by_file.setdefault(f, []).append((line, ns))
    total = 0
    for f, items in sorted(by_file.items()):
        path = os.path.join(repo, f)
        text = open(path).read()
        # process from the bottom so that offsets of earlier functions stay valid
        for line, ns in sorted(items, reverse=True):
            ext = function_extent(text, line)
            if ext is None:
                continue
            a, b = ext
            new, n = rename_extent(text, a, b, ns)
            total += n
            text = text[:a] + new + text[b:]
        open(path, 'w').write(text)
    print('%d occurrences renamed in %d files' % (total, len(by_file)))


if __name__ == '__main__':
    if '--params' in sys.argv:
        sys.argv.remove('--params')
        WITH_PARAMS = True
    main(os.path.abspath(sys.argv[1]))
