"""Generated neutral edit: equivalent spellings of three C++ idioms.
  for-increment   `++i` / `--i`          ->  `i += 1` / `i -= 1`        (in the third clause of a for)
  emptiness       `x.empty()`            ->  `(x.size() == 0)`           (std containers / strings only:
                                              receivers whose name is a plain identifier or member path)
  null test       `if (p == nullptr)`    ->  `if (!p)`  and `p != nullptr` -> `(p)` is NOT done (pybind
                                              handles have explicit operator bool - left alone)
Behaviour is unchanged.

usage: cxx_idioms.py <repo copy>"""
import glob
import os
import re
import sys

from rename_cxx_locals import _scan

FOR_INC = re.compile(r'(;\s*)(\+\+|--)([A-Za-z_]\w*)(\s*\)\s*(?:\[\[\w+\]\]\s*)?\{)')
EMPTY = re.compile(r'(?<![\w>.])((?:[A-Za-z_]\w*)(?:(?:\.|->)[A-Za-z_]\w*)*)\.empty\(\)')


def rewrite(text):
    out = []
    i = 0
    pos = 0
    n1 = n2 = 0
    while i < len(text):
        j = _scan(text, i)
        if j != i:
            i = j
            continue
        if text[i] == '#' and text[:i].rstrip(' \t').endswith('\n'):
            j = text.find('\n', i)
            while j > 0 and text[j - 1] == '\\':
                j = text.find('\n', j + 1)
            i = len(text) if j < 0 else j
            continue
        m = FOR_INC.match(text, i)
        if m:
            out.append(text[pos:i])
            out.append('%s%s %s= 1%s' % (m.group(1), m.group(3), '+' if m.group(2) == '++' else '-', m.group(4)))
            pos = i = m.end()
            n1 += 1
            continue
        m = EMPTY.match(text, i)
        if m and (i == 0 or not (text[i - 1].isalnum() or text[i - 1] in '_.>')):
            out.append(text[pos:i])
            out.append('(%s.size() == 0)' % m.group(1))
            pos = i = m.end()
            n2 += 1
            continue
        i += 1
    out.append(text[pos:])
    return ''.join(out), n1, n2


def main(repo):
    t1 = t2 = 0
    for pat in ('src/*.cpp', 'src/treespec/*.cpp', 'include/optree/*.h'):
        for p in glob.glob(os.path.join(repo, pat)):
            out, n1, n2 = rewrite(open(p).read())
            t1 += n1
            t2 += n2
            open(p, 'w').write(out)
    print('%d for-increments and %d emptiness tests respelt' % (t1, t2))


if __name__ == '__main__':
    main(os.path.abspath(sys.argv[1]))
