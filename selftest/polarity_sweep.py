"""Exhaustive polarity sweep over the Python package: every `if <test>: ... raise` guard is negated,
one at a time, and all twenty static checks are run on the copy.  A negated guard rejects what
it should accept and accepts what it should reject, so each one breaks the property its function
belongs to; the sweep lists the guards whose negation no check reports.  Static verdicts only
(the test suite kills most of them at once - what matters here is whether the rules read the
*outcome* of a test or only its presence).

usage: polarity_sweep.py [-j N] [file ...]        writes selftest/polarity_last.json"""
import ast
import json
import os
import shutil
import sys
import tempfile
from concurrent.futures import ThreadPoolExecutor

HERE = os.path.dirname(os.path.abspath(__file__))
VERIF = os.path.dirname(HERE)
sys.path.insert(0, HERE)
from run import run_check, copy_repo  # noqa: E402

FILES = ['optree/ops.py', 'optree/registry.py', 'optree/accessor.py', 'optree/dataclasses.py',
         'optree/functools.py', 'optree/typing.py', 'optree/utils.py',
         'optree/integration/numpy.py', 'optree/integration/torch.py', 'optree/integration/jax.py']


def sites(text):
    tree = ast.parse(text)
    out = []
    fn_of = {}
    for f in ast.walk(tree):
        if isinstance(f, (ast.FunctionDef, ast.AsyncFunctionDef)):
            for x in ast.walk(f):
                fn_of.setdefault(id(x), f.name)
    for n in ast.walk(tree):
        if isinstance(n, ast.If) and n.body and isinstance(n.body[-1], ast.Raise) and \
                not isinstance(n.test, ast.Constant):
            old = n.test
            n.test = ast.UnaryOp(op=ast.Not(), operand=old)
            try:
                out.append(('L%d %s: `if %s: raise %s`' % (
                    n.lineno, fn_of.get(id(n), '<module>'), ast.unparse(old)[:70],
                    ast.unparse(n.body[-1].exc)[:30] if n.body[-1].exc is not None else ''), ast.unparse(tree) + '\n'))
            finally:
                n.test = old
    return out


def one(args):
    i, f, desc, text, base = args
    d = os.path.join(base, 'p%04d' % i)
    os.makedirs(d)
    copy_repo(d)
    open(os.path.join(d, f), 'w').write(text)
    hit, errs = [], []
    for k in range(1, 21):
        pr = 'C%02d' % k
        rc, out = run_check(d, pr, None, base)
        if rc == 1:
            hit.append(pr)
        elif rc != 0:
            errs.append(pr)
    shutil.rmtree(d, ignore_errors=True)
    return {'file': f, 'desc': desc, 'reported_by': hit, 'analysis_errors': errs}


def main():
    a = sys.argv[1:]
    jobs = 6
    if '-j' in a:
        i = a.index('-j')
        jobs = int(a[i + 1])
        del a[i:i + 2]
    files = a or FILES
    base = tempfile.mkdtemp(prefix='optree-polarity.')
    todo = []
    for f in files:
        for desc, text in sites(open(os.path.join('/repo', f)).read()):
            todo.append((len(todo), f, desc, text, base))
    try:
        with ThreadPoolExecutor(max_workers=jobs) as ex:
            res = list(ex.map(one, todo))
    finally:
        shutil.rmtree(base, ignore_errors=True)
    silent = [r for r in res if not r['reported_by']]
    for r in res:
        print('%-9s %s %s' % ('reported' if r['reported_by'] else ('ERROR' if r['analysis_errors'] else 'SILENT'),
                              r['file'], r['desc']))
    print('%d guards negated: %d reported, %d silent' % (len(res), len(res) - len(silent), len(silent)))
    if not a:
        json.dump(res, open(os.path.join(HERE, 'polarity_last.json'), 'w'), indent=1)


if __name__ == '__main__':
    main()
