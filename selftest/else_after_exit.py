"""Generated neutral edit: what follows a guard that always leaves becomes its else branch.
C++    `if (c) { ...; return x; } REST`   ->  `if (c) { ...; return x; } else { REST }`
       (REST = everything up to the end of the enclosing block; the if has no else, its body
       ends in return / throw / continue / break; blocks with case labels at their top level are
       left alone)
Python the same on statement lists (`if c: ...; return x` followed by REST).
Behaviour is unchanged.  A rule that fires depends on a statement standing at the top level of a
function body (or directly after a guard) rather than on the paths that reach it.

usage: else_after_exit.py <repo copy> [py|cxx|both]"""
import ast
import glob
import os
import re
import sys

from invert_ifs import _match, _skip_ws, ATTR
from rename_cxx_locals import _scan

LAST_EXIT = re.compile(r'(?:^|[;{}])\s*(return|throw|continue|break)\b[^;{}]*;\s*\}$', re.S)


def _block_end(text, i):
    """index of the `}` that closes the block in which position i stands"""
    depth = 0
    while i < len(text):
        j = _scan(text, i)
        if j != i:
            i = j
            continue
        c = text[i]
        if c == '{':
            depth += 1
        elif c == '}':
            if depth == 0:
                return i
            depth -= 1
        i += 1
    return -1


def _top_level_labels(rest):
    depth = 0
    i = 0
    while i < len(rest):
        j = _scan(rest, i)
        if j != i:
            i = j
            continue
        c = rest[i]
        if c in '{(':
            depth += 1
        elif c in '})':
            depth -= 1
        elif depth == 0 and re.match(r'(case\b|default\s*:)', rest[i:i + 12]) and \
                (i == 0 or not (rest[i - 1].isalnum() or rest[i - 1] == '_')):
            return True
        i += 1
    return False


def cxx_else(text, budget=None):
    n = 0
    pos = 0
    out = []
    for m in re.finditer(r'\bif\s*\(', text):
        if m.start() < pos:
            continue
        before = text[:m.start()].rstrip()
        if before.endswith('else') or before.endswith('#'):
            continue
        line_start = text.rfind('\n', 0, m.start()) + 1
        if text[line_start:m.start()].lstrip().startswith(('#', '//', '*')):
            continue
        # only an if that is a statement of a block (preceded by `{`, `}` or `;`)
        if not before or before[-1] not in '{};':
            continue
        po = m.end() - 1
        pc = _match(text, po, '(', ')')
        if pc < 0:
            continue
        k = pc
        a1 = ATTR.match(text, k)
        if a1:
            k = a1.end()
        k = _skip_ws(text, k)
        if k >= len(text) or text[k] != '{':
            continue
        b1 = _match(text, k, '{', '}')
        if b1 < 0:
            continue
        body = text[k:b1]
        if '\\\n' in text[m.start():b1] or not LAST_EXIT.search(body):
            continue
        e = _skip_ws(text, b1)
        if text.startswith('else', e) and not (text[e + 4:e + 5].isalnum() or text[e + 4:e + 5] == '_'):
            continue
        end = _block_end(text, b1)
        if end < 0:
            continue
        rest = text[b1:end]
        if not rest.strip() or _top_level_labels(rest) or '\\\n' in rest or '#' in rest:
            continue
        rest2, n2 = cxx_else(rest)
        out.append(text[pos:b1])
        out.append(' else {' + rest2 + '}\n')
        n += 1 + n2
        pos = end
    out.append(text[pos:])
    return ''.join(out), n


def _py_fix(body, counter):
    for s_ in body:
        for fld in ('body', 'orelse', 'finalbody'):
            b = getattr(s_, fld, None)
            if isinstance(b, list) and b and isinstance(b[0], ast.stmt):
                _py_fix(b, counter)
        if isinstance(s_, ast.Try):
            for h in s_.handlers:
                _py_fix(h.body, counter)
    for i, s_ in enumerate(body):
        if isinstance(s_, ast.If) and not s_.orelse and i + 1 < len(body) and \
                isinstance(s_.body[-1], (ast.Return, ast.Raise, ast.Continue, ast.Break)):
            rest = body[i + 1:]
            # a nested function / class definition or a global statement keeps its place
            if any(isinstance(r, (ast.FunctionDef, ast.AsyncFunctionDef, ast.ClassDef, ast.Global,
                                  ast.Nonlocal, ast.Import, ast.ImportFrom)) for r in rest):
                continue
            s_.orelse = rest
            del body[i + 1:]
            counter[0] += 1
            _py_fix(s_.orelse, counter)
            break


def python_else(text):
    tree = ast.parse(text)
    c = [0]
    for fn in ast.walk(tree):
        if isinstance(fn, (ast.FunctionDef, ast.AsyncFunctionDef)):
            # docstring first statement stays
            _py_fix(fn.body, c)
    ast.fix_missing_locations(tree)
    return ast.unparse(tree) + '\n', c[0]


def main(repo, lang='both'):
    tp = tc = 0
    if lang in ('both', 'py'):
        for p in glob.glob(os.path.join(repo, 'optree', '**', '*.py'), recursive=True):
            out, n = python_else(open(p).read())
            tp += n
            open(p, 'w').write(out)
    if lang in ('both', 'cxx'):
        for pat in ('src/*.cpp', 'src/treespec/*.cpp', 'include/optree/*.h'):
            for p in glob.glob(os.path.join(repo, pat)):
                out, n = cxx_else(open(p).read())
                tc += n
                open(p, 'w').write(out)
    print('%d python and %d c++ guards given an else branch' % (tp, tc))


if __name__ == '__main__':
    main(os.path.abspath(sys.argv[1]), sys.argv[2] if len(sys.argv) > 2 else 'both')
