"""Behaviour-preserving edits must not raise alarms.  usage: run_neutral.py [-j N] [id ...]"""
import os
import re
import shutil
import subprocess
import sys
import tempfile
from concurrent.futures import ThreadPoolExecutor

HERE = os.path.dirname(os.path.abspath(__file__))
VERIF = os.path.dirname(HERE)
sys.path.insert(0, HERE)
from neutral import N  # noqa: E402
from run import copy_repo, run_check  # noqa: E402


def one(e, base):
    d = os.path.join(base, e['id'])
    os.makedirs(d)
    copy_repo(d)
    if e.get('generator') == 'rename-python-locals':
        # every local variable of every function of the Python package gets a new name
        # (scope-aware, see rename_locals.py; the renamed tree passes the test suite)
        import glob
        from rename_locals import rename_module
        for p in glob.glob(os.path.join(d, 'optree', '**', '*.py'), recursive=True):
            out, _ = rename_module(open(p).read(), posonly=bool(e.get('posonly')))
            open(p, 'w').write(out)
    elif e.get('generator') == 'py-shuffle':
        from py_shuffle import main as shuffle
        shuffle(d)
    elif e.get('generator') == 'invert-ifs':
        from invert_ifs import main as invert
        invert(d, 'cxx')
    elif e.get('generator') == 'swap-eq':
        from swap_eq import main as swap
        swap(d)
    elif e.get('generator') == 'swap-rel':
        from swap_rel import main as swaprel
        swaprel(d)
    elif e.get('generator') == 'py-swap-cmp':
        from py_swap_cmp import main as pyswap
        pyswap(d)
    elif e.get('generator') == 'cxx-idioms':
        from cxx_idioms import main as idioms
        idioms(d)
    elif e.get('generator') == 'hoist-conditions':
        from hoist_conditions import main as hoist
        hoist(d)
    elif e.get('generator') == 'alias-switch':
        from alias_switch import main as aliassw
        aliassw(d)
    elif e.get('generator') == 'py-temps':
        from py_temps import main as pytemps
        pytemps(d)
    elif e.get('generator') == 'split-conditions':
        from split_conditions import main as splitc
        splitc(d)
    elif e.get('generator') == 'else-after-exit':
        from else_after_exit import main as elseexit
        elseexit(d)
    elif e.get('generator') == 'demorgan':
        from demorgan import main as demorgan
        demorgan(d)
    elif e.get('generator') == 'py-c-keywords':
        from py_c_keywords import main as ckw
        ckw(d)
    elif e.get('generator') == 'drop-const':
        from drop_const import main as dropc
        dropc(d)
    elif e.get('generator') == 'swap-guards':
        from swap_guards import main as swapg
        swapg(d)
    elif e.get('generator') == 'insert-noops':
        from insert_noops import main as noops
        noops(d)
    elif e.get('generator') == 'rename-cxx-locals':
        env = dict(os.environ, OPTREE_VERIF_CACHE=os.path.join(base, 'cache'), OPTREE_VERIF_CACHE_KEEP='500')
        r = subprocess.run([sys.executable, os.path.join(HERE, 'rename_cxx_locals.py')] +
                           (['--params'] if e.get('params') else []) + [d],
                           capture_output=True, text=True, env=env, cwd=VERIF)
        if r.returncode != 0:
            shutil.rmtree(d, ignore_errors=True)
            return {'id': e['id'], 'status': 'BAD-PATTERN', 'detail': (r.stdout + r.stderr)[-300:]}
    else:
        p = os.path.join(d, e['file'])
        s = open(p).read()
        for old, new in e['edits']:
            if s.count(old) != 1:
                shutil.rmtree(d, ignore_errors=True)
                return {'id': e['id'], 'status': 'BAD-PATTERN', 'detail': 'matches %d times' % s.count(old)}
            s = s.replace(old, new)
        open(p, 'w').write(s)
    alarms, errors = [], []
    for i in range(1, 21):
        pr = 'C%02d' % i
        rc, out = run_check(d, pr, None, base)
        if rc == 1:
            alarms += ['%s %s:%s' % (pr, a, b) for a, _, b in
                       re.findall(r'^  rule (\S+) at (\S+) \[(.*?)\]: ', out, re.M)]
        elif rc != 0:
            errors += ['%s %s' % (pr, l[:200]) for l in out.splitlines() if l.startswith('ANALYSIS-ERROR')]
    shutil.rmtree(d, ignore_errors=True)
    st = 'FALSE-ALARM' if alarms else ('NO-VERDICT' if errors else 'SILENT')
    return {'id': e['id'], 'status': st, 'alarms': sorted(set(alarms)), 'errors': sorted(set(errors))}


def main():
    args = sys.argv[1:]
    jobs = 4
    if '-j' in args:
        i = args.index('-j')
        jobs = int(args[i + 1])
        del args[i:i + 2]
    sel = [e for e in N if not args or e['id'] in args]
    base = tempfile.mkdtemp(prefix='optree-verif-neutral.')
    try:
        with ThreadPoolExecutor(max_workers=jobs) as ex:
            res = list(ex.map(lambda e: one(e, base), sel))
    finally:
        shutil.rmtree(base, ignore_errors=True)
    for r in res:
        print('%-40s %s' % (r['id'], r['status']))
        for a in r.get('alarms', [])[:8]:
            print('      alarm: ' + a)
        for a in r.get('errors', [])[:4]:
            print('      error: ' + a)
        if r.get('detail'):
            print('      ' + r['detail'])
    bad = [r for r in res if r['status'] == 'FALSE-ALARM']
    print('%d edits, %d silent, %d without verdict, %d false alarms'
          % (len(res), sum(r['status'] == 'SILENT' for r in res),
             sum(r['status'] == 'NO-VERDICT' for r in res), len(bad)))
    return 1 if bad else 0


if __name__ == '__main__':
    sys.exit(main())
