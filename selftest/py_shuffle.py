"""Generated neutral edits for the Python package (ast rewrite, behaviour-preserving):
  * if/else with a plain else-branch is turned round: `if t: A else: B` -> `if not t: B else: A`
    (elif chains are left alone);
  * keyword arguments of every call are written in reverse order (evaluation order of keyword
    argument *values* changes, but only Names / attributes / constants are reordered: calls and
    other expressions keep their place so that no side effect moves)."""
import ast
import glob
import os
import sys

SIMPLE = (ast.Name, ast.Attribute, ast.Constant)


def shuffle(text):
    tree = ast.parse(text)
    n_if = n_kw = 0
    for node in ast.walk(tree):
        if isinstance(node, ast.If) and node.orelse and not (
                len(node.orelse) == 1 and isinstance(node.orelse[0], ast.If)):
            node.test = ast.UnaryOp(op=ast.Not(), operand=node.test)
            node.body, node.orelse = node.orelse, node.body
            n_if += 1
        if isinstance(node, ast.Call) and len(node.keywords) > 1 and \
                all(k.arg is not None and isinstance(k.value, SIMPLE) for k in node.keywords):
            node.keywords = list(reversed(node.keywords))
            n_kw += 1
    ast.fix_missing_locations(tree)
    return ast.unparse(tree) + '\n', n_if, n_kw


def main(repo):
    a = b = 0
    for p in glob.glob(os.path.join(repo, 'optree', '**', '*.py'), recursive=True):
        out, x, y = shuffle(open(p).read())
        a += x
        b += y
        open(p, 'w').write(out)
    print('%d if/else turned round, %d calls with reversed keywords' % (a, b))


if __name__ == '__main__':
    main(os.path.abspath(sys.argv[1]))
