"""Generated neutral edit: the subject of every kind switch is given a name first,
    switch (X.kind) { ... }   ->   { const auto sk_N = X.kind; switch (sk_N) { ... } }
and every `X.kind == / != PyTreeKind::K` test written inside an if-condition after such a
declaration keeps reading the field (only the switch goes through the name).  Behaviour is
unchanged; a rule that fires recognises a kind dispatch only when the switch names the field.

usage: alias_switch.py <repo copy>"""
import glob
import os
import re
import sys

from invert_ifs import _match

PAT = re.compile(r'\bswitch\s*\(\s*([A-Za-z_][\w]*(?:(?:\.|->)[A-Za-z_]\w*)*(?:\.|->)kind)\s*\)\s*\{')


def alias(text):
    n = 0
    pos = 0
    out = []
    for m in PAT.finditer(text):
        if m.start() < pos:
            continue
        bo = m.end() - 1
        be = _match(text, bo, '{', '}')
        if be < 0:
            continue
        inner, k = alias(text[bo + 1:be - 1])
        out.append(text[pos:m.start()])
        out.append('{ const auto sk_%d = %s; switch (sk_%d) {%s} }' % (n + 1000 * text.count('\n', 0, m.start()) % 100000, m.group(1),
                                                                       n + 1000 * text.count('\n', 0, m.start()) % 100000, inner))
        n += 1 + k
        pos = be
    out.append(text[pos:])
    return ''.join(out), n


def main(repo):
    tot = 0
    for pat in ('src/*.cpp', 'src/treespec/*.cpp', 'include/optree/*.h'):
        for p in glob.glob(os.path.join(repo, pat)):
            out, n = alias(open(p).read())
            tot += n
            open(p, 'w').write(out)
    print('%d switch subjects named' % tot)


if __name__ == '__main__':
    main(os.path.abspath(sys.argv[1]))
