"""Generated neutral edit: the operands of `==` / `!=` are swapped wherever one side is a constant
(`PyTreeKind::X`, an integer literal, `nullptr`) and the other a plain name / member path that is
the whole operand (preceded by `(`, `&&`, `||` or `return`).  `node.kind == PyTreeKind::Leaf`
becomes `PyTreeKind::Leaf == node.kind`.  Behaviour is unchanged; a rule that fires reads the kind
test off one operand position.

usage: swap_eq.py <repo copy>"""
import glob
import os
import re
import sys

from rename_cxx_locals import _scan

PAT = re.compile(r'(?P<pre>\(|&&\s+|\|\|\s+|\breturn\s+)(?P<lhs>[A-Za-z_][\w]*(?:(?:\.|->)[A-Za-z_]\w*)*)\s*'
                 r'(?P<op>==|!=)\s*(?P<rhs>PyTreeKind::\w+|\d+|nullptr)(?=\s*(?:\)|&&|\|\||;|\?))')


def swap(text):
    out = []
    i = 0
    n = 0
    pos = 0
    while i < len(text):
        j = _scan(text, i)
        if j != i:
            i = j
            continue
        if text[i] == '#' and text[:i].rstrip(' \t').endswith('\n'):
            j = text.find('\n', i)
            i = len(text) if j < 0 else j
            continue
        m = PAT.match(text, i)
        if m:
            out.append(text[pos:i])
            out.append('%s%s %s %s' % (m.group('pre'), m.group('rhs'), m.group('op'), m.group('lhs')))
            pos = i = m.end()
            n += 1
            continue
        i += 1
    out.append(text[pos:])
    return ''.join(out), n


def main(repo):
    tot = 0
    for pat in ('src/*.cpp', 'src/treespec/*.cpp', 'include/optree/*.h'):
        for p in glob.glob(os.path.join(repo, pat)):
            out, n = swap(open(p).read())
            tot += n
            open(p, 'w').write(out)
    print('%d comparisons swapped' % tot)


if __name__ == '__main__':
    main(os.path.abspath(sys.argv[1]))
