"""Generated neutral edit (Python package): single comparisons are mirrored - `a < b` becomes
`b > a`; `x == CONST`, `x != CONST`, `x is None`, `x is not None` become `CONST == x`, ...,
`None is x`.  Operands are evaluated in the other order, which is unobservable for the operand
shapes touched (names, attributes, constants, len(...) calls).  Behaviour is unchanged.

usage: py_swap_cmp.py <repo copy>"""
import ast
import glob
import os
import sys

MIRROR = {ast.Lt: ast.Gt, ast.Gt: ast.Lt, ast.LtE: ast.GtE, ast.GtE: ast.LtE}


def _simple(e):
    if isinstance(e, (ast.Name, ast.Constant)):
        return True
    if isinstance(e, ast.Attribute):
        return _simple(e.value)
    if isinstance(e, ast.UnaryOp) and isinstance(e.op, ast.USub):
        return _simple(e.operand)
    if isinstance(e, ast.Call) and isinstance(e.func, ast.Name) and e.func.id == 'len' and \
            len(e.args) == 1 and not e.keywords:
        return _simple(e.args[0])
    return False


def swap(text):
    tree = ast.parse(text)
    n = 0
    for node in ast.walk(tree):
        if not isinstance(node, ast.Compare) or len(node.ops) != 1:
            continue
        l, r, op = node.left, node.comparators[0], node.ops[0]
        if not (_simple(l) and _simple(r)):
            continue
        if type(op) in MIRROR:
            node.left, node.comparators, node.ops = r, [l], [MIRROR[type(op)]()]
            n += 1
        elif isinstance(op, (ast.Eq, ast.NotEq, ast.Is, ast.IsNot)) and isinstance(r, ast.Constant) \
                and not isinstance(l, ast.Constant):
            node.left, node.comparators = r, [l]
            n += 1
    ast.fix_missing_locations(tree)
    return ast.unparse(tree) + '\n', n


def main(repo):
    tot = 0
    for p in glob.glob(os.path.join(repo, 'optree', '**', '*.py'), recursive=True):
        out, n = swap(open(p).read())
        tot += n
        open(p, 'w').write(out)
    print('%d python comparisons mirrored' % tot)


if __name__ == '__main__':
    main(os.path.abspath(sys.argv[1]))
