"""Seeded changes (seeded/<id>/patch.diff, written by independent agents that saw only the property
text): apply each to a scratch copy of /repo, run all 20 quick checks, and record which property
checks / rules report it.  The check of the seed's own property must exit 1 with a VIOLATION line.
usage: /venv/bin/python selftest/run_seeded.py [-j N] [seed-id ...]
Writes seeded/RESULTS.json (the table quoted in DESIGN.md appendix C) when run without ids."""
import json
import os
import re
import shutil
import subprocess
import sys
import tempfile
import time
from concurrent.futures import ThreadPoolExecutor

HERE = os.path.dirname(os.path.abspath(__file__))
VERIF = os.path.dirname(HERE)
SEEDED = os.path.join(VERIF, 'seeded')
sys.path.insert(0, HERE)
from run import copy_repo, run_check  # noqa: E402

PROPS = ['C%02d' % i for i in range(1, 21)]


def one(sid, base):
    t0 = time.time()
    d = os.path.join(base, sid)
    os.makedirs(d)
    copy_repo(d)
    patch = os.path.join(SEEDED, sid, 'patch.diff')
    r = subprocess.run(['patch', '-p1', '-s', '-i', patch], cwd=d, capture_output=True, text=True)
    if r.returncode != 0:
        shutil.rmtree(d, ignore_errors=True)
        return {'id': sid, 'ok': False, 'why': 'patch does not apply: ' + (r.stdout + r.stderr)[:200]}
    own = sid.split('-')[-1]
    fired = {}
    errors = {}
    for pr in PROPS:
        rc, out = run_check(d, pr, None, base)
        hits = re.findall(r'^  rule (\S+) at (\S+) \[(.*?)\]: ', out, re.M)
        if rc == 1 and 'VIOLATION property=%s' % pr in out:
            fired[pr] = sorted({'%s:%s' % (h[0], h[2]) for h in hits})
        elif rc != 0:
            errors[pr] = ' | '.join(l for l in out.splitlines() if l.startswith('ANALYSIS-ERROR'))[:300]
    shutil.rmtree(d, ignore_errors=True)
    return {'id': sid, 'property': own, 'ok': own in fired, 'detected_by': fired,
            'analysis_errors': errors, 'seconds': round(time.time() - t0, 1)}


def main():
    args = sys.argv[1:]
    jobs = 5
    if '-j' in args:
        i = args.index('-j')
        jobs = int(args[i + 1])
        del args[i:i + 2]
    ids = sorted(x for x in os.listdir(SEEDED)
                 if os.path.exists(os.path.join(SEEDED, x, 'patch.diff')) and (not args or x in args))
    base = tempfile.mkdtemp(prefix='optree-verif-seeded.')
    try:
        with ThreadPoolExecutor(max_workers=jobs) as ex:
            results = list(ex.map(lambda s: one(s, base), ids))
    finally:
        shutil.rmtree(base, ignore_errors=True)
    okc = 0
    for r in results:
        okc += bool(r['ok'])
        if 'detected_by' not in r:
            print('%-12s BROKEN %s' % (r['id'], r['why']))
            continue
        own = r['detected_by'].get(r['property'], [])
        print('%-12s %s own check: %s' % (r['id'], 'CAUGHT' if r['ok'] else 'MISSED',
                                          ', '.join(sorted({k.split(':')[0] for k in own})) or '-'))
        oth = {p: sorted({k.split(':')[0] for k in v}) for p, v in r['detected_by'].items()
               if p != r['property']}
        if oth:
            print('             also reported by: %s' % ', '.join('%s(%s)' % (p, ','.join(v)) for p, v in sorted(oth.items())))
        if r['analysis_errors']:
            print('             analysis errors: %s' % r['analysis_errors'])
    print('%d of %d seeded changes detected by the check of their own property' % (okc, len(results)))
    if not args:
        json.dump({'results': results}, open(os.path.join(SEEDED, 'RESULTS.json'), 'w'), indent=1)
    return 0 if okc == len(results) else 1


if __name__ == '__main__':
    sys.exit(main())
