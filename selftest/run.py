"""Checker self-test: every mutant must make its rule fire on its site; the unmodified copy must be
silent.  usage: /venv/bin/python selftest/run.py [-j N] [mutant-id ...]
Scratch copies live under /tmp/optree-verif-selftest.* and are removed afterwards."""
import json
import os
import re
import shutil
import subprocess
import sys
import tempfile
import time
from concurrent.futures import ThreadPoolExecutor

HERE = os.path.dirname(os.path.abspath(__file__))
VERIF = os.path.dirname(HERE)
sys.path.insert(0, HERE)
from mutants import M  # noqa: E402

REPO = '/repo'


def copy_repo(dst):
    subprocess.run(['rsync', '-a', '--exclude', '.git', '--exclude', '*.so', '--exclude', '__pycache__',
                    '--exclude', 'tests', '--exclude', 'docs', REPO + '/', dst + '/'], check=True)


def run_check(repo, prop, rule, base):
    env = dict(os.environ)
    env['OPTREE_REPO'] = repo
    env['OPTREE_VERIF_EVIDENCE'] = os.path.join(base, 'evidence-' + os.path.basename(repo))
    env['OPTREE_VERIF_CACHE'] = os.path.join(base, 'cache')
    env['OPTREE_VERIF_CACHE_KEEP'] = '500'
    cmd = [os.path.join(VERIF, 'check'), prop, '--tier', 'quick']
    if rule:
        cmd += ['--rules', rule]
    r = subprocess.run(cmd, capture_output=True, text=True, env=env, cwd=VERIF)
    return r.returncode, r.stdout + r.stderr


import threading
_VARIANT_LOCK = threading.Lock()
VARIANT = None     # --variant: apply the spelling generators to the copy before the mutant


def apply_variant(d):
    """all condition-spelling generators at once (Appendix D, fourth batch): the mutants must still
    be detected on a tree that spells its tests the other way round"""
    import invert_ifs, swap_eq, swap_rel, cxx_idioms, py_swap_cmp
    import io, contextlib
    # (redirect_stdout is process-wide: serialise, or interleaved exits leave stdout redirected)
    with _VARIANT_LOCK, contextlib.redirect_stdout(io.StringIO()):
        invert_ifs.main(d, 'cxx')
        swap_eq.main(d)
        swap_rel.main(d)
        cxx_idioms.main(d)
        py_swap_cmp.main(d)


def apply_variant2(d):
    """the second family of generators (Appendix D, sixth and seventh batch), applied AFTER the
    mutant's edit: the mutated tree - mutant included - is rewritten with split guards, an else
    after every exiting guard, conditions through their negations, const-less locals and keyword
    arguments for engine calls.  The canonical form of the front ends must give the rules the same
    mutant back."""
    import split_conditions, else_after_exit, demorgan, drop_const, py_c_keywords
    import io, contextlib
    with _VARIANT_LOCK, contextlib.redirect_stdout(io.StringIO()):
        demorgan.main(d)
        split_conditions.main(d)
        else_after_exit.main(d)
        drop_const.main(d)
        py_c_keywords.main(d)


def one(mu, base):
    t0 = time.time()
    d = os.path.join(base, mu['id'])
    os.makedirs(d)
    copy_repo(d)
    if VARIANT is True:
        apply_variant(d)
    # edits: (old, new) in the mutant's file, or (file, old, new) for a second file
    edits = [(mu['file'], mu['old'], mu['new'])] + [
        (mu['file'],) + tuple(e) if len(e) == 2 else tuple(e) for e in mu.get('more', [])]
    for fname, old, new in edits:
        p = os.path.join(d, fname)
        s = open(p).read()
        n = s.count(old)
        if n != 1:
            shutil.rmtree(d, ignore_errors=True)
            if VARIANT:
                return {'id': mu['id'], 'ok': None, 'why': 'pattern gone in the variant'}
            return {'id': mu['id'], 'ok': False, 'why': 'pattern matches %d times in %s' % (n, fname)}
        open(p, 'w').write(s.replace(old, new))
    if VARIANT == 2:
        try:
            apply_variant2(d)
        except SyntaxError as e:
            shutil.rmtree(d, ignore_errors=True)
            return {'id': mu['id'], 'ok': None, 'why': 'the mutated Python file does not parse: %s' % e}
    rc, out = run_check(d, mu['prop'], None, base)
    fired = re.findall(r'^  rule (\S+) at (\S+) \[(.*?)\]: ', out, re.M)
    hit = [f for f in fired if f[0] == mu['rule'] and mu['key'] in f[2]]
    others = sorted({'%s:%s' % (f[0], f[2]) for f in fired if f not in hit})
    res = {'id': mu['id'], 'prop': mu['prop'], 'rule': mu['rule'], 'rc': rc, 'ok': bool(hit) and rc == 1,
           'hit': ['%s:%s @%s' % (h[0], h[2], h[1]) for h in hit][:2], 'others': others[:6],
           'seconds': round(time.time() - t0, 1)}
    if not res['ok']:
        res['why'] = ('exit %d; ' % rc) + ('rule did not fire on the site; ' if not hit else '') + \
            ' | '.join(l for l in out.splitlines() if l.startswith('ANALYSIS-ERROR'))[:300]
    shutil.rmtree(d, ignore_errors=True)
    return res


def main():
    global VARIANT
    args = sys.argv[1:]
    jobs = 6
    if '--variant' in args:
        args.remove('--variant')
        VARIANT = True
    if '--variant2' in args:
        args.remove('--variant2')
        VARIANT = 2
    if '-j' in args:
        i = args.index('-j')
        jobs = int(args[i + 1])
        del args[i:i + 2]
    sel = [m for m in M if not args or m['id'] in args]
    base = tempfile.mkdtemp(prefix='optree-verif-selftest.')
    try:
        # silent on the unmodified copy
        clean = os.path.join(base, 'clean')
        os.makedirs(clean)
        copy_repo(clean)
        bad_clean = []
        if not args:
            props = sorted({m['prop'] for m in M})
            for pr in ['C%02d' % i for i in range(1, 21)]:
                rc, out = run_check(clean, pr, None, base)
                if rc != 0:
                    bad_clean.append((pr, rc, out[-300:]))
            print('unmodified copy: %s' % ('silent on all 20 properties' if not bad_clean else bad_clean))
        with ThreadPoolExecutor(max_workers=jobs) as ex:
            results = list(ex.map(lambda mu: one(mu, base), sel))
    finally:
        shutil.rmtree(base, ignore_errors=True)
    okc = 0
    skipped = [r for r in results if r['ok'] is None]
    results = [r for r in results if r['ok'] is not None]
    for r in results:
        okc += bool(r['ok'])
        print('%-44s %s %s' % (r['id'], 'FIRES ' if r['ok'] else 'MISSED', r.get('hit') or r.get('why')))
        if r.get('others'):
            print('      also: %s' % r['others'])
    print('%d of %d mutants detected%s' % (okc, len(results),
                                          (' on the respelt variant (%d mutants not applicable: their '
                                           'site is spelt differently there)' % len(skipped)) if VARIANT else ''))
    if VARIANT:
        if not args:
            json.dump({'results': results, 'skipped': [r['id'] for r in skipped]},
                      open(os.path.join(HERE, 'last_run_variant2.json' if VARIANT == 2 else 'last_run_variant.json'), 'w'),
                      indent=1)
        return 0 if okc == len(results) else 1
    if not args:
        json.dump({'results': results, 'clean_silent': not bad_clean},
                  open(os.path.join(HERE, 'last_run.json'), 'w'), indent=1)
    return 0 if okc == len(results) and not bad_clean else 1


if __name__ == '__main__':
    sys.exit(main())
