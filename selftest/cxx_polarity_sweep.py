"""Exhaustive polarity sweep over the engine: every `if (<test>) { ...; throw ...; }` guard (no
else) of src/ and include/optree/ is negated, one at a time, and all twenty static checks are run
on the copy.  Lists the guards whose negation no check reports.  Static verdicts only.

usage: cxx_polarity_sweep.py [-j N] [file ...]        writes selftest/cxx_polarity_last.json"""
import glob
import json
import os
import re
import shutil
import sys
import tempfile
from concurrent.futures import ThreadPoolExecutor

HERE = os.path.dirname(os.path.abspath(__file__))
sys.path.insert(0, HERE)
from run import run_check, copy_repo  # noqa: E402
from invert_ifs import _match, _skip_ws, ATTR  # noqa: E402

LAST_THROW = re.compile(r'(?:^|[;{}])\s*throw\b[^;{}]*;\s*\}$', re.S)


def sites(text):
    out = []
    for m in re.finditer(r'\bif\s*\(', text):
        before = text[:m.start()].rstrip()
        if before.endswith('#') or before.endswith('else'):
            continue
        line_start = text.rfind('\n', 0, m.start()) + 1
        if text[line_start:m.start()].lstrip().startswith(('#', '//', '*')):
            continue
        po = m.end() - 1
        pc = _match(text, po, '(', ')')
        if pc < 0:
            continue
        cond = text[po + 1:pc - 1]
        if ';' in cond or re.search(r'(?<![=!<>+\-*/|&^%])=(?!=)', cond):
            continue
        k = pc
        a1 = ATTR.match(text, k)
        if a1:
            k = a1.end()
        k = _skip_ws(text, k)
        if k >= len(text) or text[k] != '{':
            continue
        b1 = _match(text, k, '{', '}')
        if b1 < 0 or '\\\n' in text[m.start():b1]:
            continue
        body = text[k:b1]
        if not LAST_THROW.search(body):
            continue
        e = _skip_ws(text, b1)
        if text.startswith('else', e) and not (text[e + 4:e + 5].isalnum() or text[e + 4:e + 5] == '_'):
            continue
        line = text.count('\n', 0, m.start()) + 1
        new = text[:po + 1] + '!(' + cond + ')' + text[pc - 1:]
        out.append(('L%d `if (%s)` -> throw' % (line, ' '.join(cond.split())[:80]), new))
    return out


def one(args):
    i, f, desc, text, base = args
    d = os.path.join(base, 'q%04d' % i)
    os.makedirs(d)
    copy_repo(d)
    open(os.path.join(d, f), 'w').write(text)
    hit, errs = [], []
    for k in range(1, 21):
        pr = 'C%02d' % k
        rc, out = run_check(d, pr, None, base)
        if rc == 1:
            hit.append(pr)
        elif rc != 0:
            errs.append(pr)
    shutil.rmtree(d, ignore_errors=True)
    return {'file': f, 'desc': desc, 'reported_by': hit, 'analysis_errors': errs}


def main():
    a = sys.argv[1:]
    jobs = 5
    if '-j' in a:
        i = a.index('-j')
        jobs = int(a[i + 1])
        del a[i:i + 2]
    files = a or sorted(os.path.relpath(p, '/repo') for pat in ('src/*.cpp', 'src/treespec/*.cpp', 'include/optree/*.h')
                        for p in glob.glob(os.path.join('/repo', pat)))
    base = tempfile.mkdtemp(prefix='optree-cxxpolarity.')
    todo = []
    for f in files:
        for desc, text in sites(open(os.path.join('/repo', f)).read()):
            todo.append((len(todo), f, desc, text, base))
    print('%d guards' % len(todo), flush=True)
    try:
        with ThreadPoolExecutor(max_workers=jobs) as ex:
            res = list(ex.map(one, todo))
    finally:
        shutil.rmtree(base, ignore_errors=True)
    silent = [r for r in res if not r['reported_by']]
    for r in res:
        print('%-9s %s %s' % ('reported' if r['reported_by'] else ('ERROR' if r['analysis_errors'] else 'SILENT'),
                              r['file'], r['desc']))
    print('%d guards negated: %d reported, %d silent' % (len(res), len(res) - len(silent), len(silent)))
    if not a:
        json.dump(res, open(os.path.join(HERE, 'cxx_polarity_last.json'), 'w'), indent=1)


if __name__ == '__main__':
    main()
