"""Generated neutral edit: two adjacent guards with the same exit change places.
C++    `if (A) { return false; } if (B) { return false; }` -> B first, then A
Python `if a: return x` / `if b: return x`                   -> b first, then a
Only where both conditions are free of calls that can run Python code or throw (member reads,
comparisons, `.empty()`, `.size()`, the treespec's own counters), so that evaluating B before A
is unobservable, and the two bodies are the same single exiting statement.  Behaviour is
unchanged.  A rule that fires depends on the order in which independent rejections are written.

usage: swap_guards.py <repo copy> [py|cxx|both]"""
import ast
import glob
import os
import re
import sys

from invert_ifs import _match, _skip_ws, ATTR
from split_conditions import EXIT_BODY

IMPURE = re.compile(r'py::|Py[A-Z_]|not_equal|\.equal\(|\.is\(|EVALUATE|thread_safe_cast|Get(?!Num)|Is[A-Z]|'
                    r'Lookup|\+\+|--|(?<![=!<>])=(?!=)|\bat\(|operator|\[')


def _guards(text):
    """(start, end, cond, attr, body) of plain `if (c) [[attr]] { single exit }` statements without else"""
    out = []
    for m in re.finditer(r'\bif\s*\(', text):
        before = text[:m.start()].rstrip()
        if before.endswith('else') or before.endswith('#') or not before or before[-1] not in '{};':
            continue
        po = m.end() - 1
        pc = _match(text, po, '(', ')')
        if pc < 0:
            continue
        cond = text[po + 1:pc - 1]
        k = pc
        a1 = ATTR.match(text, k)
        attr = ''
        if a1:
            attr = a1.group(1)
            k = a1.end()
        k = _skip_ws(text, k)
        if k >= len(text) or text[k] != '{':
            continue
        b1 = _match(text, k, '{', '}')
        if b1 < 0:
            continue
        body = text[k:b1]
        if not EXIT_BODY.match(body.strip()) or '\\\n' in text[m.start():b1]:
            continue
        e = _skip_ws(text, b1)
        if text.startswith('else', e) and not (text[e + 4:e + 5].isalnum() or text[e + 4:e + 5] == '_'):
            continue
        out.append((m.start(), b1, cond, attr, body))
    return out


def cxx_swap(text):
    gs = _guards(text)
    n = 0
    out, pos, i = [], 0, 0
    while i < len(gs) - 1:
        a, b = gs[i], gs[i + 1]
        between = text[a[1]:b[0]]
        if between.strip() == '' and a[4].split() == b[4].split() and 'throw' not in a[4] and \
                not IMPURE.search(a[2]) and not IMPURE.search(b[2]) and a[0] >= pos:
            out.append(text[pos:a[0]])
            out.append(text[b[0]:b[1]] + between + text[a[0]:a[1]])
            pos = b[1]
            n += 1
            i += 2
        else:
            i += 1
    out.append(text[pos:])
    return ''.join(out), n


def _pure(e):
    return not any(isinstance(x, (ast.Call, ast.Subscript, ast.Await, ast.Yield, ast.NamedExpr)) or
                   (isinstance(x, ast.Compare) and any(isinstance(o, (ast.In, ast.NotIn, ast.Eq, ast.NotEq, ast.Lt,
                                                                     ast.LtE, ast.Gt, ast.GtE)) for o in x.ops) and
                    not all(isinstance(c, ast.Constant) for c in x.comparators))
                   for x in ast.walk(e))


def python_swap(text):
    tree = ast.parse(text)
    n = 0
    for node in ast.walk(tree):
        for fld in ('body', 'orelse', 'finalbody'):
            body = getattr(node, fld, None)
            if not (isinstance(body, list) and body and isinstance(body[0], ast.stmt)):
                continue
            i = 0
            while i < len(body) - 1:
                a, b = body[i], body[i + 1]
                if isinstance(a, ast.If) and isinstance(b, ast.If) and not a.orelse and not b.orelse and \
                        len(a.body) == 1 and len(b.body) == 1 and \
                        isinstance(a.body[0], (ast.Return, ast.Continue, ast.Break)) and \
                        ast.dump(a.body[0]) == ast.dump(b.body[0]) and _pure(a.test) and _pure(b.test):
                    body[i], body[i + 1] = b, a
                    n += 1
                    i += 2
                else:
                    i += 1
    ast.fix_missing_locations(tree)
    return ast.unparse(tree) + '\n', n


def main(repo, lang='both'):
    tp = tc = 0
    if lang in ('both', 'py'):
        for p in glob.glob(os.path.join(repo, 'optree', '**', '*.py'), recursive=True):
            out, n = python_swap(open(p).read())
            tp += n
            open(p, 'w').write(out)
    if lang in ('both', 'cxx'):
        for pat in ('src/*.cpp', 'src/treespec/*.cpp', 'include/optree/*.h'):
            for p in glob.glob(os.path.join(repo, pat)):
                out, n = cxx_swap(open(p).read())
                tc += n
                open(p, 'w').write(out)
    print('%d python and %d c++ pairs of guards swapped' % (tp, tc))


if __name__ == '__main__':
    main(os.path.abspath(sys.argv[1]), sys.argv[2] if len(sys.argv) > 2 else 'both')
