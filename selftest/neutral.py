"""Behaviour-preserving edits: every check must stay silent (exit 0) on each of them.  A rule that
fires here demands more than the property states (a false alarm); a rule that gives up with
ANALYSIS-ERROR is tolerated but listed, because it is a verdict lost.

(id, file, [(old, new), ...])
"""

N = []


def n(nid, file, edits):
    N.append({'id': nid, 'file': file, 'edits': edits})


n('rename-locals-flatten', 'src/treespec/flatten.cpp', [
    ("""                py::list keys;
                {
                    const scoped_critical_section cs{handle};
                    const auto dict = py::reinterpret_borrow<py::dict>(handle);
                    node.arity = DictGetSize(dict);
                    keys = DictKeys(dict);
                    if (node.kind != PyTreeKind::OrderedDict) [[likely]] {
                        node.original_keys = py::getattr(keys, Py_Get_ID(copy))();
                        if constexpr (DictShouldBeSorted) {
                            TotalOrderSort(keys);
                        }
                    }
                    for (const py::handle& key : keys) {
                        recurse(DictGetItem(dict, key));
                    }
                }
                if (node.kind == PyTreeKind::DefaultDict) [[unlikely]] {
                    const scoped_critical_section cs{handle};
                    node.node_data = py::make_tuple(py::getattr(handle, Py_Get_ID(default_factory)),
                                                    std::move(keys));
                } else [[likely]] {
                    node.node_data = std::move(keys);
                }""",
     """                py::list key_list;
                {
                    const scoped_critical_section cs{handle};
                    const auto mapping = py::reinterpret_borrow<py::dict>(handle);
                    node.arity = DictGetSize(mapping);
                    key_list = DictKeys(mapping);
                    if (node.kind != PyTreeKind::OrderedDict) [[likely]] {
                        node.original_keys = py::getattr(key_list, Py_Get_ID(copy))();
                        if constexpr (DictShouldBeSorted) {
                            TotalOrderSort(key_list);
                        }
                    }
                    for (const py::handle& k : key_list) {
                        recurse(DictGetItem(mapping, k));
                    }
                }
                if (node.kind == PyTreeKind::DefaultDict) [[unlikely]] {
                    const scoped_critical_section cs{handle};
                    node.node_data = py::make_tuple(py::getattr(handle, Py_Get_ID(default_factory)),
                                                    std::move(key_list));
                } else [[likely]] {
                    node.node_data = std::move(key_list);
                }""")])
n('depth-check-helper', 'src/treespec/flatten.cpp', [
    ("""template <bool NoneIsLeaf, bool DictShouldBeSorted, typename Span>
// NOLINTNEXTLINE[readability-function-cognitive-complexity]
bool PyTreeSpec::FlattenIntoImpl(const py::handle& handle,
                                 Span& leaves,
                                 const ssize_t& depth,
                                 const std::optional<py::function>& leaf_predicate,
                                 const std::string& registry_namespace) {
    if (depth > MAX_RECURSION_DEPTH) [[unlikely]] {
        PyErr_SetString(PyExc_RecursionError,
                        "Maximum recursion depth exceeded during flattening the tree.");
        throw py::error_already_set();
    }
""",
     """static inline void CheckRecursionDepth(const ssize_t& depth) {
    if (depth > MAX_RECURSION_DEPTH) [[unlikely]] {
        PyErr_SetString(PyExc_RecursionError,
                        "Maximum recursion depth exceeded during flattening the tree.");
        throw py::error_already_set();
    }
}

template <bool NoneIsLeaf, bool DictShouldBeSorted, typename Span>
// NOLINTNEXTLINE[readability-function-cognitive-complexity]
bool PyTreeSpec::FlattenIntoImpl(const py::handle& handle,
                                 Span& leaves,
                                 const ssize_t& depth,
                                 const std::optional<py::function>& leaf_predicate,
                                 const std::string& registry_namespace) {
    CheckRecursionDepth(depth);
""")])
n('child-assignments-swapped', 'src/treespec/treespec.cpp', [
    ("""    child->m_none_is_leaf = m_none_is_leaf;
    child->m_namespace = m_namespace;""",
     """    child->m_namespace = m_namespace;
    child->m_none_is_leaf = m_none_is_leaf;""")])
n('equalto-split-ifs', 'src/treespec/richcomparison.cpp', [
    ("""        if (a->kind != b->kind || a->arity != b->arity ||
            static_cast<bool>(a->node_data) != static_cast<bool>(b->node_data) ||
            a->custom != b->custom) [[likely]] {
            return false;
        }
        const scoped_critical_section2 cs(a->node_data, b->node_data);""",
     """        if (a->kind != b->kind) {
            return false;
        }
        if (a->arity != b->arity) {
            return false;
        }
        if (static_cast<bool>(a->node_data) != static_cast<bool>(b->node_data) ||
            a->custom != b->custom) [[likely]] {
            return false;
        }
        const scoped_critical_section2 cs(a->node_data, b->node_data);""")])
n('hash-through-local', 'src/treespec/hashing.cpp', [
    ("""                const auto& type = GetType(node);
                HashCombine(seed, EVALUATE_WITH_LOCK_HELD(py::hash(type), type));""",
     """                const auto& type = GetType(node);
                const ssize_t type_hash = EVALUATE_WITH_LOCK_HELD(py::hash(type), type);
                HashCombine(seed, type_hash);""")])
n('iter-early-return-to-else', 'src/treespec/flatten.cpp', [
    ("""        if (leaf_predicate &&
            EVALUATE_WITH_LOCK_HELD2(thread_safe_cast<bool>((*leaf_predicate)(handle)),
                                     handle,
                                     *leaf_predicate)) [[unlikely]] {
            continue;
        }
        if (PyTreeTypeRegistry::GetKind<NoneIsLeaf>(handle, custom, registry_namespace) !=
            PyTreeKind::Leaf) [[unlikely]] {
            return false;
        }""",
     """        const bool is_leaf_by_predicate =
            leaf_predicate &&
            EVALUATE_WITH_LOCK_HELD2(thread_safe_cast<bool>((*leaf_predicate)(handle)),
                                     handle,
                                     *leaf_predicate);
        if (!is_leaf_by_predicate) {
            if (PyTreeTypeRegistry::GetKind<NoneIsLeaf>(handle, custom, registry_namespace) !=
                PyTreeKind::Leaf) [[unlikely]] {
                return false;
            }
        }""")])
n('register-incref-reordered', 'src/registry.cpp', [
    ("""    cls.inc_ref();
    flatten_func.inc_ref();
    unflatten_func.inc_ref();
    path_entry_type.inc_ref();""",
     """    path_entry_type.inc_ref();
    unflatten_func.inc_ref();
    flatten_func.inc_ref();
    cls.inc_ref();""")])
n('lookup-ternary-to-if', 'src/registry.cpp', [
    ("""    const auto it = registry->m_registrations.find(cls);
    return it != registry->m_registrations.end() ? it->second : nullptr;""",
     """    const auto it = registry->m_registrations.find(cls);
    if (it == registry->m_registrations.end()) {
        return nullptr;
    }
    return it->second;""")])
n('py-tree-map-inline-args', 'optree/ops.py', [
    ("""    leaves, treespec = _C.flatten(tree, is_leaf, none_is_leaf, namespace)
    flat_args = [leaves] + [treespec.flatten_up_to(r) for r in rests]
    return treespec.unflatten(map(func, *flat_args))""",
     """    leaves, treespec = _C.flatten(tree, is_leaf, none_is_leaf, namespace)
    matched_rests = [leaves] + [treespec.flatten_up_to(rest) for rest in rests]
    return treespec.unflatten(map(func, *matched_rests))""")])
n('py-dict-insertion-ordered-renames', 'optree/registry.py', [
    ("""    with __REGISTRY_LOCK:
        prev = _C.is_dict_insertion_ordered(namespace, inherit_global_namespace=False)
        _C.set_dict_insertion_ordered(bool(mode), namespace)

    try:
        yield
    finally:
        with __REGISTRY_LOCK:
            _C.set_dict_insertion_ordered(prev, namespace)""",
     """    mode = bool(mode)
    with __REGISTRY_LOCK:
        previous_mode = _C.is_dict_insertion_ordered(namespace, inherit_global_namespace=False)
        _C.set_dict_insertion_ordered(mode, namespace)

    try:
        yield
    finally:
        with __REGISTRY_LOCK:
            _C.set_dict_insertion_ordered(previous_mode, namespace)""")])
n('py-registry-key-rename', 'optree/registry.py', [
    ("""    registration_key: type | tuple[str, type]
    if namespace is __GLOBAL_NAMESPACE:
        registration_key = cls
        namespace = ''
    else:
        registration_key = (namespace, cls)

    with __REGISTRY_LOCK:
        _C.unregister_node(cls, namespace)
        return _NODETYPE_REGISTRY.pop(registration_key)""",
     """    key: type | tuple[str, type]
    if namespace is __GLOBAL_NAMESPACE:
        key = cls
        namespace = ''
    else:
        key = (namespace, cls)

    with __REGISTRY_LOCK:
        _C.unregister_node(cls, namespace)
        return _NODETYPE_REGISTRY.pop(key)""")])
n('py-transpose-guard-order', 'optree/ops.py', [
    ("""    if outer_treespec.none_is_leaf != inner_treespec.none_is_leaf:
        raise ValueError('Tree structures must have the same none_is_leaf value.')
    outer_size = outer_treespec.num_leaves
    inner_size = inner_treespec.num_leaves
    if outer_size == 0 or inner_size == 0:
        raise ValueError('Tree structures must have at least one leaf.')""",
     """    outer_size = outer_treespec.num_leaves
    inner_size = inner_treespec.num_leaves
    if outer_size == 0 or inner_size == 0:
        raise ValueError('Tree structures must have at least one leaf.')
    if outer_treespec.none_is_leaf != inner_treespec.none_is_leaf:
        raise ValueError('Tree structures must have the same none_is_leaf value.')""")])
n('py-total-order-sorted-comment', 'optree/utils.py', [
    ("""    sequence = list(iterable)
""", """    sequence = list(iterable)  # materialise once: the input may be a one-shot iterator
""")])
n('makenode-loop-style', 'src/treespec/treespec.cpp', [
    ("""            py::list list{node.arity};
            for (ssize_t i = 0; i < node.arity; ++i) {
                // NOLINTNEXTLINE[cppcoreguidelines-pro-bounds-pointer-arithmetic]
                ListSetItem(list, i, children[i]);
            }""",
     """            py::list list{node.arity};
            for (ssize_t idx = 0; idx != node.arity; idx++) {
                // NOLINTNEXTLINE[cppcoreguidelines-pro-bounds-pointer-arithmetic]
                ListSetItem(list, idx, children[idx]);
            }""")])
n('entries-copy-via-local', 'src/treespec/treespec.cpp', [
    ("""        case PyTreeKind::DefaultDict: {
            const scoped_critical_section cs{root.node_data};
            return py::getattr(TupleGetItem(root.node_data, 1), Py_Get_ID(copy))();
        }""",
     """        case PyTreeKind::DefaultDict: {
            const scoped_critical_section cs{root.node_data};
            const py::object keys = TupleGetItem(root.node_data, 1);
            return py::getattr(keys, Py_Get_ID(copy))();
        }""")])


# generated: all locals of all Python functions renamed (225 names); verified behaviour-preserving
# by running tests/test_ops.py, tests/integration, test_dataclasses/functools/registry/
# prefix_errors/accessor/typing/utils on the renamed tree (59303 passed)
N.append({'id': 'py-rename-all-locals', 'generator': 'rename-python-locals', 'file': None, 'edits': []})

# generated: every local variable / structured binding of every engine function renamed (2580
# occurrences in 17 files, see rename_cxx_locals.py); the renamed tree was built with g++ and passed
# tests/test_treespec.py, test_registry.py, test_prefix_errors.py, test_accessor.py, test_typing.py
# (31829 passed)
N.append({'id': 'cxx-rename-all-locals', 'generator': 'rename-cxx-locals', 'file': None, 'edits': []})

# generated: as above plus every parameter of every function definition (declarations keep their
# spelling; constructors skipped): 3586 occurrences, built and tested the same way (31829 passed)
N.append({'id': 'cxx-rename-all-locals-and-params', 'generator': 'rename-cxx-locals', 'params': True,
          'file': None, 'edits': []})

# generated: as py-rename-all-locals plus every positional-only parameter (their spelling is not
# part of the interface): 445 names; tested the same way (59303 passed)
N.append({'id': 'py-rename-locals-and-posonly-params', 'generator': 'rename-python-locals', 'posonly': True,
          'file': None, 'edits': []})

# generated: a no-op statement at the start of every function body, before every return / raise
# (Python: `pass`, 602 sites) and after every `{` that opens a function body, a branch, a loop body
# or a case arm (C++: `(void)0;`, 680 sites); built and tested (32062 passed)
N.append({'id': 'noop-statements-everywhere', 'generator': 'insert-noops', 'file': None, 'edits': []})

# generated: every if/else of the Python package turned round (`if not t: B else: A`, 11 sites) and
# the keyword arguments of every call written in reverse order (52 calls); tested (59303 passed)
N.append({'id': 'py-if-else-swapped-and-keywords-reversed', 'generator': 'py-shuffle', 'file': None, 'edits': []})

# ---- helper extraction (the arm walker looks through small helpers and local lambdas) ---------
n('flatten-dict-keys-via-lambda', 'src/treespec/flatten.cpp', [
    ("""            case PyTreeKind::Dict:
            case PyTreeKind::OrderedDict:
            case PyTreeKind::DefaultDict: {
                py::list keys;
                {
                    const scoped_critical_section cs{handle};
                    const auto dict = py::reinterpret_borrow<py::dict>(handle);
                    node.arity = DictGetSize(dict);
                    keys = DictKeys(dict);
                    if (node.kind != PyTreeKind::OrderedDict) [[likely]] {
                        node.original_keys = py::getattr(keys, Py_Get_ID(copy))();
                        if constexpr (DictShouldBeSorted) {
                            TotalOrderSort(keys);
                        }
                    }
                    for (const py::handle& key : keys) {
                        recurse(DictGetItem(dict, key));
                    }
                }
                if (node.kind == PyTreeKind::DefaultDict) [[unlikely]] {
                    const scoped_critical_section cs{handle};
                    node.node_data = py::make_tuple(py::getattr(handle, Py_Get_ID(default_factory)),
                                                    std::move(keys));""",
     """            case PyTreeKind::Dict:
            case PyTreeKind::OrderedDict:
            case PyTreeKind::DefaultDict: {
                const auto ordered_keys_of = [&node](const py::dict& mapping) -> py::list {
                    py::list result = DictKeys(mapping);
                    if (node.kind != PyTreeKind::OrderedDict) [[likely]] {
                        node.original_keys = py::getattr(result, Py_Get_ID(copy))();
                        if constexpr (DictShouldBeSorted) {
                            TotalOrderSort(result);
                        }
                    }
                    return result;
                };
                py::list keys;
                {
                    const scoped_critical_section cs{handle};
                    const auto dict = py::reinterpret_borrow<py::dict>(handle);
                    node.arity = DictGetSize(dict);
                    keys = ordered_keys_of(dict);
                    for (const py::handle& key : keys) {
                        recurse(DictGetItem(dict, key));
                    }
                }
                if (node.kind == PyTreeKind::DefaultDict) [[unlikely]] {
                    const scoped_critical_section cs{handle};
                    node.node_data = py::make_tuple(py::getattr(handle, Py_Get_ID(default_factory)),
                                                    std::move(keys));""")])
n('iter-dict-keys-via-helper', 'src/treespec/traversal.cpp', [
    ("""template <bool NoneIsLeaf>
// NOLINTNEXTLINE[readability-function-cognitive-complexity]
py::object PyTreeIter::NextImpl() {""",
     """// The keys of a dict node in the order its children are yielded (children are pushed reversed).
static inline py::list ReversedKeysOf(const py::dict& mapping, const bool& should_sort) {
    py::list result = DictKeys(mapping);
    if (should_sort) [[likely]] {
        TotalOrderSort(result);
    }
    if (PyList_Reverse(result.ptr()) < 0) [[unlikely]] {
        throw py::error_already_set();
    }
    return result;
}

template <bool NoneIsLeaf>
// NOLINTNEXTLINE[readability-function-cognitive-complexity]
py::object PyTreeIter::NextImpl() {"""),
    ("""                py::list keys = DictKeys(dict);
                if (kind != PyTreeKind::OrderedDict && !m_is_dict_insertion_ordered) [[likely]] {
                    TotalOrderSort(keys);
                }
                if (PyList_Reverse(keys.ptr()) < 0) [[unlikely]] {
                    throw py::error_already_set();
                }
                for (const py::handle &key : keys) {""",
     """                const py::list keys = ReversedKeysOf(
                    dict,
                    kind != PyTreeKind::OrderedDict && !m_is_dict_insertion_ordered);
                for (const py::handle &key : keys) {""")])

# every two-armed C++ conditional written the other way round: `if (!(c)) B else A` (41 sites;
# attributes travel with their arm).  The first run raised two false alarms - N1 and D3 looked for
# "the call is in the then-arm" - now both read the outcome of the un-negated condition.
N.append({'id': 'cxx-if-else-inverted', 'generator': 'invert-ifs', 'file': None, 'edits': []})

# `x == CONSTANT` written `CONSTANT == x` at 90 sites (kind tests, length tests, null tests).  The
# first run raised alarms in K7, P2cxx, I2 and an analysis error in P1: each read the test off one
# operand order.  The IR now puts the constant operand of a built-in ==/!= on the right.
N.append({'id': 'cxx-comparison-operands-swapped', 'generator': 'swap-eq', 'file': None, 'edits': []})

# `a < b` written `b > a` at 71 sites (loop bounds, index range tests, the depth test, the cache
# cap).  The first run raised alarms in K4 (loop direction read off `i >= 0`), I3, I4 and T3; they
# now read inequalities through `relation()` (small, big, strict), whichever way they are spelt.
N.append({'id': 'cxx-inequalities-mirrored', 'generator': 'swap-rel', 'file': None, 'edits': []})

# Python: `x == 1` written `1 == x`, `x is None` written `None is x`, `a < b` written `b > a`
# (63 sites).  The first run raised alarms in T6, F6, G4, K7py and an analysis error in K6py; the
# Python front end now hands the rules a tree with the constant operand on the right.
N.append({'id': 'py-comparisons-mirrored', 'generator': 'py-swap-cmp', 'file': None, 'edits': []})

# `++i` in a for header written `i += 1` (54 sites) and `x.empty()` written `(x.size() == 0)`
# (24 sites).  The first run raised a K6 alarm and a G6 analysis error: the namespace emptiness
# test was recognised in one spelling only; `_ns_empty_test` now reads empty(), size() == 0,
# size() != 0, size() > 0 and their mirrored forms.
N.append({'id': 'cxx-idioms-respelt', 'generator': 'cxx-idioms', 'file': None, 'edits': []})

# every call-free if-condition is given a name first: `if (const bool hc = static_cast<bool>(C); hc)`
# (165 sites).  The first run raised alarms in fourteen rules (every rule that reads a test off the
# condition of an `if`).  The IR now puts the initialiser of a `const bool` local that only names a
# pure test back into the condition it stands for (cxx_frontend.resolve_bool_locals) and drops the
# declaration; the rules were not touched.
N.append({'id': 'cxx-conditions-named-first', 'generator': 'hoist-conditions', 'file': None, 'edits': []})

# the same by hand, with the declaration as a statement of its own
N.append({'id': 'cxx-namespace-conflict-named', 'file': 'src/treespec/richcomparison.cpp', 'edits': [(
    """    if (m_traversal.size() != other.m_traversal.size() || m_none_is_leaf != other.m_none_is_leaf)
        [[likely]] {
        return false;
    }
    if (!m_namespace.empty() && !other.m_namespace.empty() && m_namespace != other.m_namespace)
        [[likely]] {
        return false;
    }""",
    """    if (m_traversal.size() != other.m_traversal.size() || m_none_is_leaf != other.m_none_is_leaf)
        [[likely]] {
        return false;
    }
    const bool namespaces_conflict =
        !m_namespace.empty() && !other.m_namespace.empty() && m_namespace != other.m_namespace;
    if (namespaces_conflict) [[likely]] {
        return false;
    }""")]})

# the subject of every kind switch is given a name first:
# `{ const auto sk = node.kind; switch (sk) { ... } }` (19 switches).  The first run raised alarms
# in M1, D2, K3, P1, T4 (the arm descriptors looked for `<subject>.kind` tests inside the arms and
# for the statements before the switch in the same block).  The alias resolution of the IR now
# covers const locals of type PyTreeKind and switch conditions, with a use-site criterion for
# "nothing it reads has been assigned in between", and the prelude of a switch is collected
# through plain nested blocks.
N.append({'id': 'cxx-switch-subject-named-first', 'generator': 'alias-switch', 'file': None, 'edits': []})

# Compose builds the scaled node with an aggregate initialiser instead of copy-and-patch (every
# field listed).  M8 first read the counts only from assignments (seed d01 showed it).
N.append({'id': 'cxx-compose-node-built-in-place', 'file': 'src/treespec/treespec.cpp', 'edits': [(
    """            Node new_node{node};
            new_node.num_leaves = node.num_leaves * num_inner_leaves;
            new_node.num_nodes =
                (node.num_nodes - node.num_leaves) + (node.num_leaves * num_inner_nodes);
            treespec->m_traversal.emplace_back(std::move(new_node));""",
    """            treespec->m_traversal.emplace_back(Node{
                .kind = node.kind,
                .arity = node.arity,
                .node_data = node.node_data,
                .node_entries = node.node_entries,
                .custom = node.custom,
                .num_leaves = node.num_leaves * num_inner_leaves,
                .num_nodes =
                    (node.num_nodes - node.num_leaves) + (node.num_leaves * num_inner_nodes),
                .original_keys = node.original_keys,
            });""")]})

# Python: explaining variables - every `return f(g(x))` becomes `tmp = g(x); out = f(tmp); return out`
# (118 returns).  The first run raised alarms in T4, F2, F6, F7, F11, F12, N6, R3, DC4 and analysis
# errors in N3, N4, DC1: every rule that reads the shape of a return.  The Python front end now
# inlines a name that is bound once and read once in the next statement (as the whole return value
# or a direct argument of its call) - `py_frontend.inline_explaining_variables`.
N.append({'id': 'py-explaining-variables', 'generator': 'py-temps', 'file': None, 'edits': []})

# compound guards written as separate tests: `if (A || B) return X;` -> `if (A) return X; if (B)
# return X;`, `if (A && B) S` -> `if (A) { if (B) S }`, in C++ (8 + 21 guards) and Python (3 + 14).
# The first run raised alarms in K7, P1, P2cxx, G4, DC3 and an analysis error in T1 (too few atoms):
# every extractor that read a guard from one IfStmt.  Both front ends now show a chain of plain
# ifs as one compound test (cxx_frontend.merge_split_guards, py_frontend.merge_split_guards); the
# rules were not touched.  The rewritten tree passes the test suite (94003 passed).
N.append({'id': 'guards-split-into-separate-tests', 'generator': 'split-conditions', 'file': None, 'edits': []})

# helper extraction: the iterator's Custom arm calls a file-local helper that runs the flatten
# function, validates the result and hands back (children, node_data) as a pair (seed h03 did this
# as part of a larger change; this is the behaviour-preserving half).
N.append({'id': 'cxx-custom-flatten-helper-extracted', 'file': 'src/treespec/traversal.cpp', 'edits': [(
    """namespace optree {

template <bool NoneIsLeaf>
// NOLINTNEXTLINE[readability-function-cognitive-complexity]
py::object PyTreeIter::NextImpl() {""",
    """namespace optree {

static std::pair<py::tuple, py::object> FlattenCustomNode(
    const py::handle &handle,
    const PyTreeTypeRegistry::RegistrationPtr &custom) {
    const py::tuple out =
        EVALUATE_WITH_LOCK_HELD2(thread_safe_cast<py::tuple>(custom->flatten_func(handle)),
                                 handle,
                                 custom->flatten_func);
    const ssize_t num_out = TupleGetSize(out);
    if (num_out != 2 && num_out != 3) [[unlikely]] {
        std::ostringstream oss{};
        oss << "PyTree custom flatten function for type " << PyRepr(custom->type)
            << " should return a 2- or 3-tuple, got " << num_out << ".";
        throw std::runtime_error(oss.str());
    }
    auto children = thread_safe_cast<py::tuple>(TupleGetItem(out, 0));
    const ssize_t arity = TupleGetSize(children);
    if (num_out == 3) [[likely]] {
        const py::object node_entries = TupleGetItem(out, 2);
        if (!node_entries.is_none()) [[likely]] {
            const ssize_t num_entries = TupleGetSize(thread_safe_cast<py::tuple>(node_entries));
            if (num_entries != arity) [[unlikely]] {
                std::ostringstream oss{};
                oss << "PyTree custom flatten function for type " << PyRepr(custom->type)
                    << " returned inconsistent number of children (" << arity
                    << ") and number of entries (" << num_entries << ").";
                throw std::runtime_error(oss.str());
            }
        }
    }
    return {std::move(children), TupleGetItem(out, 1)};
}

template <bool NoneIsLeaf>
// NOLINTNEXTLINE[readability-function-cognitive-complexity]
py::object PyTreeIter::NextImpl() {"""), (
    """                const py::tuple out = EVALUATE_WITH_LOCK_HELD2(
                    thread_safe_cast<py::tuple>(custom->flatten_func(object)),
                    object,
                    custom->flatten_func);
                const ssize_t num_out = TupleGetSize(out);
                if (num_out != 2 && num_out != 3) [[unlikely]] {
                    std::ostringstream oss{};
                    oss << "PyTree custom flatten function for type " << PyRepr(custom->type)
                        << " should return a 2- or 3-tuple, got " << num_out << ".";
                    throw std::runtime_error(oss.str());
                }
                auto children = thread_safe_cast<py::tuple>(TupleGetItem(out, 0));
                const ssize_t arity = TupleGetSize(children);
                if (num_out == 3) [[likely]] {
                    const py::object node_entries = TupleGetItem(out, 2);
                    if (!node_entries.is_none()) [[likely]] {
                        const ssize_t num_entries =
                            TupleGetSize(thread_safe_cast<py::tuple>(node_entries));
                        if (num_entries != arity) [[unlikely]] {
                            std::ostringstream oss{};
                            oss << "PyTree custom flatten function for type "
                                << PyRepr(custom->type)
                                << " returned inconsistent number of children (" << arity
                                << ") and number of entries (" << num_entries << ").";
                            throw std::runtime_error(oss.str());
                        }
                    }
                }
                for (ssize_t i = arity - 1; i >= 0; --i) {""",
    """                const py::tuple children = FlattenCustomNode(object, custom).first;
                const ssize_t arity = TupleGetSize(children);
                for (ssize_t i = arity - 1; i >= 0; --i) {""")]})

# unpickling: the deque arm spells the None case out (seed h04 did this and read the other
# outcome from the wrong position; this is the behaviour-preserving half).  S1's "payload only from
# the state" first reported the `= py::none()` assignment.
N.append({'id': 'cxx-unpickle-deque-none-spelt-out', 'file': 'src/treespec/serialization.cpp', 'edits': [(
    """            case PyTreeKind::DefaultDict:
            case PyTreeKind::Deque:
            case PyTreeKind::Custom: {
                node.node_data = t[2];
                break;
            }""",
    """            case PyTreeKind::Deque: {
                if (t[2].is_none()) [[likely]] {
                    node.node_data = py::none();
                } else [[unlikely]] {
                    node.node_data = t[2];
                }
                break;
            }

            case PyTreeKind::DefaultDict:
            case PyTreeKind::Custom: {
                node.node_data = t[2];
                break;
            }""")]})

# the named-tuple class cache is filled through try_emplace and the iterator it hands back is
# dereferenced (always valid); another `it` of the same function comes from find() - I5 first
# matched the two by name (seed h09 contained this shape)
N.append({'id': 'cxx-type-cache-filled-through-try-emplace', 'file': 'include/optree/pytypes.h', 'edits': [(
    """    const bool result = EVALUATE_WITH_LOCK_HELD(IsNamedTupleClassImpl(type), type);
    {
        const scoped_write_lock_guard lock{mutex};
        if (cache.size() < MAX_TYPE_CACHE_SIZE) [[likely]] {
            cache.emplace(type, result);""",
    """    const bool result = EVALUATE_WITH_LOCK_HELD(IsNamedTupleClassImpl(type), type);
    {
        const scoped_write_lock_guard lock{mutex};
        if (cache.size() < MAX_TYPE_CACHE_SIZE) [[likely]] {
            const auto [it, inserted] = cache.try_emplace(type, result);
            if (!inserted) [[unlikely]] {
                return it->second;
            }""")]})

# what follows a guard that always leaves becomes its else branch: `if (c) {...; return x;} REST`
# -> `if (c) {...; return x;} else { REST }` (71 C++ guards, 103 Python guards; the rewritten tree
# passes the test suite).  The first run raised alarms in F6, D1, DC1, T6 (Python), N1, W2 (C++) and an
# analysis error in F2: rules that looked for a statement at the top level of a function body or
# directly after a guard.  Both front ends now show such an else branch as the statements that
# follow the guard (cxx_frontend.hoist_else_after_exit, py_frontend.hoist_else_after_exit).
N.append({'id': 'else-after-every-exiting-guard', 'generator': 'else-after-exit', 'file': None, 'edits': []})

# the mode block touches the engine only when the requested mode differs from the saved one (the
# behaviour-preserving half of seed i13, which added a second, wrong test to the restore).  D1
# first reported "can be left without restoring the mode".
N.append({'id': 'py-mode-block-skips-when-already-as-requested', 'file': 'optree/registry.py', 'edits': [(
    """    with __REGISTRY_LOCK:
        prev = _C.is_dict_insertion_ordered(namespace, inherit_global_namespace=False)
        _C.set_dict_insertion_ordered(bool(mode), namespace)

    try:
        yield
    finally:
        with __REGISTRY_LOCK:
            _C.set_dict_insertion_ordered(prev, namespace)""",
    """    mode = bool(mode)
    with __REGISTRY_LOCK:
        prev = _C.is_dict_insertion_ordered(namespace, inherit_global_namespace=False)
        if prev != mode:
            _C.set_dict_insertion_ordered(mode, namespace)

    try:
        yield
    finally:
        with __REGISTRY_LOCK:
            if prev != mode:
                _C.set_dict_insertion_ordered(prev, namespace)""")]})

# conditions written through their negations: `if (A && B)` -> `if (!(!(A) || !(B)))`, `x != y` ->
# `!(x == y)` (44 + 54 C++ conditions; 22 + 55 Python tests; the rewritten tree passes the test
# suite).  The first run raised alarms in fourteen checks (H1, H2, K7, K7py, K6py, P1, R2, W3, DC3
# ...: every extractor that reads a comparison).  Both front ends now push negations inward
# (negation normal form: cxx_frontend.normalise_negations, py_frontend.normalise_negations) and
# the validation text of the arm descriptors is rendered the same way.
N.append({'id': 'conditions-through-their-negations', 'generator': 'demorgan', 'file': None, 'edits': []})

# Python: every `_C.<fn>(a, b, c)` passes by keyword what the binding lets it pass by keyword
# (39 calls).  The first run raised alarms in D1, D4 and G3, which read the arguments of engine
# calls by position; they now bind them through the binding table (bridge.engine_call_args).
N.append({'id': 'py-engine-calls-by-keyword', 'generator': 'py-c-keywords', 'file': None, 'edits': []})

# C++: 148 block-scope locals lose their `const` (nothing assigns to them; the rewritten tree
# passes the test suite).  The first run raised an alarm in M8 (a snapshot of an output size had to
# be declared const); the IR's resolution of bool / kind locals had the same dependence.  Both now
# ask whether anything in the function writes the local (common.effectively_const).
N.append({'id': 'cxx-locals-lose-their-const', 'generator': 'drop-const', 'file': None, 'edits': []})

# two adjacent guards with the same exit and call-free conditions change places (2 C++ pairs in
# IsPrefix / EqualTo; no Python site qualifies).  Silent at the first run.
N.append({'id': 'independent-guards-swapped', 'generator': 'swap-guards', 'file': None, 'edits': []})

# unpickling: the registry lookup goes through a local lambda that takes the namespace (the
# behaviour-preserving half of seed j11, which called the lambda with "" first).
N.append({'id': 'cxx-unpickle-lookup-through-a-lambda', 'file': 'src/treespec/serialization.cpp', 'edits': [(
    """                if (none_is_leaf) [[unlikely]] {
                    node.custom =
                        PyTreeTypeRegistry::Lookup<NONE_IS_LEAF>(t[4], registry_namespace);
                } else [[likely]] {
                    node.custom =
                        PyTreeTypeRegistry::Lookup<NONE_IS_NODE>(t[4], registry_namespace);
                }""",
    """                const py::object cls = t[4];
                const auto lookup = [&cls, none_is_leaf](const std::string& ns) {
                    return none_is_leaf ? PyTreeTypeRegistry::Lookup<NONE_IS_LEAF>(cls, ns)
                                        : PyTreeTypeRegistry::Lookup<NONE_IS_NODE>(cls, ns);
                };
                node.custom = lookup(registry_namespace);""")]})
