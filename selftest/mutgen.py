"""Systematic mutation sampling: generic mutation operators applied to the library source, one
site at a time.  For every sampled mutant: (1) run all 20 static checks against a scratch copy;
(2) if no check reports it, build it and run the pinned test suite (stop at first failure).

The interesting class is "survives the test suite AND is not reported": each such mutant is either
equivalent (behaviour unchanged) or a violation of some property that neither the tests nor the
rules see - these are triaged by hand (selftest/mutgen_triage.md) and are where new rules come from.

usage: mutgen.py list [--seed N] [--n N]            write /tmp/mutgen/plan.json
       mutgen.py static [-j N]                       static verdict for every planned mutant
       mutgen.py tests  [-j N] [--limit N]           test-suite verdict for the unreported ones
       mutgen.py report                              summary table
State lives in /tmp/mutgen (scratch); the summary is copied to selftest/mutgen_last.json."""
import ast
import json
import os
import random
import re
import shutil
import subprocess
import sys
import time
from concurrent.futures import ThreadPoolExecutor

HERE = os.path.dirname(os.path.abspath(__file__))
VERIF = os.path.dirname(HERE)
sys.path.insert(0, HERE)
from run import run_check  # noqa: E402

REPO = '/repo'
BASE = os.environ.get('MUTGEN_BASE', '/tmp/mutgen')
PY_FILES = ['optree/ops.py', 'optree/registry.py', 'optree/accessor.py', 'optree/dataclasses.py',
            'optree/functools.py', 'optree/utils.py', 'optree/typing.py',
            'optree/integration/numpy.py', 'optree/integration/torch.py', 'optree/integration/jax.py']
CXX_FILES = ['src/registry.cpp', 'src/treespec/flatten.cpp', 'src/treespec/treespec.cpp',
             'src/treespec/traversal.cpp', 'src/treespec/unflatten.cpp', 'src/treespec/constructor.cpp',
             'src/treespec/richcomparison.cpp', 'src/treespec/hashing.cpp', 'src/treespec/serialization.cpp',
             'src/treespec/gc.cpp', 'include/optree/pytypes.h', 'include/optree/treespec.h']


# ---- Python operators (on the ast, written back with ast.unparse) ---------------------------------
def py_sites(text):
    """[(description, mutated source)]"""
    tree = ast.parse(text)
    sites = []
    nodes = list(ast.walk(tree))

    def emit(desc, mutate, undo):
        mutate()
        try:
            out = ast.unparse(tree) + '\n'
        finally:
            undo()
        sites.append((desc, out))
    in_doc = set()
    for n in nodes:
        if isinstance(n, (ast.FunctionDef, ast.ClassDef, ast.Module)) and n.body and \
                isinstance(n.body[0], ast.Expr) and isinstance(n.body[0].value, ast.Constant):
            in_doc.add(id(n.body[0]))
    for n in nodes:
        ln = getattr(n, 'lineno', 0)
        if isinstance(n, ast.If) and not isinstance(n.test, ast.Constant):
            old = n.test
            emit('L%d negate if-condition `%s`' % (ln, ast.unparse(old)[:60]),
                 lambda n=n, old=old: setattr(n, 'test', ast.UnaryOp(op=ast.Not(), operand=old)),
                 lambda n=n, old=old: setattr(n, 'test', old))
        if isinstance(n, ast.Compare) and len(n.ops) == 1:
            swap = {ast.Eq: ast.NotEq, ast.NotEq: ast.Eq, ast.Is: ast.IsNot, ast.IsNot: ast.Is,
                    ast.Lt: ast.LtE, ast.LtE: ast.Lt, ast.Gt: ast.GtE, ast.GtE: ast.Gt,
                    ast.In: ast.NotIn, ast.NotIn: ast.In}.get(type(n.ops[0]))
            if swap:
                old = n.ops[0]
                emit('L%d comparison `%s` -> %s' % (ln, ast.unparse(n)[:60], swap.__name__),
                     lambda n=n, swap=swap: n.ops.__setitem__(0, swap()),
                     lambda n=n, old=old: n.ops.__setitem__(0, old))
        if isinstance(n, ast.BoolOp):
            old = n.op
            new = ast.Or() if isinstance(old, ast.And) else ast.And()
            emit('L%d `%s`: and <-> or' % (ln, ast.unparse(n)[:60]),
                 lambda n=n, new=new: setattr(n, 'op', new), lambda n=n, old=old: setattr(n, 'op', old))
        if isinstance(n, ast.Call):
            if len(n.args) >= 2 and not any(isinstance(a, ast.Starred) for a in n.args[:2]):
                emit('L%d swap first two arguments of `%s`' % (ln, ast.unparse(n)[:60]),
                     lambda n=n: n.args.__setitem__(slice(0, 2), [n.args[1], n.args[0]]),
                     lambda n=n: n.args.__setitem__(slice(0, 2), [n.args[1], n.args[0]]))
            for i, k in enumerate(n.keywords):
                if k.arg is not None:
                    emit('L%d drop keyword %s= from `%s`' % (ln, k.arg, ast.unparse(n.func)[:40]),
                         lambda n=n, i=i: n.keywords.pop(i),
                         lambda n=n, i=i, k=k: n.keywords.insert(i, k))
        if isinstance(n, ast.Constant) and isinstance(n.value, bool):
            old = n.value
            emit('L%d constant %s -> %s' % (ln, old, not old),
                 lambda n=n, old=old: setattr(n, 'value', not old), lambda n=n, old=old: setattr(n, 'value', old))
        if isinstance(n, ast.Constant) and isinstance(n.value, int) and not isinstance(n.value, bool) \
                and n.value in (0, 1, 2, 3):
            old = n.value
            emit('L%d constant %d -> %d' % (ln, old, old + 1),
                 lambda n=n, old=old: setattr(n, 'value', old + 1), lambda n=n, old=old: setattr(n, 'value', old))
        for field in ('body', 'orelse', 'finalbody'):
            b = getattr(n, field, None)
            if isinstance(b, list) and len(b) > 1 and all(isinstance(x, ast.stmt) for x in b):
                for i, st in enumerate(b):
                    if id(st) in in_doc:
                        continue
                    if isinstance(st, (ast.Expr, ast.Assign, ast.AugAssign, ast.Raise)) or \
                            (isinstance(st, ast.If) and not st.orelse):
                        emit('L%d delete statement `%s`' % (getattr(st, 'lineno', 0), ast.unparse(st)[:60].replace('\n', ' ')),
                             lambda b=b, i=i: b.pop(i), lambda b=b, i=i, st=st: b.insert(i, st))
    return sites


# ---- C++ operators (token level, on the text of function bodies) -----------------------------------
CXX_OPS = [
    (r'(?<![=!<>])==(?!=)', '!=', '== -> !='), (r'!=(?!=)', '==', '!= -> =='),
    (r'(?<= )<(?= )', '<=', '< -> <='), (r'(?<= )<=(?= )', '<', '<= -> <'),
    (r'(?<= )>(?= )', '>=', '> -> >='), (r'(?<= )>=(?= )', '>', '>= -> >'),
    (r'&&', '||', '&& -> ||'), (r'\|\|', '&&', '|| -> &&'),
    (r'\bNONE_IS_NODE\b', 'NONE_IS_LEAF', 'NONE_IS_NODE -> NONE_IS_LEAF'),
    (r'\bNONE_IS_LEAF\b', 'NONE_IS_NODE', 'NONE_IS_LEAF -> NONE_IS_NODE'),
    (r'\btrue\b', 'false', 'true -> false'), (r'\bfalse\b', 'true', 'false -> true'),
    (r'\+ 1\b', '+ 0', '+ 1 -> + 0'), (r'- 1\b', '- 0', '- 1 -> - 0'),
    (r'(?<=\()!(?=\w)', '', 'drop !'),
]


def cxx_sites(text, HEADER=False):
    sites = []
    lines = text.split('\n')
    depth = 0
    in_block_comment = False
    for li, line in enumerate(lines):
        code = line
        stripped = code.strip()
        d0 = depth
        depth += code.count('{') - code.count('}')
        if stripped.startswith('//') or stripped.startswith('#') or stripped.startswith('*') or \
                stripped.startswith('/*') or not stripped:
            continue
        if d0 < (3 if HEADER else 2) or stripped.startswith(('[[nodiscard]]', 'friend ', 'inline ', 'template', 'explicit ', 'virtual ', '~')):
            continue       # outside any body (namespace braces count, good enough with the next test)
        if 'template <' in code or stripped.startswith('static_assert') or 'oss <<' in code or \
                '<<' in code or 'EXPECT_' in code or 'INTERNAL_ERROR' in code or '"' in code:
            continue       # messages / assertions / stream output: not behaviour
        cpos = code.find('//')
        body = code if cpos < 0 else code[:cpos]
        for rx, rep, name in CXX_OPS:
            for m in re.finditer(rx, body):
                new = body[:m.start()] + rep + body[m.end():] + (code[cpos:] if cpos >= 0 else '')
                out = '\n'.join(lines[:li] + [new] + lines[li + 1:])
                sites.append(('L%d %s in `%s`' % (li + 1, name, stripped[:70]), out))
        # delete a simple statement line
        if stripped.endswith(';') and not stripped.startswith(('return', 'const ', 'auto ', 'break', 'continue', 'throw', 'using', 'py::', 'ssize_t', 'bool ', 'static ', 'std::')) \
                and '=' not in stripped.split('(')[0] and stripped.count('(') == stripped.count(')') and \
                not lines[li - 1].rstrip().endswith((',', '(', '&&', '||', '=', '?', ':')):
            out = '\n'.join(lines[:li] + ['(void)0;'] + lines[li + 1:])
            sites.append(('L%d delete statement `%s`' % (li + 1, stripped[:70]), out))
    return sites


def plan(seed, n):
    rnd = random.Random(seed)
    allm = []
    for f in PY_FILES:
        for desc, out in py_sites(open(os.path.join(REPO, f)).read()):
            allm.append({'file': f, 'lang': 'py', 'desc': desc, 'text': out})
    for f in CXX_FILES:
        for desc, out in cxx_sites(open(os.path.join(REPO, f)).read(), f.endswith('.h')):
            allm.append({'file': f, 'lang': 'cxx', 'desc': desc, 'text': out})
    py = [m for m in allm if m['lang'] == 'py']
    cx = [m for m in allm if m['lang'] == 'cxx']
    rnd.shuffle(py)
    rnd.shuffle(cx)
    sel = py[:n // 2] + cx[:n - n // 2]
    os.makedirs(BASE, exist_ok=True)
    for i, m in enumerate(sel):
        m['id'] = 'g%04d' % i
        open(os.path.join(BASE, m['id'] + '.src'), 'w').write(m.pop('text'))
    json.dump({'seed': seed, 'population': {'py': len(py), 'cxx': len(cx)}, 'mutants': sel},
              open(os.path.join(BASE, 'plan.json'), 'w'), indent=1)
    print('population: %d python sites, %d c++ sites; sampled %d' % (len(py), len(cx), len(sel)))


def make_copy(m, with_tests):
    d = os.path.join(BASE, 'w-' + m['id'])
    shutil.rmtree(d, ignore_errors=True)
    os.makedirs(d)
    ex = ['--exclude', '.git', '--exclude', 'docs', '--exclude', '__pycache__']
    if not with_tests:
        ex += ['--exclude', 'tests', '--exclude', '*.so']
    subprocess.run(['rsync', '-a'] + ex + [REPO + '/', d + '/'], check=True)
    shutil.copy(os.path.join(BASE, m['id'] + '.src'), os.path.join(d, m['file']))
    return d


def static_one(m):
    d = make_copy(m, False)
    fired = {}
    errs = {}
    for i in range(1, 21):
        pr = 'C%02d' % i
        rc, out = run_check(d, pr, None, BASE)
        if rc == 1:
            fired[pr] = sorted({h[0] for h in re.findall(r'^  rule (\S+) at (\S+) \[(.*?)\]: ', out, re.M)})
        elif rc != 0:
            errs[pr] = ' | '.join(l for l in out.splitlines() if l.startswith('ANALYSIS-ERROR'))[:200]
    shutil.rmtree(d, ignore_errors=True)
    return {'id': m['id'], 'reported_by': fired, 'analysis_errors': errs}


def tests_one(m):
    d = make_copy(m, True)
    t0 = time.time()
    res = {'id': m['id']}
    try:
        if m['lang'] == 'cxx':
            r = subprocess.run([os.path.join(VERIF, 'tools', 'build_ext.sh'), d], capture_output=True, text=True)
            if r.returncode != 0:
                res['tests'] = 'does-not-compile'
                return res
        r = subprocess.run(['/venv/bin/python', '-m', 'pytest', '-q', '-p', 'no:cacheprovider', '--timeout=900', '-x',
                            '-o', 'addopts='], cwd=d, capture_output=True, text=True, timeout=3600)
        tail = (r.stdout.strip().splitlines() or [''])[-1]
        res['tests'] = 'survives' if r.returncode == 0 else 'killed'
        res['tail'] = tail[:160]
    except subprocess.TimeoutExpired:
        res['tests'] = 'killed'
        res['tail'] = 'timeout'
    finally:
        res['seconds'] = round(time.time() - t0)
        shutil.rmtree(d, ignore_errors=True)
    return res


def load():
    return json.load(open(os.path.join(BASE, 'plan.json')))


def save(p):
    json.dump(p, open(os.path.join(BASE, 'plan.json'), 'w'), indent=1)


def main():
    a = sys.argv[1:]
    cmd = a[0]

    def opt(name, default):
        return int(a[a.index(name) + 1]) if name in a else default
    if cmd == 'list':
        plan(opt('--seed', 1), opt('--n', 300))
    elif cmd == 'static':
        p = load()
        todo = [m for m in p['mutants'] if 'reported_by' not in m]
        with ThreadPoolExecutor(max_workers=opt('-j', 6)) as ex:
            for r in ex.map(static_one, todo):
                for m in p['mutants']:
                    if m['id'] == r['id']:
                        m.update(r)
                save(p)
        print('static verdicts: %d reported, %d silent, %d analysis-error-only'
              % (sum(bool(m.get('reported_by')) for m in p['mutants']),
                 sum(not m.get('reported_by') and not m.get('analysis_errors') for m in p['mutants']),
                 sum(not m.get('reported_by') and bool(m.get('analysis_errors')) for m in p['mutants'])))
    elif cmd == 'tests':
        p = load()
        todo = [m for m in p['mutants'] if 'reported_by' in m and 'tests' not in m and
                (not m['reported_by'] or '--all' in a)][:opt('--limit', 10 ** 6)]
        with ThreadPoolExecutor(max_workers=opt('-j', 6)) as ex:
            for r in ex.map(tests_one, todo):
                for m in p['mutants']:
                    if m['id'] == r['id']:
                        m.update(r)
                save(p)
        print('done')
    elif cmd == 'report':
        p = load()
        ms = p['mutants']
        rows = {}
        for m in ms:
            s = 'reported' if m.get('reported_by') else ('analysis-error' if m.get('analysis_errors') else 'silent')
            t = m.get('tests', 'not-run')
            rows[(m['lang'], s, t)] = rows.get((m['lang'], s, t), 0) + 1
        for k in sorted(rows):
            print('%-4s %-15s %-18s %d' % (k + (rows[k],)))
        json.dump(p, open(os.path.join(HERE, 'mutgen_last.json'), 'w'), indent=1)


if __name__ == '__main__':
    main()
