"""Generated neutral edit: the condition of an if-statement is given a name first,
    if (COND) ...        ->   if (const bool hc_N = (COND); hc_N) ...
wherever COND is free of calls other than a few const observers (empty / size / is_none), of
assignments and of declarations.  The C++17 init-statement form is used because it can be
written in place everywhere an `if` can stand (also in else-if chains); the IR treats it like a
`const bool` declared just before the test.  Behaviour is unchanged; a rule that fires reads a test
only where it is written inside the `if (...)`.

usage: hoist_conditions.py <repo copy>"""
import glob
import os
import re
import sys

from rename_cxx_locals import _scan
from invert_ifs import _match

CALL = re.compile(r'([A-Za-z_]\w*)\s*\(')
PURE = {'empty', 'size', 'is_none', 'length', 'defined', 'sizeof'}


def hoist(text):
    out = []
    pos = 0
    n = 0
    for m in re.finditer(r'\bif\s*\(', text):
        if m.start() < pos:
            continue
        line_start = text.rfind('\n', 0, m.start()) + 1
        if text[line_start:m.start()].lstrip().startswith(('#', '//', '*')):
            continue
        # inside a macro definition (continuation lines): leave alone
        prev_line_end = text.rfind('\n', 0, line_start - 1)
        if text[prev_line_end + 1:line_start].rstrip().endswith('\\'):
            continue
        # not inside a comment or string
        i = 0
        inside = False
        while i < m.start():
            j = _scan(text, i)
            if j != i:
                if j > m.start():
                    inside = True
                    break
                i = j
                continue
            i += 1
        if inside:
            continue
        po = m.end() - 1
        pc = _match(text, po, '(', ')')
        if pc < 0:
            continue
        cond = text[po + 1:pc - 1]
        if ';' in cond or 'constexpr' in text[m.start():po] or re.search(r'(?<![=!<>])=(?!=)', cond):
            continue
        if any(c not in PURE for c in CALL.findall(cond)) or '++' in cond or '--' in cond or '[' in cond:
            continue
        if text[m.start() - 10:m.start()].rstrip().endswith('constexpr'):
            continue
        out.append(text[pos:po + 1])
        out.append('const bool hc_%d = static_cast<bool>(%s); hc_%d' % (n, cond, n))
        pos = pc - 1
        n += 1
    out.append(text[pos:])
    return ''.join(out), n


def main(repo):
    tot = 0
    for pat in ('src/*.cpp', 'src/treespec/*.cpp', 'include/optree/*.h'):
        for p in glob.glob(os.path.join(repo, pat)):
            out, n = hoist(open(p).read())
            tot += n
            open(p, 'w').write(out)
    print('%d conditions named' % tot)


if __name__ == '__main__':
    main(os.path.abspath(sys.argv[1]))
