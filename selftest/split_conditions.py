"""Generated neutral edit: compound guards are written as separate tests.
C++    `if (A || B) { return X; }`  ->  `if (A) { return X; } if (B) { return X; }`
       (only when the body is a single return / throw / continue / break and there is no else)
       `if (A && B) { S }`          ->  `if (A) { if (B) { S } }`      (no else)
Python the same two rewrites on `ast.If` (`or` with a single exiting statement, `and` without else).
Behaviour is unchanged: `||` / `&&` evaluate left to right and stop early, exactly like the chain
of tests.  A rule that fires depends on how many `if` statements spell a guard.

usage: split_conditions.py <repo copy>       (rewrites in place, prints the counts)"""
import ast
import glob
import os
import re
import sys

from invert_ifs import _match, _skip_ws, ATTR
from rename_cxx_locals import _scan

EXIT_BODY = re.compile(r'^\{\s*(return|throw|continue|break)\b[^;{}]*;\s*\}$', re.S)


def _split_top(cond, op):
    """cond split at the top-level occurrences of `op` (|| or &&); None if a `?` is at top level"""
    parts, depth, i, last = [], 0, 0, 0
    while i < len(cond):
        j = _scan(cond, i)
        if j != i:
            i = j
            continue
        c = cond[i]
        if c in '([{':
            depth += 1
        elif c in ')]}':
            depth -= 1
        elif depth == 0 and c == '?':
            return None
        elif depth == 0 and cond.startswith(op, i):
            parts.append(cond[last:i])
            i += 2
            last = i
            continue
        i += 1
    parts.append(cond[last:])
    return [p.strip() for p in parts]


def cxx_split(text):
    out, pos, n_or, n_and = [], 0, 0, 0
    for m in re.finditer(r'\bif\s*\(', text):
        if m.start() < pos:
            continue
        before = text[:m.start()].rstrip()
        if before.endswith('else') or before.endswith('#'):
            continue
        line_start = text.rfind('\n', 0, m.start()) + 1
        if text[line_start:m.start()].lstrip().startswith(('#', '//', '*')):
            continue
        po = m.end() - 1
        pc = _match(text, po, '(', ')')
        if pc < 0:
            continue
        cond = text[po + 1:pc - 1]
        if ';' in cond or re.search(r'(?<![=!<>+\-*/|&^%])=(?!=)', cond):
            continue
        k = pc
        a1 = ATTR.match(text, k)
        attr = ''
        if a1:
            attr = ' ' + a1.group(1)
            k = a1.end()
        k = _skip_ws(text, k)
        if k >= len(text) or text[k] != '{':
            continue
        b1 = _match(text, k, '{', '}')
        if b1 < 0:
            continue
        body = text[k:b1]
        if '\\\n' in text[m.start():b1]:
            continue                      # inside a macro definition
        e = _skip_ws(text, b1)
        if text.startswith('else', e) and not (text[e + 4:e + 5].isalnum() or text[e + 4:e + 5] == '_'):
            continue
        ors = _split_top(cond, '||')
        if ors is None:
            continue
        if len(ors) > 1:
            if not EXIT_BODY.match(body.strip()):
                continue
            out.append(text[pos:m.start()])
            out.append(' '.join('if (%s)%s %s' % (p, attr, body) for p in ors))
            n_or += 1
            pos = b1
            continue
        ands = _split_top(cond, '&&')
        if ands is None or len(ands) < 2:
            continue
        inner, _, _ = cxx_split(body)
        s = 'if (%s)%s %s' % (ands[-1], attr, inner)
        for p in reversed(ands[:-1]):
            s = 'if (%s) { %s }' % (p, s)
        out.append(text[pos:m.start()])
        out.append(s)
        n_and += 1
        pos = b1
    out.append(text[pos:])
    return ''.join(out), n_or, n_and


class _PySplit(ast.NodeTransformer):
    def __init__(self):
        self.n_or = self.n_and = 0

    def visit_If(self, node):
        self.generic_visit(node)
        if node.orelse:
            return node
        t = node.test
        if isinstance(t, ast.BoolOp) and isinstance(t.op, ast.Or) and len(node.body) == 1 and \
                isinstance(node.body[0], (ast.Return, ast.Raise, ast.Continue, ast.Break)):
            self.n_or += 1
            return [ast.If(test=v, body=[node.body[0]], orelse=[]) for v in t.values]
        if isinstance(t, ast.BoolOp) and isinstance(t.op, ast.And):
            self.n_and += 1
            cur = ast.If(test=t.values[-1], body=node.body, orelse=[])
            for v in reversed(t.values[:-1]):
                cur = ast.If(test=v, body=[cur], orelse=[])
            return cur
        return node


def python_split(text):
    tree = ast.parse(text)
    tr = _PySplit()
    tree = tr.visit(tree)
    ast.fix_missing_locations(tree)
    return ast.unparse(tree) + '\n', tr.n_or, tr.n_and


def main(repo, lang='both'):
    c = [0, 0, 0, 0]
    if lang in ('both', 'py'):
        for p in glob.glob(os.path.join(repo, 'optree', '**', '*.py'), recursive=True):
            out, a, b = python_split(open(p).read())
            c[0] += a
            c[1] += b
            open(p, 'w').write(out)
    if lang in ('both', 'cxx'):
        for pat in ('src/*.cpp', 'src/treespec/*.cpp', 'include/optree/*.h'):
            for p in glob.glob(os.path.join(repo, pat)):
                out, a, b = cxx_split(open(p).read())
                c[2] += a
                c[3] += b
                open(p, 'w').write(out)
    print('python: %d or-guards, %d and-guards split; c++: %d or-guards, %d and-guards split' % tuple(c))


if __name__ == '__main__':
    main(os.path.abspath(sys.argv[1]), sys.argv[2] if len(sys.argv) > 2 else 'both')
