"""Mutant corpus: one small edit per rule instance.  Each mutant still compiles (the clang parse
is part of the analysis) and must make exactly the named rule fire on the named site; the
unmodified copy must be silent.  Edits are exact text replacements (asserted to match once).

(id, property to run, rule, substring of the violated site key, file, old, new)
"""

M = []


def m(mid, prop, rule, key, file, old, new, more=()):
    M.append({'id': mid, 'prop': prop, 'rule': rule, 'key': key, 'file': file, 'old': old, 'new': new,
              'more': list(more)})


# ---- traversal -------------------------------------------------------------------------------
m('K1-deque-arm-deleted', 'C03', 'K1', 'PyTreeIter::NextImpl#switch0/exhaustive', 'src/treespec/traversal.cpp',
  """            case PyTreeKind::Deque: {
                const auto list = thread_safe_cast<py::list>(object);
                const ssize_t arity = ListGetSize(list);
                for (ssize_t i = arity - 1; i >= 0; --i) {
                    m_agenda.emplace_back(ListGetItem(list, i), depth);
                }
                break;
            }
""", "")
m('K2-pickle-variant-swapped', 'C11', 'K2', 'FromPickleable=>Lookup', 'src/treespec/serialization.cpp',
  """                if (none_is_leaf) [[unlikely]] {
                    node.custom =
                        PyTreeTypeRegistry::Lookup<NONE_IS_LEAF>(t[4], registry_namespace);
                } else [[likely]] {
                    node.custom =
                        PyTreeTypeRegistry::Lookup<NONE_IS_NODE>(t[4], registry_namespace);
                }""",
  """                if (none_is_leaf) [[unlikely]] {
                    node.custom =
                        PyTreeTypeRegistry::Lookup<NONE_IS_NODE>(t[4], registry_namespace);
                } else [[likely]] {
                    node.custom =
                        PyTreeTypeRegistry::Lookup<NONE_IS_LEAF>(t[4], registry_namespace);
                }""")
m('K2-withpath-sorted-in-insertion-mode', 'C13', 'K2', 'FlattenIntoWithPath=>FlattenIntoWithPathImpl/DictShouldBeSorted',
  'src/treespec/flatten.cpp',
  """            found_custom = FlattenIntoWithPathImpl<NONE_IS_NODE, /*DictShouldBeSorted=*/false>(""",
  """            found_custom = FlattenIntoWithPathImpl<NONE_IS_NODE, /*DictShouldBeSorted=*/true>(""")
m('K2-getkind-hardcoded', 'C02', 'K2', 'FlattenIntoImpl->PyTreeTypeRegistry::GetKind/NoneIsLeaf', 'src/treespec/flatten.cpp',
  """        node.kind =
            PyTreeTypeRegistry::GetKind<NoneIsLeaf>(handle, node.custom, registry_namespace);
        const auto recurse =""",
  """        node.kind =
            PyTreeTypeRegistry::GetKind<NONE_IS_NODE>(handle, node.custom, registry_namespace);
        const auto recurse =""")
m('K3-iter-sorts-defaultdict-always', 'C03', 'K3', 'FlattenIntoImpl~NextImpl/DefaultDict', 'src/treespec/traversal.cpp',
  """                if (kind != PyTreeKind::OrderedDict && !m_is_dict_insertion_ordered) [[likely]] {
                    TotalOrderSort(keys);
                }""",
  """                if (kind == PyTreeKind::DefaultDict ||
                    (kind != PyTreeKind::OrderedDict && !m_is_dict_insertion_ordered)) [[likely]] {
                    TotalOrderSort(keys);
                }""")
m('K3-constructor-deque-from-itself', 'C03', 'K3', 'MakeFromCollectionImpl/Deque', 'src/treespec/constructor.cpp',
  """            for (ssize_t i = 0; i < node.arity; ++i) {
                children.emplace_back(ListGetItem(list, i));
            }
            verify_children(children, treespecs);
            break;
        }

        case PyTreeKind::Custom: {""",
  """            for (const py::handle& child : thread_safe_cast<py::iterable>(handle)) {
                children.emplace_back(py::reinterpret_borrow<py::object>(child));
            }
            verify_children(children, treespecs);
            break;
        }

        case PyTreeKind::Custom: {""")
m('K4-iter-structseq-ascending', 'C02', 'K4', 'PyTreeIter::NextImpl/StructSequence', 'src/treespec/traversal.cpp',
  """                const auto tuple = py::reinterpret_borrow<py::tuple>(object);
                const ssize_t arity = TupleGetSize(tuple);
                for (ssize_t i = arity - 1; i >= 0; --i) {
                    m_agenda.emplace_back(TupleGetItem(tuple, i), depth);
                }""",
  """                const auto tuple = py::reinterpret_borrow<py::tuple>(object);
                const ssize_t arity = TupleGetSize(tuple);
                for (ssize_t i = 0; i < arity; ++i) {
                    m_agenda.emplace_back(TupleGetItem(tuple, i), depth);
                }""")
m('K4-paths-no-final-reverse', 'C04', 'K4', 'PyTreeSpec::Paths/final-reverse', 'src/treespec/treespec.cpp',
  """    std::reverse(paths.begin(), paths.end());
""", "")
m('K5-isleaf-registry-first', 'C02', 'K5', 'IsLeafImpl/predicate-first', 'src/treespec/flatten.cpp',
  """    if (leaf_predicate &&
        EVALUATE_WITH_LOCK_HELD2(thread_safe_cast<bool>((*leaf_predicate)(handle)),
                                 handle,
                                 *leaf_predicate)) [[unlikely]] {
        return true;
    }
    PyTreeTypeRegistry::RegistrationPtr custom{nullptr};
    return PyTreeTypeRegistry::GetKind<NoneIsLeaf>(handle, custom, registry_namespace) ==
           PyTreeKind::Leaf;""",
  """    PyTreeTypeRegistry::RegistrationPtr custom{nullptr};
    if (PyTreeTypeRegistry::GetKind<NoneIsLeaf>(handle, custom, registry_namespace) ==
        PyTreeKind::Leaf) {
        return true;
    }
    return leaf_predicate &&
           EVALUATE_WITH_LOCK_HELD2(thread_safe_cast<bool>((*leaf_predicate)(handle)),
                                    handle,
                                    *leaf_predicate);""")
m('K6-lookup-global-first', 'C02', 'K6', 'Lookup/named-first', 'src/registry.cpp',
  """    if (!registry_namespace.empty()) [[unlikely]] {
        const auto named_it =
            registry->m_named_registrations.find(std::make_pair(registry_namespace, cls));
        if (named_it != registry->m_named_registrations.end()) [[likely]] {
            return named_it->second;
        }
    }
    const auto it = registry->m_registrations.find(cls);
    return it != registry->m_registrations.end() ? it->second : nullptr;""",
  """    const auto it = registry->m_registrations.find(cls);
    if (it != registry->m_registrations.end()) {
        return it->second;
    }
    if (!registry_namespace.empty()) [[unlikely]] {
        const auto named_it =
            registry->m_named_registrations.find(std::make_pair(registry_namespace, cls));
        if (named_it != registry->m_named_registrations.end()) [[likely]] {
            return named_it->second;
        }
    }
    return nullptr;""")
m('K6py-namedtuple-before-structseq', 'C18', 'K6py', 'registry_get/structseq-before-namedtuple', 'optree/registry.py',
  """    if is_structseq_class(cls):
        return _NODETYPE_REGISTRY.get(structseq)
    if is_namedtuple_class(cls):
        return _NODETYPE_REGISTRY.get(namedtuple)  # type: ignore[call-overload] # noqa: PYI024
    return None""",
  """    if is_namedtuple_class(cls):
        return _NODETYPE_REGISTRY.get(namedtuple)  # type: ignore[call-overload] # noqa: PYI024
    if is_structseq_class(cls):
        return _NODETYPE_REGISTRY.get(structseq)
    return None""")
m('K7-iter-no-entries-check', 'C03', 'K7', 'PyTreeIter::NextImpl/Custom/entries-count', 'src/treespec/traversal.cpp',
  """                        if (num_entries != arity) [[unlikely]] {""",
  """                        if (false && num_entries != arity) [[unlikely]] {""")
m('K7py-no-length-check', 'C18', 'K7py', 'tree_flatten_one_level/length', 'optree/ops.py',
  """    elif len(flattened) != 3:
        raise RuntimeError(
            f'PyTree custom flatten function for type {node_type} should return a 2- or 3-tuple, '
            f'got {len(flattened)}.',
        )
""", "")
m('K8-iter-depth-ge', 'C03', 'K8', 'PyTreeIter::NextImpl/depth-check', 'src/treespec/traversal.cpp',
  """        if (depth > MAX_RECURSION_DEPTH) [[unlikely]] {""",
  """        if (depth >= MAX_RECURSION_DEPTH) [[unlikely]] {""")
m('K9-paths-depth-check-removed', 'C16', 'K9', 'PyTreeSpec::PathsImpl/bounded', 'src/treespec/treespec.cpp',
  """    if (depth > MAX_RECURSION_DEPTH) [[unlikely]] {
        PyErr_SetString(PyExc_RecursionError,
                        "Maximum recursion depth exceeded during computing the paths.");
        throw py::error_already_set();
    }
""", "")
# ---- payload ---------------------------------------------------------------------------------
m('M1-withpath-defaultdict-swapped', 'C01', 'M1', 'FlattenIntoWithPathImpl/DefaultDict/node_data', 'src/treespec/flatten.cpp',
  """                    node.node_data = py::make_tuple(py::getattr(handle, Py_Get_ID(default_factory)),
                                                    std::move(keys));
                } else [[likely]] {
                    node.node_data = std::move(keys);
                }
                break;
            }

            case PyTreeKind::NamedTuple:
            case PyTreeKind::StructSequence: {
                const auto tuple = py::reinterpret_borrow<py::tuple>(handle);
                node.arity = TupleGetSize(tuple);
                node.node_data = py::type::of(tuple);
                for (ssize_t i = 0; i < node.arity; ++i) {
                    recurse(TupleGetItem(tuple, i), py::int_(i));""",
  """                    node.node_data = py::make_tuple(std::move(keys),
                                                    py::getattr(handle, Py_Get_ID(default_factory)));
                } else [[likely]] {
                    node.node_data = std::move(keys);
                }
                break;
            }

            case PyTreeKind::NamedTuple:
            case PyTreeKind::StructSequence: {
                const auto tuple = py::reinterpret_borrow<py::tuple>(handle);
                node.arity = TupleGetSize(tuple);
                node.node_data = py::type::of(tuple);
                for (ssize_t i = 0; i < node.arity; ++i) {
                    recurse(TupleGetItem(tuple, i), py::int_(i));""")
m('M2-deque-maxlen-dropped', 'C01', 'M2', 'MakeNode/Deque', 'src/treespec/treespec.cpp',
  """                return PyDequeTypeObject(std::move(list), py::arg("maxlen") = node.node_data);""",
  """                return PyDequeTypeObject(std::move(list));""")
m('M3-copy-after-sort', 'C01', 'M3', 'FlattenIntoImpl/Dict/copy-before-sort', 'src/treespec/flatten.cpp',
  """                        node.original_keys = py::getattr(keys, Py_Get_ID(copy))();
                        if constexpr (DictShouldBeSorted) {
                            TotalOrderSort(keys);
                        }
                    }
                    for (const py::handle& key : keys) {
                        recurse(DictGetItem(dict, key));""",
  """                        if constexpr (DictShouldBeSorted) {
                            TotalOrderSort(keys);
                        }
                        node.original_keys = py::getattr(keys, Py_Get_ID(copy))();
                    }
                    for (const py::handle& key : keys) {
                        recurse(DictGetItem(dict, key));""")
m('M3-preseed-removed', 'C01', 'M3', 'MakeNode/Dict/preseed', 'src/treespec/treespec.cpp',
  """            if (node.original_keys) [[unlikely]] {
                for (ssize_t i = 0; i < node.arity; ++i) {
                    DictSetItem(dict, ListGetItem(node.original_keys, i), py::none());
                }
            }
""", "")
m('M4-original-keys-dropped', 'C09', 'M4', 'BroadcastToCommonSuffixImpl/Node{}<-root/original_keys', 'src/treespec/treespec.cpp',
  """        .num_nodes = 1,
        .original_keys = root.original_keys,
    };""",
  """        .num_nodes = 1,
    };""")
m('M5-child-namespace-dropped', 'C08', 'M5', 'PyTreeSpec::Child/spec0/m_namespace', 'src/treespec/treespec.cpp',
  """    child->m_none_is_leaf = m_none_is_leaf;
    child->m_namespace = m_namespace;""",
  """    child->m_none_is_leaf = m_none_is_leaf;""")
m('M6-child-slice-off', 'C08', 'M6', 'Children~Child/update', 'src/treespec/treespec.cpp',
  """        EXPECT_GE(pos, node.num_nodes, "PyTreeSpec::Child() walked off start of array.");
        pos -= node.num_nodes;
    }""",
  """        EXPECT_GE(pos, node.num_nodes, "PyTreeSpec::Child() walked off start of array.");
        pos -= node.num_nodes - 1;
    }""")
m('M7-dictkeys-unconditional', 'C01', 'M7', 'FlattenIntoImpl/OrderedDict', 'include/optree/pytypes.h',
  """    if (py::type::handle_of(dict).is(PyOrderedDictTypeObject)) [[unlikely]] {
        // NOTE: `PyDict_Keys()` returns the keys in the order of the underlying dict storage,
        // which ignores the order maintained by `OrderedDict` itself (e.g. `move_to_end()`).
        return py::list{py::reinterpret_borrow<py::object>(dict)};
    }
""", "")
# ---- equality --------------------------------------------------------------------------------
m('H1-hash-original-keys', 'C06', 'H1', 'HashValueImpl/original_keys', 'src/treespec/hashing.cpp',
  """        HashCombine(seed, node.num_nodes);
""",
  """        HashCombine(seed, node.num_nodes);
        if (node.original_keys) {
            HashCombine(seed, EVALUATE_WITH_LOCK_HELD(py::hash(py::tuple{node.original_keys}), node.original_keys));
        }
""")
m('H1-hash-namespace-again', 'C06', 'H1', 'HashValueImpl/m_namespace', 'src/treespec/hashing.cpp',
  """    HashCombine(seed, m_none_is_leaf);
""",
  """    HashCombine(seed, m_none_is_leaf);
    HashCombine(seed, m_namespace);
""")
m('H2-eq-arity-dropped', 'C06', 'H2', 'EqualTo/node arity', 'src/treespec/richcomparison.cpp',
  """        if (a->kind != b->kind || a->arity != b->arity ||
            static_cast<bool>(a->node_data) != static_cast<bool>(b->node_data) ||
            a->custom != b->custom) [[likely]] {
            return false;
        }
        const scoped_critical_section2 cs(a->node_data, b->node_data);
        if (a->node_data && a->node_data.not_equal(b->node_data)) [[likely]] {""",
  """        if (a->kind != b->kind ||
            static_cast<bool>(a->node_data) != static_cast<bool>(b->node_data) ||
            a->custom != b->custom) [[likely]] {
            return false;
        }
        const scoped_critical_section2 cs(a->node_data, b->node_data);
        if (a->node_data && a->node_data.not_equal(b->node_data)) [[likely]] {""")
m('H3-gt-bound-to-ge', 'C06', 'H3', 'binding/__gt__', 'src/optree.cpp',
  """             std::greater<PyTreeSpec>(),""", """             std::greater_equal<PyTreeSpec>(),""")
m('H3-le-strict', 'C07', 'H3', 'PyTreeSpec::operator<=', 'include/optree/treespec.h',
  """    inline Py_ALWAYS_INLINE bool operator<=(const PyTreeSpec &other) const {
        return IsPrefix(other, /*strict=*/false);""",
  """    inline Py_ALWAYS_INLINE bool operator<=(const PyTreeSpec &other) const {
        return IsPrefix(other, /*strict=*/true);""")
# ---- prefix ----------------------------------------------------------------------------------
m('P1-isprefix-compares-maxlen', 'C07', 'P1', 'IsPrefix/Deque', 'src/treespec/richcomparison.cpp',
  """            case PyTreeKind::None:
            case PyTreeKind::Tuple:
            case PyTreeKind::List:
            case PyTreeKind::Deque: {
                if (a->kind != b->kind) [[likely]] {
                    return false;
                }
                break;
            }""",
  """            case PyTreeKind::None:
            case PyTreeKind::Tuple:
            case PyTreeKind::List: {
                if (a->kind != b->kind) [[likely]] {
                    return false;
                }
                break;
            }

            case PyTreeKind::Deque: {
                if (a->kind != b->kind || a->node_data.not_equal(b->node_data)) [[likely]] {
                    return false;
                }
                break;
            }""")
m('P1py-both-deque-dropped', 'C07', 'P1', 'prefix_errors/metadata', 'optree/ops.py',
  """            and (not both_deque)  # ignore maxlen mismatch for deque
""", "")
m('P1-broadcast-type-identity-again', 'C09', 'P1', 'BroadcastToCommonSuffixImpl/Custom', 'src/treespec/treespec.cpp',
  """            if (root.custom != other_root.custom) [[unlikely]] {""",
  """            if (!root.custom->type.is(other_root.custom->type)) [[unlikely]] {""")
m('P2-flattenupto-typeerror', 'C07', 'P2cxx', 'FlattenUpTo/Tuple', 'src/treespec/flatten.cpp',
  """                    oss << "tuple arity mismatch; expected: " << node.arity
                        << ", got: " << TupleGetSize(tuple) << "; tuple: " << PyRepr(object) << ".";
                    throw py::value_error(oss.str());""",
  """                    oss << "tuple arity mismatch; expected: " << node.arity
                        << ", got: " << TupleGetSize(tuple) << "; tuple: " << PyRepr(object) << ".";
                    throw py::type_error(oss.str());""")
m('P2py-sorted-again', 'C07', 'P2py', 'prefix_errors/builtin-order', 'optree/ops.py',
  """                missing_keys = total_order_sorted(
                    prefix_tree_keys_set.difference(full_tree_keys_set),
                )""",
  """                missing_keys = sorted(prefix_tree_keys_set.difference(full_tree_keys_set))""")
m('W1-original-source-again', 'C07', 'W1', 'IsPrefix/original_b', 'src/treespec/richcomparison.cpp',
  """                    const std::vector<Node> subtree(b, b + b->num_nodes);
                    const auto original_b = subtree.cbegin();""",
  """                    auto original_b = other.m_traversal.crbegin() + (b - other_traversal.crbegin());""")
# ---- pickling --------------------------------------------------------------------------------
m('S1-entries-from-wrong-slot', 'C11', 'S1', 'FromPickleable/t[3]->node_entries', 'src/treespec/serialization.cpp',
  """            if (!t[3].is_none()) [[unlikely]] {
                node.node_entries = thread_safe_cast<py::tuple>(t[3]);
            }""",
  """            if (!t[3].is_none()) [[unlikely]] {
                node.node_entries = thread_safe_cast<py::tuple>(t[2]);
            }""")
m('S1-original-keys-not-pickled', 'C11', 'S1', 'ToPickleable/has-original_keys', 'src/treespec/serialization.cpp',
  """                                    py::int_(node.num_nodes),
                                    node.original_keys ? node.original_keys : py::none()));""",
  """                                    py::int_(node.num_nodes),
                                    py::none()));""")
m('S2-lookup-global-namespace', 'C11', 'S2', 'FromPickleable/Lookup', 'src/treespec/serialization.cpp',
  """                    node.custom =
                        PyTreeTypeRegistry::Lookup<NONE_IS_NODE>(t[4], registry_namespace);""",
  """                    node.custom = PyTreeTypeRegistry::Lookup<NONE_IS_NODE>(t[4], "");""")
# ---- registry --------------------------------------------------------------------------------
m('G1-builtin-check-after-emplace', 'C12', 'G1', 'UnregisterImpl/builtin-check-first', 'src/registry.cpp',
  """    if (sm_builtins_types.find(cls) != sm_builtins_types.end()) [[unlikely]] {
        throw py::value_error("PyTree type " + PyRepr(cls) +
                              " is a built-in type and cannot be unregistered.");
    }

    PyTreeTypeRegistry* const registry = Singleton<NoneIsLeaf>();
    if (registry_namespace.empty()) [[unlikely]] {""",
  """    PyTreeTypeRegistry* const registry = Singleton<NoneIsLeaf>();
    if (!registry_namespace.empty() &&
        sm_builtins_types.find(cls) != sm_builtins_types.end()) [[unlikely]] {
        throw py::value_error("PyTree type " + PyRepr(cls) +
                              " is a built-in type and cannot be unregistered.");
    }
    if (registry_namespace.empty()) [[unlikely]] {""")
m('G2-constructor-reverse-unchecked', 'C12', 'G2', 'NextImpl/PyList_Reverse', 'src/treespec/traversal.cpp',
  """                if (PyList_Reverse(keys.ptr()) < 0) [[unlikely]] {
                    throw py::error_already_set();
                }""",
  """                PyList_Reverse(keys.ptr());""")
m('G3-mirror-before-engine', 'C12', 'G3', 'register_pytree_node/store/after-engine', 'optree/registry.py',
  """    with __REGISTRY_LOCK:
        _C.register_node(
            cls,
            flatten_func,
            unflatten_func,
            path_entry_type,
            namespace,
        )
        _NODETYPE_REGISTRY[registration_key] = PyTreeNodeRegistryEntry(
            cls,
            flatten_func,
            unflatten_func,
            path_entry_type=path_entry_type,
            namespace=namespace,
        )""",
  """    with __REGISTRY_LOCK:
        _NODETYPE_REGISTRY[registration_key] = PyTreeNodeRegistryEntry(
            cls,
            flatten_func,
            unflatten_func,
            path_entry_type=path_entry_type,
            namespace=namespace,
        )
        _C.register_node(
            cls,
            flatten_func,
            unflatten_func,
            path_entry_type,
            namespace,
        )""")
m('G3-pop-outside-lock', 'C12', 'G3', 'unregister_pytree_node/pop/locked', 'optree/registry.py',
  """    with __REGISTRY_LOCK:
        _C.unregister_node(cls, namespace)
        return _NODETYPE_REGISTRY.pop(registration_key)""",
  """    with __REGISTRY_LOCK:
        _C.unregister_node(cls, namespace)
    return _NODETYPE_REGISTRY.pop(registration_key)""")
m('G4-make-dataclass-empty-namespace', 'C19', 'G4', 'make_dataclass/namespace-empty', 'optree/dataclasses.py',
  """        raise TypeError(f'The namespace must be a string, got {namespace!r}.')
    if namespace == '':
        raise ValueError('The namespace cannot be an empty string.')

    dataclass_kwargs = {""",
  """        raise TypeError(f'The namespace must be a string, got {namespace!r}.')

    dataclass_kwargs = {""")
m('G5-unregister-leaks-flatten-func', 'C12', 'G5', 'Unregister/dec_ref', 'src/registry.cpp',
  """    registration1->type.dec_ref();
    registration1->flatten_func.dec_ref();""",
  """    registration1->type.dec_ref();""")
# ---- dict order mode -------------------------------------------------------------------------
m('D1-finally-to-except', 'C13', 'D1', 'dict_insertion_ordered/restore-on-every-path', 'optree/registry.py',
  """    try:
        yield
    finally:
        with __REGISTRY_LOCK:
            _C.set_dict_insertion_ordered(prev, namespace)""",
  """    try:
        yield
    except Exception:
        with __REGISTRY_LOCK:
            _C.set_dict_insertion_ordered(prev, namespace)
        raise""")
m('D1-prev-with-inheritance', 'C13', 'D1', 'dict_insertion_ordered/reads-own-flag', 'optree/registry.py',
  """        prev = _C.is_dict_insertion_ordered(namespace, inherit_global_namespace=False)""",
  """        prev = _C.is_dict_insertion_ordered(namespace)""")
m('D1-restore-negated-mode', 'C13', 'D1', 'dict_insertion_ordered/restores-saved', 'optree/registry.py',
  """            _C.set_dict_insertion_ordered(prev, namespace)""",
  """            _C.set_dict_insertion_ordered(not mode, namespace)""")
m('D2-constructor-no-inheritance', 'C13', 'D2', 'MakeFromCollectionImpl/key-sort/mode', 'src/treespec/constructor.cpp',
  """                    if (!IsDictInsertionOrdered(registry_namespace)) [[likely]] {""",
  """                    if (!IsDictInsertionOrdered(registry_namespace, false)) [[likely]] {""")
m('D3-query-or', 'C13', 'D3', 'IsDictInsertionOrdered/shape', 'include/optree/treespec.h',
  """               (inherit_global_namespace &&
                sm_is_dict_insertion_ordered.find("") != sm_is_dict_insertion_ordered.end());""",
  """               (inherit_global_namespace ||
                sm_is_dict_insertion_ordered.find("") != sm_is_dict_insertion_ordered.end());""")
# ---- aliasing / safety -----------------------------------------------------------------------
m('A1-entries-borrow', 'C14', 'A1', 'PyTreeSpec::Entries/return', 'src/treespec/treespec.cpp',
  """        case PyTreeKind::Dict:
        case PyTreeKind::OrderedDict: {
            const scoped_critical_section cs{root.node_data};
            return py::getattr(root.node_data, Py_Get_ID(copy))();
        }""",
  """        case PyTreeKind::Dict:
        case PyTreeKind::OrderedDict: {
            const scoped_critical_section cs{root.node_data};
            return py::reinterpret_borrow<py::list>(root.node_data);
        }""")
m('A3-traverse-skips-original-keys', 'C14', 'A3', 'PyTreeSpec::PyTpTraverse/original_keys', 'src/treespec/gc.cpp',
  """        Py_VISIT(node.original_keys.ptr());
""", "")
m('A3-registration-handle', 'C14', 'A3', 'Registration/type/owning', 'include/optree/registry.h',
  """        py::object type{};
        // A function with signature: object -> (iterable, metadata, entries)""",
  """        py::handle type{};
        // A function with signature: object -> (iterable, metadata, entries)""")
m('A5-flattenupto-sorts-spec-keys', 'C14', 'A5', 'PyTreeSpec::FlattenUpTo/TotalOrderSort', 'src/treespec/flatten.cpp',
  """                if (!DictKeysEqual(expected_keys, dict)) [[unlikely]] {
                    const py::list keys = SortedDictKeys(dict);""",
  """                if (!DictKeysEqual(expected_keys, dict)) [[unlikely]] {
                    py::list sorted_expected = expected_keys;
                    TotalOrderSort(sorted_expected);
                    const py::list keys = SortedDictKeys(dict);""")
m('E1-hash-catch-without-erase', 'C15', 'E1', 'PyTreeSpec::HashValue/guard-cleanup', 'src/treespec/hashing.cpp',
  """    } catch (...) {
        {
            const scoped_write_lock_guard lock{mutex};
            running.erase(ident);
        }
        std::rethrow_exception(std::current_exception());
    }""",
  """    } catch (...) {
        std::rethrow_exception(std::current_exception());
    }""")
m('E3-tuplesetitem-no-incref', 'C15', 'E3', 'TupleSetItem/PyTuple_SET_ITEM', 'include/optree/pytypes.h',
  """    PyTuple_SET_ITEM(tuple.ptr(), index, value.inc_ref().ptr());""",
  """    PyTuple_SET_ITEM(tuple.ptr(), index, value.ptr());""")
m('E5-sort-swallows-everything', 'C15', 'E5', 'TotalOrderSort/catch#1', 'include/optree/pytypes.h',
  """            } catch (py::error_already_set& ex2) {
                if (ex2.matches(PyExc_TypeError)) [[likely]] {""",
  """            } catch (py::error_already_set& ex2) {
                if (true || ex2.matches(PyExc_TypeError)) [[likely]] {""")
m('E6-new-throw-type', 'C15', 'E6', 'PyTreeSpec::Entry/throw/out_of_range', 'src/treespec/treespec.cpp',
  """        throw py::index_error("PyTreeSpec::Entry() index out of range.");""",
  """        throw std::out_of_range("PyTreeSpec::Entry() index out of range.");""")
m('I1-unchecked-list-again', 'C16', 'I1', 'FlattenIntoImpl/ListGetItem(USER)', 'include/optree/pytypes.h',
  """    PyObject* const item = PyList_GetItem(list.ptr(), index);
    if (item == nullptr) [[unlikely]] {
        throw py::error_already_set();
    }
    return py::reinterpret_borrow<T>(item);
#endif""",
  """    return py::reinterpret_borrow<T>(PyList_GET_ITEM(list.ptr(), index));
#endif""")
m('I2-getitem-unchecked-again', 'C16', 'I2', 'DictGetItemAs/PyDict_GetItem', 'include/optree/pytypes.h',
  """    PyObject* const value = PyDict_GetItemWithError(dict.ptr(), key.ptr());
    if (value == nullptr) [[unlikely]] {
        if (PyErr_Occurred() == nullptr) [[likely]] {
            py::set_error(PyExc_KeyError, py::make_tuple(key));
        }
        throw py::error_already_set();
    }
    return py::reinterpret_borrow<T>(value);
#endif""",
  """    return py::reinterpret_borrow<T>(PyDict_GetItem(dict.ptr(), key.ptr()));
#endif""")
m('I3-entry-range-test-dropped', 'C08', 'I3', 'PyTreeSpec::Entry/index-guard', 'src/treespec/treespec.cpp',
  """    if (index < -root.arity || index >= root.arity) [[unlikely]] {
        throw py::index_error("PyTreeSpec::Entry() index out of range.");
    }
""", "")
# ---- locks -----------------------------------------------------------------------------------
m('L1-lookup-repr-under-lock', 'C17', 'L1', 'PyTreeTypeRegistry::Lookup/sm_mutex/PyRepr', 'src/registry.cpp',
  """    PyTreeTypeRegistry* const registry = Singleton<NoneIsLeaf>();
    if (!registry_namespace.empty()) [[unlikely]] {
        const auto named_it =""",
  """    PyTreeTypeRegistry* const registry = Singleton<NoneIsLeaf>();
    if (registry_namespace.size() > 4096) [[unlikely]] {
        throw py::value_error("namespace too long for type " + PyRepr(cls));
    }
    if (!registry_namespace.empty()) [[unlikely]] {
        const auto named_it =""")
m('L3-cache-read-unlocked', 'C17', 'L3', 'IsStructSequenceClass/cache/read', 'include/optree/pytypes.h',
  """    static auto cache = std::unordered_map<py::handle, bool>{};
    static read_write_mutex mutex{};

    {
        const scoped_read_lock_guard lock{mutex};
        const auto it = cache.find(type);
        if (it != cache.end()) [[likely]] {
            return it->second;
        }
    }

    const bool result = EVALUATE_WITH_LOCK_HELD(IsStructSequenceClassImpl(type), type);""",
  """    static auto cache = std::unordered_map<py::handle, bool>{};
    static read_write_mutex mutex{};

    {
        const auto it = cache.find(type);
        if (it != cache.end()) [[likely]] {
            return it->second;
        }
    }

    const bool result = EVALUATE_WITH_LOCK_HELD(IsStructSequenceClassImpl(type), type);""")
m('L5-agenda-reference', 'C17', 'L5', 'PyTreeIter::NextImpl/agenda-local', 'src/treespec/traversal.cpp',
  """        auto [object, depth] = m_agenda.back();
        m_agenda.pop_back();
""",
  """        auto [object, depth] = m_agenda.back();
""",
  more=[("""        PyTreeTypeRegistry::RegistrationPtr custom{nullptr};
        const PyTreeKind kind =
            PyTreeTypeRegistry::GetKind<NoneIsLeaf>(object, custom, m_namespace);
""", """        m_agenda.pop_back();
        PyTreeTypeRegistry::RegistrationPtr custom{nullptr};
        const PyTreeKind kind =
            PyTreeTypeRegistry::GetKind<NoneIsLeaf>(object, custom, m_namespace);
""")])
m('T3-namedtuple-cache-no-weakref', 'C18', 'T3', 'IsNamedTupleClass/cache/evicted', 'include/optree/pytypes.h',
  """            cache.emplace(type, result);
            (void)py::weakref(type, py::cpp_function([type](py::handle weakref) -> void {
                                  const scoped_write_lock_guard lock{mutex};
                                  cache.erase(type);
                                  weakref.dec_ref();
                              }))
                .release();
        }
    }
    return result;
}
inline Py_ALWAYS_INLINE bool IsNamedTupleInstance""",
  """            cache.emplace(type, result);
        }
    }
    return result;
}
inline Py_ALWAYS_INLINE bool IsNamedTupleInstance""")
# ---- twins -----------------------------------------------------------------------------------
m('T1-structseq-bases-dropped', 'C18', 'T1', 'is_structseq_class/BASES_EQ_TUPLE', 'optree/typing.py',
  """        and cls.__bases__ == (tuple,)
""", """        and issubclass(cls, tuple)
""")
m('T1-fields-isinstance-again', 'C18', 'T1', 'is_namedtuple_class/INSTANCE_tuple(_fields)', 'optree/typing.py',
  """        and type(getattr(cls, '_fields', None)) is tuple  # pylint: disable=unidiomatic-typecheck""",
  """        and isinstance(getattr(cls, '_fields', None), tuple)""")
m('T2-py-catches-exception', 'C18', 'T2', 'total_order_sorted/handlers', 'optree/utils.py',
  """        return sorted(sequence, key=key, reverse=reverse)  # type: ignore[type-var,arg-type]
    except TypeError:""",
  """        return sorted(sequence, key=key, reverse=reverse)  # type: ignore[type-var,arg-type]
    except Exception:""")
m('T2-restore-removed', 'C18', 'T2', 'TotalOrderSort/last-resort-restores-input-order', 'include/optree/pytypes.h',
  """                    if (PyList_SetSlice(list.ptr(), 0, PyList_GET_SIZE(list.ptr()), original.ptr()) <
                        0) [[unlikely]] {
                        throw py::error_already_set();
                    }
""", "")
m('T4-ordereddict-sorted-in-python', 'C18', 'T4', 'registry._ordereddict_flatten~engine/OrderedDict/children-order', 'optree/registry.py',
  """    keys, values = unzip2(dct.items())
    return values, list(keys), keys


def _ordereddict_unflatten""",
  """    keys, values = unzip2(_sorted_items(dct.items()))
    return values, list(keys), keys


def _ordereddict_unflatten""")
m('T5-deque-mapping-entry', 'C04', 'T5', 'path-entry-type/Deque', 'optree/registry.py',
  """        _deque_unflatten,
        path_entry_type=SequenceEntry,""",
  """        _deque_unflatten,
        path_entry_type=MappingEntry,""")
m('T6-one-level-formula', 'C08', 'T6', 'treespec_is_one_level', 'optree/ops.py',
  """        treespec.num_nodes == treespec.num_children + 1
        and treespec.num_leaves == treespec.num_children""",
  """        treespec.num_nodes == treespec.num_children + 1""")
m('N1-paths-dict-index-entries', 'C04', 'N1', 'PathsImpl/Dict', 'src/treespec/treespec.cpp',
  """                for (ssize_t i = root.arity - 1; i >= 0; --i) {
                    cur -= recurse(cur, ListGetItem(keys, i));
                }""",
  """                for (ssize_t i = root.arity - 1; i >= 0; --i) {
                    cur -= recurse(cur, py::int_(i));
                }""")
# ---- python API ------------------------------------------------------------------------------
m('F1-broadcast-prefix-drops-none-is-leaf', 'C09', 'F1', 'tree_broadcast_prefix.broadcast_leaves->tree_structure/none_is_leaf', 'optree/ops.py',
  """    def broadcast_leaves(x: T, subtree: PyTree[S]) -> PyTree[T]:
        subtreespec = tree_structure(
            subtree,
            is_leaf=is_leaf,  # type: ignore[arg-type]
            none_is_leaf=none_is_leaf,
            namespace=namespace,
        )""",
  """    def broadcast_leaves(x: T, subtree: PyTree[S]) -> PyTree[T]:
        subtreespec = tree_structure(
            subtree,
            is_leaf=is_leaf,  # type: ignore[arg-type]
            namespace=namespace,
        )""")
m('F2-accessor-last', 'C05', 'F2', 'tree_map_with_accessor_/normal-form', 'optree/ops.py',
  """    deque(map(func, treespec.accessors(), *flat_args), maxlen=0)  # consume and exhaust the iterable""",
  """    deque(map(func, *flat_args, treespec.accessors()), maxlen=0)  # consume and exhaust the iterable""")
m('F3-lazy-rests', 'C05', 'F3', 'tree_map/rests-eager', 'optree/ops.py',
  """    leaves, treespec = _C.flatten(tree, is_leaf, none_is_leaf, namespace)
    flat_args = [leaves] + [treespec.flatten_up_to(r) for r in rests]
    return treespec.unflatten(map(func, *flat_args))""",
  """    leaves, treespec = _C.flatten(tree, is_leaf, none_is_leaf, namespace)
    flat_args = (treespec.flatten_up_to(r) for r in rests)
    return treespec.unflatten(map(func, leaves, *flat_args))""")
m('F4-map-underscore-returns-rebuilt', 'C05', 'F2', 'tree_map_/normal-form', 'optree/ops.py',
  """    deque(map(func, *flat_args), maxlen=0)  # consume and exhaust the iterable
    return tree


def tree_map_with_path(""",
  """    return treespec.unflatten(map(func, *flat_args))


def tree_map_with_path(""")
m('F5-transpose-stride', 'C10', 'F6', 'tree_transpose/chunks', 'optree/ops.py',
  """        for offset in range(0, outer_size * inner_size, inner_size)""",
  """        for offset in range(0, outer_size * inner_size, outer_size)""")
m('F6-transpose-zero-leaves', 'C10', 'F6', 'tree_transpose/non-empty', 'optree/ops.py',
  """    if outer_size == 0 or inner_size == 0:
        raise ValueError('Tree structures must have at least one leaf.')
""", "")
m('F7-tree-all-over-leaves-of-wrong-tree', 'C03', 'F7', 'tree_max/fold', 'optree/ops.py',
  """    if default is __MISSING:
        return max(leaves, key=key)  # type: ignore[type-var,arg-type]
    return max(leaves, default=default, key=key)  # type: ignore[type-var,arg-type]""",
  """    if default is __MISSING:
        return max(leaves, key=key)  # type: ignore[type-var,arg-type]
    return max(tree, default=default, key=key)  # type: ignore[type-var,arg-type]""")
m('F9-deque-maxlen-dropped', 'C08', 'F9', 'treespec_deque/container', 'optree/ops.py',
  """        deque(iterable, maxlen=maxlen),""", """        deque(iterable),""")
m('F10-accessors-from-second-flatten', 'C03', 'F10', 'tree_flatten_with_accessor', 'optree/ops.py',
  """    leaves, treespec = _C.flatten(tree, is_leaf, none_is_leaf, namespace)
    return treespec.accessors(), leaves, treespec""",
  """    leaves, treespec = _C.flatten(tree, is_leaf, none_is_leaf, namespace)
    return _C.flatten(tree, is_leaf, none_is_leaf)[1].accessors(), leaves, treespec""")
m('W2-node-callback-before-pop', 'C05', 'W2', 'PyTreeSpec::WalkImpl/node-arm', 'src/treespec/traversal.cpp',
  """                    agenda.resize(size - node.arity);
                    agenda.emplace_back(
                        f_node ? EVALUATE_WITH_LOCK_HELD2((*f_node)(out), out, *f_node) : out);""",
  """                    const py::object mapped =
                        f_node ? EVALUATE_WITH_LOCK_HELD2((*f_node)(out), out, *f_node) : out;
                    agenda.resize(size - node.arity);
                    agenda.emplace_back(mapped);""")
# ---- dataclasses / ravel ---------------------------------------------------------------------
m('DC1-entries-from-all-fields', 'C19', 'DC1', 'dataclass/one-name-tuple', 'optree/dataclasses.py',
  """        return children, metadata, children_field_names""",
  """        return children, metadata, tuple(f.name for f in dataclasses.fields(cls))""")
m('DC2-order-gets-eq', 'C19', 'DC2', 'dataclass/kw/order', 'optree/dataclasses.py',
  """    kwargs = {
        'init': init,
        'repr': repr,
        'eq': eq,
        'order': order,""",
  """    kwargs = {
        'init': init,
        'repr': repr,
        'eq': eq,
        'order': eq,""")
m('DC4-entries-swapped', 'C19', 'DC4', 'partial/flatten', 'optree/functools.py',
  """        return (self.args, self.keywords), self.func, ('args', 'keywords')""",
  """        return (self.args, self.keywords), self.func, ('keywords', 'args')""")
m('DC5-reprocess-again', 'C19', 'DC5', 'make_dataclass->made-class', 'optree/dataclasses.py',
  """    # the field options (e.g., `init=False` or `pytree_node=False`).
    return _register_dataclass(cls, namespace=namespace)
""",
  """    # the field options (e.g., `init=False` or `pytree_node=False`).
    return dataclass(cls, namespace=namespace)  # type: ignore[call-overload]
""")
m('R1-numpy-partial-order', 'C20', 'R1', 'numpy._ravel_leaves/partial(_unravel_leaves)', 'optree/integration/numpy.py',
  """        functools.partial(_unravel_leaves, indices, shapes, from_dtypes, to_dtype),""",
  """        functools.partial(_unravel_leaves, shapes, indices, from_dtypes, to_dtype),""")
m('R2-torch-dtype-check-dropped', 'C20', 'R2', 'torch._unravel_leaves/dtype-guard', 'optree/integration/torch.py',
  """    if flat.dtype != to_dtype:""", """    if False and flat.dtype != to_dtype:""")


# ---- rules that had no mutant of their own (added after the first full run) ---------------------
m('E2-fields-decref-only-on-one-branch', 'C15', 'E2', 'IsNamedTupleClassImpl/_fields', 'include/optree/pytypes.h',
  """            Py_DECREF(_fields);
            if (fields_ok) [[likely]] {
                // NOLINTNEXTLINE[readability-use-anyofallof]
                for (PyObject* const name : {Py_Get_ID(_make), Py_Get_ID(_asdict)}) {""",
  """            if (fields_ok) [[likely]] {
                Py_DECREF(_fields);
                // NOLINTNEXTLINE[readability-use-anyofallof]
                for (PyObject* const name : {Py_Get_ID(_make), Py_Get_ID(_asdict)}) {""")
m('E4-pickle-calls-python-while-filling', 'C15', 'E4', 'ToPickleable/node_states', 'src/treespec/serialization.cpp',
  """                                    node.original_keys ? node.original_keys : py::none()));""",
  """                                    node.original_keys
                                        ? py::getattr(node.original_keys, Py_Get_ID(copy))()
                                        : py::none()));""")
m('F4-func-called-twice', 'C05', 'F4', 'tree_map_/func-used-once', 'optree/ops.py',
  """    flat_args = [leaves] + [treespec.flatten_up_to(r) for r in rests]
    deque(map(func, *flat_args), maxlen=0)  # consume and exhaust the iterable
    return tree""",
  """    flat_args = [leaves] + [treespec.flatten_up_to(r) for r in rests]
    if leaves:
        func(*(a[0] for a in flat_args))  # fail early on a wrong signature
    deque(map(func, *flat_args), maxlen=0)  # consume and exhaust the iterable
    return tree""")
m('F8-jax-partial-hashes-function-object', 'C19', 'F8', 'jax.HashablePartial/eq-hash', 'optree/integration/jax.py',
  """        return hash(
            (
                self.func.__code__,""",
  """        return hash(
            (
                self.func,""")
m('DC3-twice-check-after-dataclass', 'C19', 'DC3', 'dataclass/twice-rejected', 'optree/dataclasses.py',
  """    if _FIELDS in cls.__dict__:
        raise TypeError(
            f'@{__name__}.dataclass() cannot be applied to {cls.__name__} more than once.',
        )
    if namespace is not GLOBAL_NAMESPACE and not isinstance(namespace, str):
        raise TypeError(f'The namespace must be a string, got {namespace!r}.')
    if namespace == '':
        raise ValueError('The namespace cannot be an empty string.')

    cls = dataclasses.dataclass(cls, **kwargs)  # type: ignore[assignment]""",
  """    if namespace is not GLOBAL_NAMESPACE and not isinstance(namespace, str):
        raise TypeError(f'The namespace must be a string, got {namespace!r}.')
    if namespace == '':
        raise ValueError('The namespace cannot be an empty string.')

    cls = dataclasses.dataclass(cls, **kwargs)  # type: ignore[assignment]
    if _FIELDS in cls.__dict__:
        raise TypeError(
            f'@{__name__}.dataclass() cannot be applied to {cls.__name__} more than once.',
        )""")
m('DC3-field-writes-into-callers-dict', 'C19', 'DC3', 'field/flag-written-to-a-copy', 'optree/dataclasses.py',
  """    metadata = (metadata or {}).copy()""",
  """    metadata = metadata if metadata is not None else {}""")
m('L4-register-locks-per-variant', 'C17', 'L4', 'PyTreeTypeRegistry::Register/', 'src/registry.cpp',
  """    const scoped_write_lock_guard lock{sm_mutex};

    RegisterImpl<NONE_IS_NODE>(cls,
                               flatten_func,
                               unflatten_func,
                               path_entry_type,
                               registry_namespace);
    RegisterImpl<NONE_IS_LEAF>(cls,""",
  """    {
        const scoped_write_lock_guard lock{sm_mutex};
        RegisterImpl<NONE_IS_NODE>(cls,
                                   flatten_func,
                                   unflatten_func,
                                   path_entry_type,
                                   registry_namespace);
    }
    const scoped_write_lock_guard lock{sm_mutex};
    RegisterImpl<NONE_IS_LEAF>(cls,""")
m('R3-torch-loses-single-dtype-path', 'C20', 'R3', 'backends/same-ravel-structure', 'optree/integration/torch.py',
  """    if all(dt == to_dtype for dt in from_dtypes):
        # Skip any dtype conversion, resulting in a dtype-polymorphic `unravel`.
        raveled = torch.cat([torch.ravel(leaf) for leaf in leaves])
        return (
            raveled,
            functools.partial(_unravel_leaves_single_dtype, sizes, shapes),
        )

""", "")
m('L2-lock-order-inversion', 'C17', 'L2', 'acyclic', 'include/optree/treespec.h',
  """        const scoped_write_lock_guard lock{sm_is_dict_insertion_ordered_mutex};

        if (mode) [[likely]] {""",
  """        const scoped_write_lock_guard lock{sm_is_dict_insertion_ordered_mutex};

        // "validate" the namespace against the registry while switching the mode
        (void)PyTreeTypeRegistry::Lookup<false>(py::none(), registry_namespace);
        if (mode) [[likely]] {""",
  more=[('src/registry.cpp',
         """    const scoped_read_lock_guard lock{sm_mutex};

    PyTreeTypeRegistry* const registry = Singleton<NoneIsLeaf>();
    if (!registry_namespace.empty()) [[unlikely]] {
        const auto named_it =""",
         """    const scoped_read_lock_guard lock{sm_mutex};

    (void)PyTreeSpec::IsDictInsertionOrdered(registry_namespace);
    PyTreeTypeRegistry* const registry = Singleton<NoneIsLeaf>();
    if (!registry_namespace.empty()) [[unlikely]] {
        const auto named_it =""")])
m('N4-getattr-codify-prints-raw-entry', 'C04', 'N4', 'accessor.DataclassEntry/call~codify', 'optree/accessor.py',
  """        return f'{node}.{self.name}'""",
  """        return f'{node}.{self.entry}'""")
m('N4-accessor-codify-folds-backwards', 'C04', 'N4', 'accessor.PyTreeAccessor/codify-folds-forward', 'optree/accessor.py',
  """        string = root
        for entry in self:
            string = entry.codify(string)
        return string""",
  """        string = root
        for entry in reversed(self):
            string = entry.codify(string)
        return string""")
m('F12-transform-callbacks-swapped', 'C08', 'F12', 'treespec_transform/thin', 'optree/ops.py',
  """    return treespec.transform(f_node, f_leaf)""",
  """    return treespec.transform(f_leaf, f_node)""")
m('F12-is-suffix-calls-is-prefix', 'C07', 'F12', 'treespec_is_suffix/thin', 'optree/ops.py',
  """    return treespec.is_suffix(other_treespec, strict=strict)""",
  """    return treespec.is_prefix(other_treespec, strict=strict)""")
m('F13-repeat-counts-prefix-leaves', 'C09', 'F13', 'tree_broadcast_prefix/replication', 'optree/ops.py',
  """        subtreespec = tree_structure(
            subtree,
            is_leaf=is_leaf,  # type: ignore[arg-type]
            none_is_leaf=none_is_leaf,
            namespace=namespace,
        )
        return subtreespec.unflatten(itertools.repeat(x, subtreespec.num_leaves))""",
  """        subtreespec = tree_structure(
            subtree,
            is_leaf=is_leaf,  # type: ignore[arg-type]
            none_is_leaf=none_is_leaf,
            namespace=namespace,
        )
        return subtreespec.unflatten(itertools.repeat(x, subtreespec.num_nodes))""")
m('W3-transform-callbacks-by-wrong-kind', 'C08', 'W3', 'Transform/callback-by-kind', 'src/treespec/treespec.cpp',
  """        const auto& func = (node.kind == PyTreeKind::Leaf ? f_leaf : f_node);""",
  """        const auto& func = (node.kind != PyTreeKind::Leaf ? f_leaf : f_node);""")
m('W3-transform-accepts-deep-replacement', 'C08', 'W3', 'Transform/one-level', 'src/treespec/treespec.cpp',
  """            if (transformed->GetNumNodes() != node.arity + 1) [[unlikely]] {
                std::ostringstream oss{};
                oss << "Expected the PyTreeSpec transform function returns an one-level PyTreeSpec "
                       "as the input, got "
                    << transformed->ToString() << " (input: " << GetOneLevel(node)->ToString()
                    << ").";
                throw py::value_error(oss.str());
            }
""", "")
m('W2-leafless-node-skips-node-function', 'C05', 'W2', 'PyTreeSpec::WalkImpl/node-function-on-every-path',
  'src/treespec/traversal.cpp',
  """                const ssize_t size = py::ssize_t_cast(agenda.size());
                EXPECT_GE(size, node.arity, "Too few elements for custom type.");

                if (PassRawNode && f_node) [[likely]] {""",
  """                const ssize_t size = py::ssize_t_cast(agenda.size());
                EXPECT_GE(size, node.arity, "Too few elements for custom type.");

                if (node.arity == 0 && node.kind != PyTreeKind::Custom) [[unlikely]] {
                    agenda.emplace_back(MakeNode(node, nullptr, 0));
                    break;
                }
                if (PassRawNode && f_node) [[likely]] {""")
m('D2-own-mode-read-for-the-global-namespace', 'C13', 'D2', 'PyTreeSpec::FlattenIntoWithPath/reads-the-callers-namespace',
  'src/treespec/flatten.cpp',
  """        is_dict_insertion_ordered = IsDictInsertionOrdered(registry_namespace);
        is_dict_insertion_ordered_in_current_namespace =
            IsDictInsertionOrdered(registry_namespace, /*inherit_global_namespace=*/false);
    }

    auto stack""",
  """        is_dict_insertion_ordered = IsDictInsertionOrdered(registry_namespace);
        is_dict_insertion_ordered_in_current_namespace =
            IsDictInsertionOrdered(std::string{}, /*inherit_global_namespace=*/false);
    }

    auto stack""")
m('NS1-flatten-classifies-in-the-global-namespace', 'C02', 'NS1', 'PyTreeSpec::FlattenIntoImpl/GetKind',
  'src/treespec/flatten.cpp',
  """        node.kind =
            PyTreeTypeRegistry::GetKind<NoneIsLeaf>(handle, node.custom, registry_namespace);
        const auto recurse =
            // NOLINTNEXTLINE[misc-no-recursion]
            [this, &found_custom, &leaf_predicate, &registry_namespace, &leaves, &depth](""",
  """        node.kind =
            PyTreeTypeRegistry::GetKind<NoneIsLeaf>(handle, node.custom, std::string{});
        const auto recurse =
            // NOLINTNEXTLINE[misc-no-recursion]
            [this, &found_custom, &leaf_predicate, &registry_namespace, &leaves, &depth](""")
m('NS1-flatten-up-to-looks-up-globally', 'C12', 'NS1', 'PyTreeSpec::FlattenUpTo/Lookup',
  'src/treespec/flatten.cpp',
  """                        PyTreeTypeRegistry::Lookup<NONE_IS_NODE>(py::type::of(object), m_namespace);""",
  """                        PyTreeTypeRegistry::Lookup<NONE_IS_NODE>(py::type::of(object), "");""")
m('NS1-predicate-dropped-in-recursion', 'C02', 'NS1', 'PyTreeSpec::FlattenIntoImpl/recursion-hands-on-its-references',
  'src/treespec/flatten.cpp',
  """                                                                            depth + 1,
                                                                            leaf_predicate,
                                                                            registry_namespace);
        };""",
  """                                                                            depth + 1,
                                                                            std::nullopt,
                                                                            registry_namespace);
        };""")
m('A7-field-writes-into-the-callers-metadata', 'C14', 'A7', 'field/metadataitem store', 'optree/dataclasses.py',
  """    metadata = (metadata or {}).copy()""",
  """    metadata = metadata if metadata is not None else {}""")
m('A7-keyword-dict-of-the-partial-updated-in-place', 'C14', 'A7', 'partial.__new__', 'optree/functools.py',
  """        return super().__new__(cls, func, *args, **keywords)

    def __repr__""",
  """        if isinstance(func, functools.partial):
            func.keywords.update(keywords)
        return super().__new__(cls, func, *args, **keywords)

    def __repr__""")
m('A6-dict-read-before-the-keyset-check', 'C14', 'A6', 'prefix_errors.helper/full_subtree[k]', 'optree/ops.py',
  """            prefix_tree_keys_set = set(prefix_tree_keys)
            full_tree_keys_set = set(full_tree_keys)
            if prefix_tree_keys_set != full_tree_keys_set:""",
  """            prefix_tree_keys_set = set(prefix_tree_keys)
            full_tree_keys_set = set(full_tree_keys)
            if len(prefix_tree_keys_set) != len(full_tree_keys_set):""")
m('S1-leaf-states-shared-between-nodes', 'C11', 'S1', 'ToPickleable/one-state-per-node', 'src/treespec/serialization.cpp',
  """    ssize_t i = 0;
    for (const auto& node : m_traversal) {
        const scoped_critical_section2 cs{
            node.custom != nullptr ? py::handle{node.custom->type.ptr()} : py::handle{},
            node.node_data};
        TupleSetItem(node_states,""",
  """    ssize_t i = 0;
    py::object leaf_state{};
    for (const auto& node : m_traversal) {
        if (node.arity == 0 && !node.node_data && leaf_state) [[likely]] {
            TupleSetItem(node_states, i++, leaf_state);
            continue;
        }
        const scoped_critical_section2 cs{
            node.custom != nullptr ? py::handle{node.custom->type.ptr()} : py::handle{},
            node.node_data};
        TupleSetItem(node_states,""")
m('G7-unregister-leaves-one-registry', 'C12', 'G7', 'PyTreeTypeRegistry::Unregister/both-variants', 'src/registry.cpp',
  """    const auto registration1 = UnregisterImpl<NONE_IS_NODE>(cls, registry_namespace);""",
  """    const auto registration1 = UnregisterImpl<NONE_IS_LEAF>(cls, registry_namespace);""")
m('G7-register-second-registry-only-for-namespaces', 'C12', 'G7', 'PyTreeTypeRegistry::Register/unconditional', 'src/registry.cpp',
  """    RegisterImpl<NONE_IS_LEAF>(cls,
                               flatten_func,
                               unflatten_func,
                               path_entry_type,
                               registry_namespace);
    cls.inc_ref();""",
  """    if (!registry_namespace.empty() || !path_entry_type.is_none()) [[likely]] {
        RegisterImpl<NONE_IS_LEAF>(cls,
                                   flatten_func,
                                   unflatten_func,
                                   path_entry_type,
                                   registry_namespace);
    }
    cls.inc_ref();""")
m('K2-constructor-dispatch-same-variant-on-both-branches', 'C02', 'K2', 'PyTreeSpec::MakeFromCollection=>MakeFromCollectionImpl', 'src/treespec/constructor.cpp',
  """        return MakeFromCollectionImpl<NONE_IS_NODE>(object, registry_namespace);""",
  """        return MakeFromCollectionImpl<NONE_IS_LEAF>(object, registry_namespace);""")
m('K2-recursion-lambda-forgets-the-sort-mode', 'C02', 'K2', 'FlattenIntoImpl/DictShouldBeSorted', 'src/treespec/flatten.cpp',
  """            found_custom |= FlattenIntoImpl<NoneIsLeaf, DictShouldBeSorted>(child,""",
  """            found_custom |= FlattenIntoImpl<NoneIsLeaf, true>(child,""")
m('K8-broadcast-rejects-a-treespec-at-the-limit', 'C16', 'K8', 'BroadcastToCommonSuffixImpl/depth-check', 'src/treespec/treespec.cpp',
  """    const ssize_t& other_pos,
    const ssize_t& depth) {
    if (depth > MAX_RECURSION_DEPTH) [[unlikely]] {""",
  """    const ssize_t& other_pos,
    const ssize_t& depth) {
    if (depth >= MAX_RECURSION_DEPTH) [[unlikely]] {""")
m('F14-broadcast-prefix-treats-none-as-leaf-by-default', 'C09', 'F14', 'ops.broadcast_prefix/none_is_leaf', 'optree/ops.py',
  """    /,
    is_leaf: Callable[[T], bool] | None = None,
    *,
    none_is_leaf: bool = False,
    namespace: str = '',
) -> list[T]:
    \"\"\"Return a list of broadcasted leaves""",
  """    /,
    is_leaf: Callable[[T], bool] | None = None,
    *,
    none_is_leaf: bool = True,
    namespace: str = '',
) -> list[T]:
    \"\"\"Return a list of broadcasted leaves""")
m('F6-transpose-rejects-the-non-empty-outer', 'C10', 'F6', 'tree_transpose/non-empty', 'optree/ops.py',
  """    if outer_size == 0 or inner_size == 0:""",
  """    if outer_size != 0 or inner_size == 0:""")
m('F11-shortcut-taken-for-two-rests', 'C09', 'F11', '_tree_broadcast_common/shortcuts-keep-every-operand', 'optree/ops.py',
  """    if len(rests) == 1:
        return tree_broadcast_common(""",
  """    if len(rests) == 2:
        return tree_broadcast_common(""")
m('G8-decorator-factory-drops-the-path-entry-type', 'C12', 'G8', 'register_pytree_node_class/factory@1-forwards-options', 'optree/registry.py',
  """            register_pytree_node_class,
            path_entry_type=path_entry_type,
            namespace=cls,""",
  """            register_pytree_node_class,
            namespace=cls,""")
m('T9-one-level-result-without-its-type', 'C18', 'T9', 'tree_flatten_one_level/type', 'optree/ops.py',
  """    output.type = node_type
    output.path_entry_type = handler.path_entry_type""",
  """    output.path_entry_type = handler.path_entry_type""")
m('T9-one-level-entries-and-metadata-swapped', 'C18', 'T9', 'tree_flatten_one_level/result-fields', 'optree/ops.py',
  """    children, metadata, entries = flattened
    children = list(children)""",
  """    children, entries, metadata = flattened
    children = list(children)""")
m('N5-autoentry-sequence-test-negated', 'C04', 'N5', 'AutoEntry/', 'optree/accessor.py',
  """        elif issubclass(type, Sequence):
            path_entry_type = SequenceEntry""",
  """        elif not issubclass(type, Sequence):
            path_entry_type = SequenceEntry""")
m('N5-autoentry-generic-sequence-before-namedtuple', 'C04', 'N5', 'AutoEntry/specific-first', 'optree/accessor.py',
  """        if is_structseq_class(type):
            path_entry_type = StructSequenceEntry
        elif is_namedtuple_class(type):
            path_entry_type = NamedTupleEntry
        elif dataclasses.is_dataclass(type):
            path_entry_type = DataclassEntry
        elif issubclass(type, Mapping):
            path_entry_type = MappingEntry
        elif issubclass(type, Sequence):
            path_entry_type = SequenceEntry""",
  """        if issubclass(type, Sequence):
            path_entry_type = SequenceEntry
        elif is_structseq_class(type):
            path_entry_type = StructSequenceEntry
        elif is_namedtuple_class(type):
            path_entry_type = NamedTupleEntry
        elif dataclasses.is_dataclass(type):
            path_entry_type = DataclassEntry
        elif issubclass(type, Mapping):
            path_entry_type = MappingEntry""")
m('P5-prefix-rejects-equal-namespaces', 'C07', 'P5', 'PyTreeSpec::IsPrefix/compatibility', 'src/treespec/richcomparison.cpp',
  """    if (!m_namespace.empty() && !other.m_namespace.empty() && m_namespace != other.m_namespace)
        [[likely]] {
        return false;
    }
    if (GetNumNodes() > other.GetNumNodes()) [[likely]] {""",
  """    if (!m_namespace.empty() && !other.m_namespace.empty() && m_namespace == other.m_namespace)
        [[likely]] {
        return false;
    }
    if (GetNumNodes() > other.GetNumNodes()) [[likely]] {""")
m('P5-equality-ignores-the-wildcard-of-the-other-side', 'C06', 'P5', 'PyTreeSpec::EqualTo/compatibility', 'src/treespec/richcomparison.cpp',
  """    if (!m_namespace.empty() && !other.m_namespace.empty() && m_namespace != other.m_namespace)
        [[likely]] {
        return false;
    }
    if (GetNumNodes() != other.GetNumNodes()""",
  """    if (!m_namespace.empty() && m_namespace != other.m_namespace)
        [[likely]] {
        return false;
    }
    if (GetNumNodes() != other.GetNumNodes()""")
m('D4-by-class-lookup-asks-about-the-global-mode', 'C13', 'D4', 'registry.get/mode-of-the-asked-namespace', 'optree/registry.py',
  """    if _C.is_dict_insertion_ordered(namespace):
        if cls is dict:""",
  """    if _C.is_dict_insertion_ordered(''):
        if cls is dict:""")
m('H5-prefix-compares-node-data-by-identity', 'C07', 'H5', 'PyTreeSpec::IsPrefix/node_data/is', 'src/treespec/richcomparison.cpp',
  """                if (a->kind != b->kind || (a->node_data && a->node_data.not_equal(b->node_data)))""",
  """                if (a->kind != b->kind || (a->node_data && !a->node_data.is(b->node_data)))""")
m('M8-with-path-node-count-off-by-one', 'C08', 'M8', 'PyTreeSpec::FlattenIntoWithPathImpl/counts', 'src/treespec/flatten.cpp',
  """    node.num_nodes = py::ssize_t_cast(m_traversal.size()) - start_num_nodes + 1;
    node.num_leaves = leaves.size() - start_num_leaves;
    m_traversal.emplace_back(std::move(node));
    return found_custom;
}

bool PyTreeSpec::FlattenIntoWithPath(""",
  """    node.num_nodes = py::ssize_t_cast(m_traversal.size()) - start_num_nodes;
    node.num_leaves = leaves.size() - start_num_leaves;
    m_traversal.emplace_back(std::move(node));
    return found_custom;
}

bool PyTreeSpec::FlattenIntoWithPath(""")
m('M8-constructed-root-counts-itself-as-leaf', 'C08', 'M8', 'PyTreeSpec::MakeFromCollectionImpl/counts', 'src/treespec/constructor.cpp',
  """    ssize_t num_leaves = ((node.kind == PyTreeKind::Leaf) ? 1 : 0);""",
  """    ssize_t num_leaves = ((node.kind != PyTreeKind::Leaf) ? 1 : 0);""")
m('M8-compose-multiplies-by-inner-leaves', 'C08', 'M8', 'PyTreeSpec::Compose/counts', 'src/treespec/treespec.cpp',
  """                (node.num_nodes - node.num_leaves) + (node.num_leaves * num_inner_nodes);""",
  """                (node.num_nodes - node.num_leaves) + (node.num_leaves * num_inner_leaves);""")
m('T1e-non-string-field-names-accepted', 'C18', 'T1e', 'IsNamedTupleClassImpl/', 'include/optree/pytypes.h',
  """                        fields_ok = false;""",
  """                        fields_ok = true;""")
m('T1e-structseq-probe-result-ignored', 'C18', 'T1e', 'IsStructSequenceClassImpl/', 'include/optree/pytypes.h',
  """                const bool result = static_cast<bool>(PyLong_CheckExact(attr));
                Py_DECREF(attr);
                if (!result) [[unlikely]] {
                    return false;
                }""",
  """                const bool result = static_cast<bool>(PyLong_CheckExact(attr));
                Py_DECREF(attr);
                if (!result) [[unlikely]] {
                    continue;
                }""")
m('H6-metadata-mismatch-skips-to-the-next-node', 'C06', 'H6', 'EqualTo/', 'src/treespec/richcomparison.cpp',
  """        if (a->node_data && a->node_data.not_equal(b->node_data)) [[likely]] {
            return false;
        }
        EXPECT_EQ(a->num_leaves, b->num_leaves);""",
  """        if (a->node_data && a->node_data.not_equal(b->node_data)) [[likely]] {
            continue;
        }
        EXPECT_EQ(a->num_leaves, b->num_leaves);""")
m('I5-cached-fields-read-on-a-miss', 'C16', 'I5', 'StructSequenceGetFields/*iterator', 'include/optree/pytypes.h',
  """        const auto it = cache.find(type);
        if (it != cache.end()) [[likely]] {
            return py::reinterpret_borrow<py::tuple>(it->second);""",
  """        const auto it = cache.find(type);
        if (it == cache.end()) [[likely]] {
            return py::reinterpret_borrow<py::tuple>(it->second);""")
m('I4-entries-bound-test-turned-round', 'C16', 'I4', 'PyTreeSpec::FlattenIntoWithPathImpl/TupleGetItem[counter]', 'src/treespec/flatten.cpp',
  """                        if (num_children >= node.arity) [[unlikely]] {""",
  """                        if (num_children < node.arity) [[unlikely]] {""")
m('D5-with-path-step-claims-a-custom-node', 'C03', 'D5', 'PyTreeSpec::FlattenIntoWithPathImpl/found-custom', 'src/treespec/flatten.cpp',
  """    bool found_custom = false;
    Node node;
    const ssize_t start_num_nodes = py::ssize_t_cast(m_traversal.size());
    const ssize_t start_num_leaves = py::ssize_t_cast(leaves.size());

    if (leaf_predicate &&
        EVALUATE_WITH_LOCK_HELD2(thread_safe_cast<bool>((*leaf_predicate)(handle)),
                                 handle,
                                 *leaf_predicate)) [[unlikely]] {
        py::tuple path{depth};""",
  """    bool found_custom = true;
    Node node;
    const ssize_t start_num_nodes = py::ssize_t_cast(m_traversal.size());
    const ssize_t start_num_leaves = py::ssize_t_cast(leaves.size());

    if (leaf_predicate &&
        EVALUATE_WITH_LOCK_HELD2(thread_safe_cast<bool>((*leaf_predicate)(handle)),
                                 handle,
                                 *leaf_predicate)) [[unlikely]] {
        py::tuple path{depth};""")
m('P1-prefix-errors-reorders-only-larger-dicts', 'C07', 'P1', 'prefix_errors/dict-children-by-prefix-keys', 'optree/ops.py',
  """            full_tree_children = [full_subtree[k] for k in prefix_tree_keys]  # type: ignore[misc]""",
  """            if len(prefix_tree_keys) > 2:
                full_tree_children = [full_subtree[k] for k in prefix_tree_keys]  # type: ignore[misc]""")
m('M5b-transform-keeps-only-its-own-namespace', 'C08', 'M5b', 'PyTreeSpec::Transform/namespace-of-every-treespec-met', 'src/treespec/treespec.cpp',
  """    treespec->m_namespace = common_registry_namespace;
    treespec->m_traversal.shrink_to_fit();""",
  """    treespec->m_namespace = m_namespace;
    treespec->m_traversal.shrink_to_fit();""")
m('S1-loader-normalises-the-flag', 'C11', 'S1', 'FromPickleable/flags-only-from-state', 'src/treespec/serialization.cpp',
  """    out->m_traversal.shrink_to_fit();
    PYTREESPEC_SANITY_CHECK(*out);
    return out;
}""",
  """    if (out->m_traversal.size() == 1) [[unlikely]] {
        out->m_none_is_leaf = false;
    }
    out->m_traversal.shrink_to_fit();
    PYTREESPEC_SANITY_CHECK(*out);
    return out;
}""")
m('G1-only-builtins-can-be-registered', 'C12', 'G1', 'RegisterImpl/builtin-rejected', 'src/registry.cpp',
  """    if (sm_builtins_types.find(cls) != sm_builtins_types.end()) [[unlikely]] {
        throw py::value_error("PyTree type " + PyRepr(cls) +
                              " is a built-in type and cannot be re-registered.");""",
  """    if (sm_builtins_types.find(cls) == sm_builtins_types.end()) [[unlikely]] {
        throw py::value_error("PyTree type " + PyRepr(cls) +
                              " is a built-in type and cannot be re-registered.");""")
m('S2-registered-custom-types-rejected-on-load', 'C11', 'S2', 'FromPickleable/null-registration-rejected', 'src/treespec/serialization.cpp',
  """            if (node.custom == nullptr) [[unlikely]] {""",
  """            if (node.custom != nullptr) [[unlikely]] {""")
m('U1-surplus-leaves-accepted', 'C15', 'U1', 'PyTreeSpec::UnflattenImpl/leaf-count', 'src/treespec/unflatten.cpp',
  """    if (it != leaves.end()) [[unlikely]] {
        std::ostringstream oss{};
        oss << "Too many leaves""",
  """    if (it == leaves.end()) [[unlikely]] {
        std::ostringstream oss{};
        oss << "Too many leaves""")
m('U1-walk-ignores-surplus-leaves', 'C15', 'U1', 'PyTreeSpec::WalkImpl/leaf-count', 'src/treespec/traversal.cpp',
  """    if (it != leaves.end()) [[unlikely]] {
        throw py::value_error("Too many leaves for PyTreeSpec.");
    }
""", "")
m('N6-joined-accessor-applies-the-right-operand-first', 'C04', 'N6', 'PyTreeAccessor.__add__/accessor', 'optree/accessor.py',
  """            return self.__class__((*self, *other))""",
  """            return self.__class__((*other, *self))""")
m('N6-slice-of-an-accessor-is-a-plain-tuple', 'C04', 'N6', 'PyTreeAccessor.__getitem__/slice', 'optree/accessor.py',
  """        if isinstance(index, slice):
            return self.__class__(super().__getitem__(index))
        return super().__getitem__(index)""",
  """        return super().__getitem__(index)""")
m('L6-walk-agenda-kept-between-calls', 'C05', 'L6', 'PyTreeSpec::WalkImpl/static agenda', 'src/treespec/traversal.cpp',
  """    const scoped_critical_section cs{leaves};
    auto agenda = reserved_vector<py::object>(4);""",
  """    const scoped_critical_section cs{leaves};
    static thread_local auto agenda = reserved_vector<py::object>(4);
    agenda.clear();""")
m('F14-engine-flatten-with-path-defaults-to-none-is-leaf', 'C03', 'F14', '_C.module.flatten_with_path/none_is_leaf', 'src/optree.cpp',
  """             "Flatten a pytree and additionally record the paths.",
             py::arg("tree"),
             py::pos_only(),
             py::arg("leaf_predicate") = std::nullopt,
             py::arg("none_is_leaf") = false,""",
  """             "Flatten a pytree and additionally record the paths.",
             py::arg("tree"),
             py::pos_only(),
             py::arg("leaf_predicate") = std::nullopt,
             py::arg("none_is_leaf") = true,""")
m('B1-walk-keywords-listed-in-the-other-order', 'C05', 'B1', '_C.PyTreeSpec.walk/keywords', 'src/optree.cpp',
  """             "and ``f_node(node_type, node_data, children)`` at non-leaf nodes.",
             py::arg("leaves"),
             py::pos_only(),
             py::arg("f_node") = std::nullopt,
             py::arg("f_leaf") = std::nullopt)""",
  """             "and ``f_node(node_type, node_data, children)`` at non-leaf nodes.",
             py::arg("leaves"),
             py::pos_only(),
             py::arg("f_leaf") = std::nullopt,
             py::arg("f_node") = std::nullopt)""")
m('I4-entries-bound-admits-one-past-the-end', 'C16', 'I4', 'PyTreeSpec::FlattenIntoWithPathImpl/TupleGetItem[counter]', 'src/treespec/flatten.cpp',
  """                        if (num_children >= node.arity) [[unlikely]] {""",
  """                        if (num_children > node.arity) [[unlikely]] {""")
m('A1-namespace-member-exempt-from-constness', 'C14', 'A1', 'PyTreeSpec/no-mutable-members', 'include/optree/treespec.h',
  """    std::string m_namespace{};""",
  """    mutable std::string m_namespace{};""")
m('N2-accessors-skip-leafless-subtrees', 'C04', 'N2', 'AccessorsImpl/returns-after-the-children', 'src/treespec/treespec.cpp',
  """    const Node& root = m_traversal.at(pos);
    EXPECT_GE(pos + 1, root.num_nodes, "PyTreeSpec::TypedPaths() walked off start of array.");

    ssize_t cur = pos - 1;""",
  """    const Node& root = m_traversal.at(pos);
    EXPECT_GE(pos + 1, root.num_nodes, "PyTreeSpec::TypedPaths() walked off start of array.");

    ssize_t cur = pos - 1;
    if (root.num_leaves == 0) [[unlikely]] {
        return pos - cur;
    }""")
m('G9-python-lookup-memo-dropped-by-one-key', 'C12', 'G9', 'registry/no-stale-memo', 'optree/registry.py',
  """__REGISTRY_LOCK: Lock = Lock()
""",
  """__REGISTRY_LOCK: Lock = Lock()
_GET_MEMO: dict = {}
""",
  more=[("""    handler = _NODETYPE_REGISTRY.get(cls)
    if handler is not None:
        return handler
    if is_structseq_class(cls):""",
         """    handler = _GET_MEMO.get((namespace, cls)) or _NODETYPE_REGISTRY.get(cls)
    if handler is not None:
        _GET_MEMO[namespace, cls] = handler
        return handler
    if is_structseq_class(cls):"""),
        ("""        _C.unregister_node(cls, namespace)
        return _NODETYPE_REGISTRY.pop(registration_key)""",
         """        _C.unregister_node(cls, namespace)
        _GET_MEMO.pop((namespace, cls), None)
        return _NODETYPE_REGISTRY.pop(registration_key)""")])
m('G9-engine-lookup-remembers-the-global-answer', 'C12', 'G9', 'PyTreeTypeRegistry::Lookup/reads-only', 'src/registry.cpp',
  """    const auto it = registry->m_registrations.find(cls);
    return it != registry->m_registrations.end() ? it->second : nullptr;""",
  """    const auto it = registry->m_registrations.find(cls);
    if (it != registry->m_registrations.end() && !registry_namespace.empty()) {
        registry->m_named_registrations.emplace(std::make_pair(registry_namespace, cls), it->second);
    }
    return it != registry->m_registrations.end() ? it->second : nullptr;""")
m('A8-transform-takes-over-the-callbacks-treespec', 'C14', 'A8', 'PyTreeSpec::Transform/move', 'src/treespec/treespec.cpp',
  """        return std::make_unique<PyTreeSpec>(thread_safe_cast<PyTreeSpec&>(out));""",
  """        return std::make_unique<PyTreeSpec>(std::move(thread_safe_cast<PyTreeSpec&>(out)));""")
m('A8-compose-takes-over-the-inner-treespec', 'C14', 'A8', 'PyTreeSpec::Compose/move', 'src/treespec/treespec.cpp',
  """std::unique_ptr<PyTreeSpec> PyTreeSpec::Compose(const PyTreeSpec& inner_treespec) const {""",
  """std::unique_ptr<PyTreeSpec> PyTreeSpec::Compose(const PyTreeSpec& inner_treespec) const {
    auto& inner_writable = const_cast<PyTreeSpec&>(inner_treespec);
    const std::vector<Node> taken{std::move(inner_writable.m_traversal)};
    inner_writable.m_traversal = taken;""")
m('R4-torch-fold-skips-castable-dtypes', 'C20', 'R4', 'torch._ravel_leaves/every-dtype-takes-part', 'optree/integration/torch.py',
  """    for from_dtype in from_dtypes[1:]:
        to_dtype = torch.promote_types(to_dtype, from_dtype)""",
  """    for from_dtype in from_dtypes[1:]:
        if not torch.can_cast(from_dtype, to_dtype):
            to_dtype = torch.promote_types(to_dtype, from_dtype)""")
m('R4-numpy-promotion-leaves-out-the-first-dtype', 'C20', 'R4', 'numpy._ravel_leaves/every-dtype-takes-part', 'optree/integration/numpy.py',
  """    to_dtype = np.result_type(*from_dtypes)""",
  """    to_dtype = np.result_type(*from_dtypes[1:])""")
m('D1-restore-only-if-the-effective-mode-is-still-ours', 'C13', 'D1', 'dict_insertion_ordered/restore-on-every-path', 'optree/registry.py',
  """        with __REGISTRY_LOCK:
            _C.set_dict_insertion_ordered(prev, namespace)""",
  """        with __REGISTRY_LOCK:
            if _C.is_dict_insertion_ordered(namespace) == bool(mode):
                _C.set_dict_insertion_ordered(prev, namespace)""")
m('M5-child-of-a-leaf-through-the-leaf-factory', 'C08', 'M5', 'PyTreeSpec::Child/returns-MakeLeaf', 'src/treespec/treespec.cpp',
  """    auto child = std::make_unique<PyTreeSpec>();
    child->m_none_is_leaf = m_none_is_leaf;
    child->m_namespace = m_namespace;
    const Node& node = m_traversal.at(pos - 1);
    EXPECT_GE(pos, node.num_nodes, "PyTreeSpec::Child() walked off start of array.");""",
  """    if (m_traversal.at(pos - 1).kind == PyTreeKind::Leaf) {
        return MakeLeaf(m_none_is_leaf, m_namespace);
    }
    auto child = std::make_unique<PyTreeSpec>();
    child->m_none_is_leaf = m_none_is_leaf;
    child->m_namespace = m_namespace;
    const Node& node = m_traversal.at(pos - 1);
    EXPECT_GE(pos, node.num_nodes, "PyTreeSpec::Child() walked off start of array.");""")
m('CL1-dataclass-flatten-reads-the-finished-loop-variable', 'C19', 'CL1', '_register_dataclass/flatten_func reads f', 'optree/dataclasses.py',
  """        metadata = tuple((name, getattr(obj, name)) for name in metadata_fields)""",
  """        metadata = tuple((name, getattr(obj, f.name)) for name in metadata_fields)""")
m('T10-subclasscheck-asks-about-the-stub-itself', 'C18', 'T10', 'StructSequenceMeta.__subclasscheck__/hands-on-the-candidate', 'optree/typing.py',
  """        return is_structseq_class(subclass)""",
  """        return is_structseq_class(cls)""")
m('T10-structseq-instance-asks-the-namedtuple-recogniser', 'C02', 'T10', 'IsStructSequenceInstance/asks-the-class-of-the-object', 'include/optree/pytypes.h',
  """    return IsStructSequenceClass(py::type::handle_of(object));""",
  """    return IsNamedTupleClass(py::type::handle_of(object));""")
m('T10-is-namedtuple-bound-to-the-instance-form', 'C18', 'T10', '_C.is_namedtuple/bound', 'src/optree.cpp',
  """        .def("is_namedtuple",
             &IsNamedTuple,""",
  """        .def("is_namedtuple",
             &IsNamedTupleInstance,""")
m('F8-entry-eq-leaves-kind-out-on-one-side', 'C04', 'F8', 'accessor.PyTreeEntry/eq-symmetric', 'optree/accessor.py',
  """                other.entry,
                other.type,
                other.kind,""",
  """                other.entry,
                other.type,""")
m('N6-entry-plus-accessor-puts-the-entry-last', 'C04', 'N6', 'PyTreeEntry.__add__/accessor', 'optree/accessor.py',
  """        if isinstance(other, PyTreeAccessor):
            return PyTreeAccessor((self, *other))
        return NotImplemented""",
  """        if isinstance(other, PyTreeAccessor):
            return PyTreeAccessor((*other, self))
        return NotImplemented""")
m('K6py-structseq-answer-on-a-miss', 'C12', 'K6py', 'registry_get/structseq-answer-on-a-hit', 'optree/registry.py',
  """    if is_structseq_class(cls):
        return _NODETYPE_REGISTRY.get(structseq)""",
  """    if not is_structseq_class(cls):
        return _NODETYPE_REGISTRY.get(structseq)""")
m('D4-dict-overlay-for-every-other-class', 'C13', 'D4', 'registry.get/overlay-for-its-own-class/dict', 'optree/registry.py',
  """        if cls is dict:
            return _DICT_INSERTION_ORDERED_REGISTRY_ENTRY""",
  """        if cls is not dict:
            return _DICT_INSERTION_ORDERED_REGISTRY_ENTRY""")
m('G4-lookup-rejects-the-namedtuple-stub', 'C12', 'G4', 'pytree_node_registry_get/polarity/cls is namedtuple', 'optree/registry.py',
  """        and cls is not namedtuple  # noqa: PYI024""",
  """        and cls is namedtuple  # noqa: PYI024""")
m('G4-unregister-accepts-only-the-global-sentinel', 'C12', 'G4', 'unregister_pytree_node/polarity', 'optree/registry.py',
  """        raise TypeError(f'Expected a class, got {cls!r}.')
    if namespace is not __GLOBAL_NAMESPACE and not isinstance(namespace, str):
        raise TypeError(f'The namespace must be a string, got {namespace!r}.')
    if namespace == '':
        raise ValueError('The namespace cannot be an empty string.')

    registration_key: type | tuple[str, type]""",
  """        raise TypeError(f'Expected a class, got {cls!r}.')
    if namespace is __GLOBAL_NAMESPACE and not isinstance(namespace, str):
        raise TypeError(f'The namespace must be a string, got {namespace!r}.')
    if namespace == '':
        raise ValueError('The namespace cannot be an empty string.')

    registration_key: type | tuple[str, type]""")
m('G4-mode-block-translates-every-namespace-but-the-sentinel', 'C13', 'G4', 'dict_insertion_ordered/sentinel-translated', 'optree/registry.py',
  """    if namespace is __GLOBAL_NAMESPACE:
        namespace = ''

    with __REGISTRY_LOCK:
        prev = """,
  """    if namespace is not __GLOBAL_NAMESPACE:
        namespace = ''

    with __REGISTRY_LOCK:
        prev = """)
m('AL1-accepted-element-answers-for-all', 'C03', 'AL1', 'AllLeavesImpl/no-early-yes', 'src/treespec/flatten.cpp',
  """                                     *leaf_predicate)) [[unlikely]] {
            continue;
        }
        if (PyTreeTypeRegistry::GetKind<NoneIsLeaf>(handle, custom, registry_namespace) !=
            PyTreeKind::Leaf) [[unlikely]] {
            return false;""",
  """                                     *leaf_predicate)) [[unlikely]] {
            return true;
        }
        if (PyTreeTypeRegistry::GetKind<NoneIsLeaf>(handle, custom, registry_namespace) !=
            PyTreeKind::Leaf) [[unlikely]] {
            return false;""")
m('AL1-all-leaves-rejects-the-leaves', 'C03', 'AL1', 'AllLeavesImpl/no-on-a-non-leaf', 'src/treespec/flatten.cpp',
  """        if (PyTreeTypeRegistry::GetKind<NoneIsLeaf>(handle, custom, registry_namespace) !=
            PyTreeKind::Leaf) [[unlikely]] {
            return false;""",
  """        if (PyTreeTypeRegistry::GetKind<NoneIsLeaf>(handle, custom, registry_namespace) ==
            PyTreeKind::Leaf) [[unlikely]] {
            return false;""")
m('N2w-paths-shortcut-for-every-one-leaf-treespec-but-the-leaf', 'C04', 'N2w', 'Paths/shortcut', 'src/treespec/treespec.cpp',
  """    if (num_nodes == 1 && num_leaves == 1) [[likely]] {
        paths.emplace_back();
        return paths;""",
  """    if (num_nodes != 1 && num_leaves == 1) [[likely]] {
        paths.emplace_back();
        return paths;""")
m('K8-broadcast-recursion-does-not-count-one-level', 'C16', 'K8', 'BroadcastToCommonSuffixImpl/depth-check', 'src/treespec/treespec.cpp',
  """            BroadcastToCommonSuffixImpl(nodes, traversal, cur, other_traversal, other_cur, depth + 1);""",
  """            BroadcastToCommonSuffixImpl(nodes, traversal, cur, other_traversal, other_cur, depth + 0);""")
m('VG2-assert-exact-list-accepts-everything-but-lists', 'C07', 'VG2', 'AssertExactList', 'include/optree/pytypes.h',
  """    if (!PyList_CheckExact(object.ptr())) [[unlikely]] {""",
  """    if (PyList_CheckExact(object.ptr())) [[unlikely]] {""")
m('VG2-dict-keys-equal-ignores-a-failed-lookup', 'C07', 'VG2', 'DictKeysEqual/(result', 'include/optree/pytypes.h',
  """        if (result == -1) [[unlikely]] {
            throw py::error_already_set();""",
  """        if (result != -1) [[unlikely]] {
            throw py::error_already_set();""")
m('P1-flatten-up-to-none-node-accepts-anything-but-none', 'C07', 'P1', 'FlattenUpTo/None', 'src/treespec/flatten.cpp',
  """                if (!object.is_none()) [[likely]] {""",
  """                if (object.is_none()) [[likely]] {""")
m('VG1-tensor-check-rejects-tensors', 'C20', 'VG1', 'torch._unravel_empty', 'optree/integration/torch.py',
  """    if not torch.is_tensor(flat):
        raise ValueError(f'Expected a tensor to unravel, got {type(flat)!r}.')
    if flat.shape != (0,):""",
  """    if torch.is_tensor(flat):
        raise ValueError(f'Expected a tensor to unravel, got {type(flat)!r}.')
    if flat.shape != (0,):""")
m('E1-hash-guard-cleaned-for-runtime-errors-only', 'C15', 'E1', 'HashValue/cleanup-handler-catches-everything', 'src/treespec/hashing.cpp',
  """    } catch (...) {
        {
            const scoped_write_lock_guard lock{mutex};
            running.erase(ident);
        }
        std::rethrow_exception(std::current_exception());""",
  """    } catch (const std::runtime_error&) {
        {
            const scoped_write_lock_guard lock{mutex};
            running.erase(ident);
        }
        std::rethrow_exception(std::current_exception());""")
m('G3-failed-registration-rolled-back-blindly', 'C12', 'G3', 'register_pytree_node/no-blind-rollback', 'optree/registry.py',
  """        _C.register_node(
            cls,
            flatten_func,
            unflatten_func,
            path_entry_type,
            namespace,
        )
        _NODETYPE_REGISTRY[registration_key] = PyTreeNodeRegistryEntry(""",
  """        try:
            _C.register_node(
                cls,
                flatten_func,
                unflatten_func,
                path_entry_type,
                namespace,
            )
        except BaseException:
            try:
                _C.unregister_node(cls, namespace)
            except ValueError:
                pass
            raise
        _NODETYPE_REGISTRY[registration_key] = PyTreeNodeRegistryEntry(""")
m('W1-reorder-skipped-when-the-first-two-children-have-one-size', 'C07', 'W1', 'IsPrefix/reorder-whenever-the-key-orders-differ', 'src/treespec/richcomparison.cpp',
  """                if (expected_keys.not_equal(other_keys)) [[unlikely]] {""",
  """                if (expected_keys.not_equal(other_keys) &&
                    (b->arity < 2 || (b + 1)->num_nodes != (b + 1 + (b + 1)->num_nodes)->num_nodes))
                    [[unlikely]] {""")
m('T2-mixed-str-keys-sent-to-the-fallback-unsorted', 'C02', 'T2', 'TotalOrderSort/plain-sort-always-attempted', 'include/optree/pytypes.h',
  """        // Sort directly if possible.
""",
  """        if (PyList_GET_SIZE(list.ptr()) > 1 &&
            Py_TYPE(PyList_GET_ITEM(list.ptr(), 0)) != Py_TYPE(PyList_GET_ITEM(list.ptr(), 1))) {
            PyErr_SetString(PyExc_TypeError, "keys of different types");
            throw py::error_already_set();
        }
        // Sort directly if possible.
""")
m('NS1-unpickle-looks-the-type-up-globally-first', 'C11', 'NS1', 'FromPickleable/lambda', 'src/treespec/serialization.cpp',
  """                if (none_is_leaf) [[unlikely]] {
                    node.custom =
                        PyTreeTypeRegistry::Lookup<NONE_IS_LEAF>(t[4], registry_namespace);
                } else [[likely]] {
                    node.custom =
                        PyTreeTypeRegistry::Lookup<NONE_IS_NODE>(t[4], registry_namespace);
                }""",
  """                const py::object cls = t[4];
                const auto lookup = [&cls, none_is_leaf](const std::string& ns) {
                    return none_is_leaf ? PyTreeTypeRegistry::Lookup<NONE_IS_LEAF>(cls, ns)
                                        : PyTreeTypeRegistry::Lookup<NONE_IS_NODE>(cls, ns);
                };
                node.custom = lookup("");
                if (node.custom == nullptr && !registry_namespace.empty()) {
                    node.custom = lookup(registry_namespace);
                }""")
