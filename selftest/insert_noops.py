"""Generated neutral edit: no-op statements everywhere.
Python: a `pass` at the start of every function body (after the docstring) and before every
`return` / `raise`; C++: `(void)0;` after every `{` that opens a function body, a case arm or a
compound statement following `)`.  Behaviour is unchanged; a rule that fires depends on a statement
being at a particular position (first, last, adjacent) rather than on what the code does."""
import ast
import os
import re
import sys


def python_noops(text):
    tree = ast.parse(text)
    n = 0

    def fix_body(body, is_func):
        nonlocal n
        out = []
        start = 0
        if is_func and body and isinstance(body[0], ast.Expr) and isinstance(body[0].value, ast.Constant) \
                and isinstance(body[0].value.value, str):
            out.append(body[0])
            start = 1
        if is_func:
            out.append(ast.Pass())
            n += 1
        for s in body[start:]:
            if isinstance(s, (ast.Return, ast.Raise)):
                out.append(ast.Pass())
                n += 1
            out.append(s)
        return out
    for node in ast.walk(tree):
        for field in ('body', 'orelse', 'finalbody'):
            b = getattr(node, field, None)
            if isinstance(b, list) and b and isinstance(b[0], ast.stmt):
                setattr(node, field, fix_body(b, field == 'body' and isinstance(
                    node, (ast.FunctionDef, ast.AsyncFunctionDef))))
        if isinstance(node, ast.Try):
            for h in node.handlers:
                h.body = fix_body(h.body, False)
    ast.fix_missing_locations(tree)
    return ast.unparse(tree) + '\n', n


def cxx_noops(text):
    """insert `(void)0;` after `) {`, `) const {`, `else {`, `case X: {`, `default: {`, `try {`"""
    out = []
    n = 0
    i = 0
    pat = re.compile(r'(\)\s*(?:const\s*)?(?:noexcept\s*)?(?:\[\[\w+\]\]\s*)?\{|\belse\s*(?:\[\[\w+\]\]\s*)?\{|'
                     r'\b(?:case\s+[\w:]+|default)\s*:\s*\{|\btry\s*\{)[ \t]*\n')
    in_block = False
    for m in pat.finditer(text):
        head = text[i:m.end()]
        out.append(head)
        i = m.end()
        # not inside a raw class/struct/namespace/enum/initializer context: the patterns above only
        # match statement contexts, except `) {` of a lambda inside an initializer - still a body
        line_start = text.rfind('\n', 0, m.start()) + 1
        if text[line_start:m.start()].lstrip().startswith('#'):
            continue
        out.append('(void)0;\n')
        n += 1
    out.append(text[i:])
    return ''.join(out), n


def main(repo):
    import glob
    tot_p = tot_c = 0
    for p in glob.glob(os.path.join(repo, 'optree', '**', '*.py'), recursive=True):
        out, n = python_noops(open(p).read())
        tot_p += n
        open(p, 'w').write(out)
    for pat in ('src/*.cpp', 'src/treespec/*.cpp', 'include/optree/*.h'):
        for p in glob.glob(os.path.join(repo, pat)):
            out, n = cxx_noops(open(p).read())
            tot_c += n
            open(p, 'w').write(out)
    print('%d python no-ops, %d c++ no-ops' % (tot_p, tot_c))


if __name__ == '__main__':
    main(os.path.abspath(sys.argv[1]))
