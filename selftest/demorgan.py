"""Generated neutral edit: conditions written through their negations.
C++    `if (A && B)`   -> `if (!(!(A) || !(B)))`      `if (A || B)` -> `if (!(!(A) && !(B)))`
       `if (x != y)`   -> `if (!(x == y))`            (conditions of plain `if` statements)
Python `if a and b:`   -> `if not (not a or not b):`  `a != b` -> `not a == b`,
       `a is not b` -> `not a is b`, `a not in b` -> `not a in b`   (tests of if / while / assert,
       conditional expressions and comprehension conditions)
Behaviour is unchanged (De Morgan; `!=` is `not ==` for the built-in and pybind11 types compared
in conditions here).  A rule that fires depends on how a negation is spelt.

usage: demorgan.py <repo copy> [py|cxx|both]"""
import ast
import glob
import os
import re
import sys

from invert_ifs import _match
from rename_cxx_locals import _scan
from split_conditions import _split_top


def _top_ne(cond):
    """position of the single top-level `!=` of a condition without && / || / ?:, else -1"""
    depth, i, hits = 0, 0, []
    while i < len(cond):
        j = _scan(cond, i)
        if j != i:
            i = j
            continue
        c = cond[i]
        if c in '([{':
            depth += 1
        elif c in ')]}':
            depth -= 1
        elif depth == 0 and cond.startswith('!=', i):
            hits.append(i)
            i += 2
            continue
        elif depth == 0 and c in '?':
            return -1
        i += 1
    return hits[0] if len(hits) == 1 else -1


def cxx_demorgan(text):
    out, pos, n_bool, n_ne = [], 0, 0, 0
    for m in re.finditer(r'\bif\s*\(', text):
        if m.start() < pos:
            continue
        before = text[:m.start()].rstrip()
        if before.endswith('#'):
            continue
        line_start = text.rfind('\n', 0, m.start()) + 1
        if text[line_start:m.start()].lstrip().startswith(('#', '//', '*')):
            continue
        po = m.end() - 1
        pc = _match(text, po, '(', ')')
        if pc < 0:
            continue
        cond = text[po + 1:pc - 1]
        if ';' in cond or re.search(r'(?<![=!<>+\-*/|&^%])=(?!=)', cond) or '\\\n' in cond:
            continue
        ors = _split_top(cond, '||')
        if ors is None:
            continue
        new = None
        if len(ors) > 1:
            new = '!(%s)' % ' && '.join('!(%s)' % p for p in ors)
            n_bool += 1
        else:
            ands = _split_top(cond, '&&')
            if ands is None:
                continue
            if len(ands) > 1:
                new = '!(%s)' % ' || '.join('!(%s)' % p for p in ands)
                n_bool += 1
            else:
                k = _top_ne(cond)
                if k >= 0:
                    new = '!(%s == %s)' % (cond[:k].strip(), cond[k + 2:].strip())
                    n_ne += 1
        if new is None:
            continue
        out.append(text[pos:po + 1])
        out.append(new)
        pos = pc - 1
    out.append(text[pos:])
    return ''.join(out), n_bool, n_ne


class _PyDM(ast.NodeTransformer):
    def __init__(self):
        self.n_bool = self.n_cmp = 0

    def _test(self, t):
        if isinstance(t, ast.BoolOp):
            self.n_bool += 1
            inv = ast.Or() if isinstance(t.op, ast.And) else ast.And()
            return ast.UnaryOp(op=ast.Not(), operand=ast.BoolOp(
                op=inv, values=[ast.UnaryOp(op=ast.Not(), operand=self._test(v)) for v in t.values]))
        if isinstance(t, ast.Compare) and len(t.ops) == 1:
            flip = {ast.NotEq: ast.Eq, ast.IsNot: ast.Is, ast.NotIn: ast.In}.get(type(t.ops[0]))
            if flip is not None:
                self.n_cmp += 1
                return ast.UnaryOp(op=ast.Not(), operand=ast.Compare(left=t.left, ops=[flip()],
                                                                   comparators=t.comparators))
        return t

    def visit_If(self, node):
        self.generic_visit(node)
        node.test = self._test(node.test)
        return node

    def visit_While(self, node):
        self.generic_visit(node)
        node.test = self._test(node.test)
        return node

    def visit_IfExp(self, node):
        self.generic_visit(node)
        node.test = self._test(node.test)
        return node

    def visit_comprehension(self, node):
        self.generic_visit(node)
        node.ifs = [self._test(t) for t in node.ifs]
        return node


def python_demorgan(text):
    tree = ast.parse(text)
    tr = _PyDM()
    tree = tr.visit(tree)
    ast.fix_missing_locations(tree)
    return ast.unparse(tree) + '\n', tr.n_bool, tr.n_cmp


def main(repo, lang='both'):
    c = [0, 0, 0, 0]
    if lang in ('both', 'py'):
        for p in glob.glob(os.path.join(repo, 'optree', '**', '*.py'), recursive=True):
            out, a, b = python_demorgan(open(p).read())
            c[0] += a
            c[1] += b
            open(p, 'w').write(out)
    if lang in ('both', 'cxx'):
        for pat in ('src/*.cpp', 'src/treespec/*.cpp', 'include/optree/*.h'):
            for p in glob.glob(os.path.join(repo, pat)):
                out, a, b = cxx_demorgan(open(p).read())
                c[2] += a
                c[3] += b
                open(p, 'w').write(out)
    print('python: %d boolean tests, %d comparisons negated twice; c++: %d boolean tests, %d `!=`' % tuple(c))


if __name__ == '__main__':
    main(os.path.abspath(sys.argv[1]), sys.argv[2] if len(sys.argv) > 2 else 'both')
