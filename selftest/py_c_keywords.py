"""Generated neutral edit (Python): every call of an engine function `_C.<name>(...)` passes the
arguments that may be passed by keyword *as* keywords:
    _C.flatten(tree, is_leaf, none_is_leaf, namespace)
 -> _C.flatten(tree, leaf_predicate=is_leaf, none_is_leaf=none_is_leaf, namespace=namespace)
The parameter names are read off the signatures the built extension documents (pybind11 puts them
in the first line of __doc__; parameters before `/` stay positional).  Behaviour is unchanged.  A
rule that fires matched an argument by its position although the binding gives it a name.

usage: py_c_keywords.py <repo copy>"""
import ast
import glob
import os
import re
import subprocess
import sys

PROBE = r'''
import json, re, sys
sys.path.insert(0, %r)
import optree._C as C
out = {}
for n in dir(C):
    o = getattr(C, n)
    d = getattr(o, '__doc__', None) or ''
    if isinstance(o, type):
        d = getattr(o.__init__, '__doc__', None) or ''
    first = d.splitlines()[0] if d else ''
    m = re.match(r'(\w+)\((.*)\)\s*->', first)
    if not m:
        continue
    params, depth, cur = [], 0, ''
    for ch in m.group(2):
        if ch in '[(':
            depth += 1
        elif ch in '])':
            depth -= 1
        if ch == ',' and depth == 0:
            params.append(cur.strip()); cur = ''
        else:
            cur += ch
    if cur.strip():
        params.append(cur.strip())
    names = [p.split(':')[0].strip() for p in params]
    if isinstance(o, type) and names and names[0] == 'self':
        names = names[1:]
    out[n] = names
print(json.dumps(out))
'''


def signatures():
    import json
    r = subprocess.run(['/venv/bin/python', '-c', PROBE % '/repo'], capture_output=True, text=True, cwd='/repo')
    return json.loads(r.stdout)


class _Kw(ast.NodeTransformer):
    def __init__(self, sigs):
        self.sigs = sigs
        self.n = 0

    def visit_Call(self, node):
        self.generic_visit(node)
        f = node.func
        if isinstance(f, ast.Attribute) and isinstance(f.value, ast.Name) and f.value.id == '_C' and \
                f.attr in self.sigs and not any(isinstance(a, ast.Starred) for a in node.args):
            names = self.sigs[f.attr]
            if '/' in names:
                npos = names.index('/')
                names = [x for x in names if x != '/']
            else:
                npos = 0
            if len(node.args) > npos and len(node.args) <= len(names):
                extra = node.args[npos:]
                kws = [ast.keyword(arg=names[npos + i], value=a) for i, a in enumerate(extra)]
                given = {k.arg for k in node.keywords}
                if not any(k.arg in given for k in kws):
                    node.args = node.args[:npos]
                    node.keywords = kws + node.keywords
                    self.n += 1
        return node


def main(repo):
    sigs = signatures()
    total = 0
    for p in glob.glob(os.path.join(repo, 'optree', '**', '*.py'), recursive=True):
        tree = ast.parse(open(p).read())
        tr = _Kw(sigs)
        tree = tr.visit(tree)
        ast.fix_missing_locations(tree)
        total += tr.n
        open(p, 'w').write(ast.unparse(tree) + '\n')
    print('%d engine calls rewritten with keywords (%d signatures)' % (total, len(sigs)))


if __name__ == '__main__':
    main(os.path.abspath(sys.argv[1]))
