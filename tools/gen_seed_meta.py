#!/usr/bin/env python3
"""Write seeded/<id>/meta.json from the agent's NOTES.md, the independent verification
(verify.json, written by tools/verify_seed.sh) and the detection matrix (seeded/RESULTS.json,
written by selftest/run_seeded.py)."""
import json
import os
import re

HERE = os.path.dirname(os.path.dirname(os.path.abspath(__file__)))
S = os.path.join(HERE, 'seeded')
res = {r['id']: r for r in json.load(open(os.path.join(S, 'RESULTS.json')))['results']}


def section(notes, pat):
    lines = notes.splitlines()
    for i, l in enumerate(lines):
        if re.search(pat, l, re.I):
            if l.startswith('#'):
                out = []
                for m in lines[i + 1:]:
                    if m.startswith('#'):
                        break
                    out.append(m)
                return ' '.join(' '.join(out).split())
            out = [re.sub(r'^.*?(?:' + pat + r')[^:]*:\W*', '', l, flags=re.I)]
            for m in lines[i + 1:]:
                if not m.strip() or m.startswith('#') or m.startswith('**'):
                    break
                out.append(m)
            return ' '.join(' '.join(out).split())
    return ''


for sid in sorted(os.listdir(S)):
    d = os.path.join(S, sid)
    if not os.path.exists(os.path.join(d, 'patch.diff')):
        continue
    notes = open(os.path.join(d, 'NOTES.md')).read() if os.path.exists(os.path.join(d, 'NOTES.md')) else ''
    ver = json.load(open(os.path.join(d, 'verify.json'))) if os.path.exists(os.path.join(d, 'verify.json')) else None
    files = re.findall(r'^\+\+\+ b/(\S+)', open(os.path.join(d, 'patch.diff')).read(), re.M)
    r = res.get(sid, {})
    meta = {
        'id': sid,
        'property': sid.split('-')[-1],
        'origin': 'written by a fresh sub-agent that was given only the property text and a scratch '
                  'worktree of /repo (nothing from /verif)',
        'files_changed': files,
        'clause_broken': section(notes, r'clause|what breaks')[:1200],
        'needs_to_manifest': section(notes, r'needed')[:1500],
        'demonstration': 'demo.py (run from the root of a tree with the extension rebuilt): exit 0 '
                         'without the change, exit 1 with it',
        'what_was_run': {
            'independent_verification': 'tools/verify_seed.sh: fresh worktree of /repo HEAD, rebuild, '
                                        'demo.py without and with patch.diff, then the full pinned test '
                                        'suite with the patch applied',
            'result': ver,
            'static_checks': 'selftest/run_seeded.py: patch applied to a scratch copy, all 20 quick checks',
        },
        'detected_by': r.get('detected_by', {}),
        'own_property_check_reports_it': r.get('ok'),
    }
    json.dump(meta, open(os.path.join(d, 'meta.json'), 'w'), indent=1)
    print(sid, 'verified' if ver and ver.get('demo_with_change', {}).get('exit') == 1 else 'NOT YET VERIFIED',
          '| needs:', meta['needs_to_manifest'][:80])
