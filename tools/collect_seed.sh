#!/bin/sh
# collect a seeded change from an agent's worktree: collect_seed.sh <wt id> <property>
id=$1; prop=$2; d=/verif/seeded/$id-$prop; mkdir -p $d
(cd /tmp/wt/$id && git diff -- src include optree > $d/patch.diff)
cp /tmp/wt/$id/_seed/demo.py /tmp/wt/$id/_seed/NOTES.md $d/ 2>/dev/null
wc -l $d/patch.diff
