#!/bin/sh
# run a command with OPTREE_REPO pointing at a scratch copy of /repo with a seed's patch applied
# usage: with_seed.sh <seed dir> <command...>
S=$(cd "$1" && pwd); shift
B=$(mktemp -d /tmp/optree-seedtry.XXXXXX)
trap 'rm -rf "$B"' EXIT
rsync -a --exclude .git --exclude '*.so' --exclude __pycache__ --exclude tests --exclude docs /repo/ $B/repo/
(cd $B/repo && patch -p1 -s < $S/patch.diff) || exit 3
cd /verif
OPTREE_REPO=$B/repo OPTREE_VERIF_EVIDENCE=$B/ev OPTREE_VERIF_CACHE=/tmp/optree-seed-cache OPTREE_VERIF_CACHE_KEEP=100 "$@"
