#!/bin/sh
# apply a seeded patch to a scratch copy of /repo and run all 20 quick checks against it
# usage: try_seed.sh <seed dir>
set -e
S=$(cd "$1" && pwd)
B=$(mktemp -d /tmp/optree-seedtry.XXXXXX)
trap 'rm -rf "$B"' EXIT
rsync -a --exclude .git --exclude '*.so' --exclude __pycache__ --exclude tests --exclude docs /repo/ $B/repo/
(cd $B/repo && patch -p1 -s < $S/patch.diff)
cd /verif
for i in 01 02 03 04 05 06 07 08 09 10 11 12 13 14 15 16 17 18 19 20; do
  out=$(OPTREE_REPO=$B/repo OPTREE_VERIF_EVIDENCE=$B/ev OPTREE_VERIF_CACHE=/tmp/optree-seed-cache OPTREE_VERIF_CACHE_KEEP=100 ./check C$i 2>&1) && rc=0 || rc=$?
  if [ $rc -ne 0 ]; then echo "C$i rc=$rc"; echo "$out" | grep -E "^  rule|^ANALYSIS" | cut -c1-330 | sort -u; fi
done
echo "done $(basename $S)"
