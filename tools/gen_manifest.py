#!/usr/bin/env python3
"""Refresh the rule lists quoted in MANIFEST.json from sa/proptable.py (the rest of the manifest
is hand-written and kept as is).  Run from /verif: /venv/bin/python tools/gen_manifest.py"""
import json
import os
import re
import sys

HERE = os.path.dirname(os.path.dirname(os.path.abspath(__file__)))
sys.path.insert(0, HERE)
from sa import proptable  # noqa: E402,F401
from sa.properties import PROPERTIES  # noqa: E402

path = os.path.join(HERE, 'MANIFEST.json')
m = json.load(open(path))
for c in m['checks']:
    p = PROPERTIES[c['property_id']]
    rules = ', '.join(p['rules'])
    if p['thorough_rules']:
        rules += ' (thorough tier adds %s)' % ', '.join(p['thorough_rules'])
    t = c['level_claimed']['text']
    t2 = re.sub(r'by rules .*? over the clang-14', 'by rules %s over the clang-14' % rules, t)
    assert 'by rules' in t2, c['property_id']
    c['level_claimed']['text'] = t2
json.dump(m, open(path, 'w'), indent=1)
open(path, 'a').write('\n')
print('updated', len(m['checks']), 'checks')
