"""print a python file with docstrings and comment-only lines removed (reading aid)"""
import ast, sys
src = open(sys.argv[1]).read()
tree = ast.parse(src)
skip = set()
for n in ast.walk(tree):
    if isinstance(n, (ast.FunctionDef, ast.ClassDef, ast.AsyncFunctionDef, ast.Module)):
        b = n.body
        if b and isinstance(b[0], ast.Expr) and isinstance(b[0].value, ast.Constant) and isinstance(b[0].value.value, str):
            for l in range(b[0].lineno, b[0].end_lineno + 1):
                skip.add(l)
for i, line in enumerate(src.splitlines(), 1):
    if i in skip or not line.strip() or line.strip().startswith('#'):
        continue
    print('%4d %s' % (i, line))
