#!/bin/sh
# Rebuild the optree extension from a source tree with plain g++ (cmake cannot find pybind11
# offline).  usage: build_ext.sh <repo dir> [output .so]
set -e
REPO=${1:-/repo}
OUT=${2:-$REPO/optree/_C.cpython-312-x86_64-linux-gnu.so}
B=$(mktemp -d /tmp/optree-build.XXXXXX)
trap 'rm -rf "$B"' EXIT
PFX=$(printf '%s/' "$REPO" | wc -c)
FLAGS="-O2 -std=c++20 -fPIC -fvisibility=hidden -w -I$REPO/include -I/venv/lib/python3.12/site-packages/torch/include -I/root/.pyenv/versions/3.12.1/include/python3.12 -DSOURCE_PATH_PREFIX_SIZE=$PFX"
cd "$REPO"
pids=""
for f in $(cd "$REPO" && find src -name '*.cpp'); do
  o="$B/$(echo $f | tr '/' '_').o"
  g++ $FLAGS -c "$REPO/$f" -o "$o" &
  pids="$pids $!"
done
for p in $pids; do wait $p; done
g++ -shared -o "$B/_C.so" "$B"/*.o
mv "$B/_C.so" "$OUT"
echo "built $OUT"
