#!/usr/bin/env python3
"""Write the task file for a seeding sub-agent: make_seed_prompt.py <id> <Cnn> [extra hint line]
-> /tmp/wt/prompt_<id>.txt (the agent gets only the property text and its own worktree /tmp/wt/<id>)."""
import json
import os
import sys

HERE = os.path.dirname(os.path.abspath(__file__))
sid, pid = sys.argv[1], sys.argv[2]
hint = sys.argv[3] if len(sys.argv) > 3 else ''
prop = None
for line in open(os.path.join(os.path.dirname(HERE), 'properties.jsonl')):
    p = json.loads(line)
    if p.get('id') == pid:
        prop = p
assert prop, pid
keys = [('title', 'PROPERTY %s: ' % pid), ('statement', 'STATEMENT: '), ('quantifier', 'QUANTIFIED OVER: '),
        ('why_tests_cant', 'WHY THE TEST SUITE CANNOT SETTLE IT: ')]
parts = []
for k, label in keys:
    v = prop.get(k)
    if v:
        if isinstance(v, dict):
            v = v.get('text') or json.dumps(v)
        parts.append(label + (v if isinstance(v, str) else '; '.join(map(str, v))))
if len(parts) < 2:
    parts = ['PROPERTY %s' % pid, json.dumps({k: v for k, v in prop.items() if k not in ('anchors',)}, indent=1)]
t = open(os.path.join(HERE, 'seed_prompt_template.txt')).read()
t = t.replace('__PROP__', '\n\n'.join(parts)).replace('__ID__', sid)
if hint:
    t = t.replace('* Do NOT edit tests,', '* %s\n* Do NOT edit tests,' % hint)
os.makedirs('/tmp/wt', exist_ok=True)
open('/tmp/wt/prompt_%s.txt' % sid, 'w').write(t)
print('/tmp/wt/prompt_%s.txt' % sid)
