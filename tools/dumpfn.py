"""dump the IR of a function: tools/dumpfn.py <suffix> [targs-substring]"""
import sys
sys.path.insert(0, '/verif')
from sa.cxx_frontend import load_program
p = load_program()
name = sys.argv[1]
sub = sys.argv[2] if len(sys.argv) > 2 else None
maxd = int(sys.argv[3]) if len(sys.argv) > 3 else 99
def dump(n, ind=0):
    if n is None:
        print('  ' * ind + '<null>'); return
    bits = [n.kind]
    if n.name: bits.append('name=' + str(n.name))
    if n.op: bits.append('op=' + n.op)
    if n.ref: bits.append('ref=%s(%s)' % (n.ref.get('name'), n.ref.get('kind')))
    if n.value is not None: bits.append('val=%r' % (n.value,))
    if n.type: bits.append('type=' + n.type[:60])
    if n.x: bits.append('x=' + str({k: v for k, v in n.x.items() if k not in ('desugared',)})[:100])
    print('  ' * ind + ' '.join(bits) + '  @%s' % n.line)
    if ind < maxd:
        for k in n.kids: dump(k, ind + 1)
for f in p.by_suffix(name):
    if f.dependent: continue
    if sub and sub not in ','.join(f.targs): continue
    print('=====', f.label, f.loc, f.sig)
    for i in f.inits: dump(i, 1)
    dump(f.body, 1)
