#!/bin/sh
# run every property check, print one line each
cd /verif
for i in 01 02 03 04 05 06 07 08 09 10 11 12 13 14 15 16 17 18 19 20; do
  out=$(./check C$i --tier ${1:-quick} 2>&1); rc=$?
  echo "rc=$rc $(echo "$out" | tail -1)"
  echo "$out" | grep -E "^ANALYSIS-ERROR|^  rule" | cut -c1-160 | sort -u | sed 's/^/      /'
done
