#!/venv/bin/python
"""ad-hoc probe: apply one textual edit to a scratch copy of /repo and run the quick checks.
usage: try_edit.py <file> <old> <new> [Cnn ...]     (old must occur exactly once; \\n is a newline)"""
import os, shutil, subprocess, sys, tempfile
VERIF = os.path.dirname(os.path.dirname(os.path.abspath(__file__)))
f, old, new = sys.argv[1:4]
old = old.replace('\\n', '\n'); new = new.replace('\\n', '\n')
props = sys.argv[4:] or ['C%02d' % i for i in range(1, 21)]
b = tempfile.mkdtemp(prefix='optree-edittry.')
try:
    subprocess.run(['rsync', '-a', '--exclude', '.git', '--exclude', '*.so', '--exclude', '__pycache__',
                    '--exclude', 'tests', '--exclude', 'docs', '/repo/', b + '/repo/'], check=True)
    p = os.path.join(b, 'repo', f)
    s = open(p).read()
    if s.count(old) != 1:
        sys.exit('pattern occurs %d times' % s.count(old))
    open(p, 'w').write(s.replace(old, new))
    env = dict(os.environ, OPTREE_REPO=b + '/repo', OPTREE_VERIF_EVIDENCE=b + '/ev',
               OPTREE_VERIF_CACHE='/tmp/optree-seed-cache', OPTREE_VERIF_CACHE_KEEP='100')
    for pr in props:
        r = subprocess.run([os.path.join(VERIF, 'check'), pr], capture_output=True, text=True, env=env, cwd=VERIF)
        if r.returncode:
            print('%s rc=%d' % (pr, r.returncode))
            for l in sorted({l[:300] for l in (r.stdout + r.stderr).splitlines()
                             if l.startswith('  rule') or l.startswith('ANALYSIS')}):
                print(l)
    print('done')
finally:
    shutil.rmtree(b, ignore_errors=True)
