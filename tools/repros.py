"""Concrete reproductions of the defects the static rules expose (confirmation only - the
verdicts come from the rules).  Run with /venv/bin/python; each case runs in a subprocess because
several of them crash the interpreter on the unfixed tree.  Prints one line per case:
   <id> OK        the defect does not manifest
   <id> DEFECT    the defect manifests (detail follows)
"""
import subprocess
import sys
import textwrap

CASES = {}


def case(cid):
    def deco(fn):
        CASES[cid] = fn
        return fn
    return deco


PRELUDE = """
import sys, collections, warnings, pickle
sys.path.insert(0, %r)
import optree
from collections import OrderedDict, defaultdict, deque
def ok(): print('OK'); sys.exit(0)
def bad(msg): print('DEFECT', msg); sys.exit(0)
"""

CODE = {
    'H1-hash-namespace': """
with optree.dict_insertion_ordered(True, namespace='ns'):
    a = optree.tree_structure({'a': 1})
    b = optree.tree_structure({'a': 1}, namespace='ns')
    if a == b and hash(a) != hash(b): bad('a == b but hashes differ; namespaces %r %r' % (a.namespace, b.namespace))
ok()
""",
    'M4-broadcast-entries': """
class T:
    def __init__(s, **kw): s.kw = kw
optree.register_pytree_node(T, lambda t: (tuple(t.kw.values()), tuple(t.kw), tuple(t.kw)), lambda m, c: T(**dict(zip(m, c))), namespace='m4')
a = optree.tree_structure(T(x=1, y=(1, 2)), namespace='m4')
b = optree.tree_structure(T(x=(3, 4), y=5), namespace='m4')
r = a.broadcast_to_common_suffix(b)
p = r.paths()
if p[0][0] != 'x': bad('paths of the broadcast result %r' % (p,))
ok()
""",
    'T1-fields-tuple-subclass': """
from optree.typing import is_namedtuple_class
class MyTuple(tuple): pass
class Fake(tuple):
    _fields = MyTuple(('a', 'b'))
    _make = classmethod(lambda cls, it: cls(it))
    def _asdict(self): return {}
py = is_namedtuple_class.__python_implementation__(Fake)
cx = is_namedtuple_class.__cxx_implementation__(Fake)
if py != cx: bad('python twin says %r, engine says %r' % (py, cx))
ok()
""",
    'T2-sort-last-resort': """
class C:
    def __init__(s, v): s.v = v
    def __hash__(s): return hash(('C', s.v))
    def __eq__(s, o): return isinstance(o, C) and s.v == o.v
    def __repr__(s): return 'C%d' % s.v
d = {}
keys = [1, 3, 2, C(1), C(2)]
keys = [3, C(1), 1, C(2), 2]
for k in keys: d[k] = 0
leaves_keys = optree.tree_structure(d).entries()
from optree.utils import total_order_sorted
tw = total_order_sorted(d)
if list(leaves_keys) != list(tw): bad('engine key order %r, total_order_sorted %r, insertion %r' % (leaves_keys, tw, list(d)))
ok()
""",
    'M7-ordereddict-move-to-end': """
od = OrderedDict([('a', 1), ('b', 2), ('c', 3)])
od.move_to_end('a')
leaves, spec = optree.tree_flatten(od)
if leaves != [2, 3, 1]: bad('leaves %r for logical order %r' % (leaves, list(od)))
back = optree.tree_unflatten(spec, leaves)
if list(back.items()) != list(od.items()): bad('round trip %r' % (back,))
if list(optree.tree_iter(od)) != [2, 3, 1]: bad('tree_iter')
ok()
""",
    'P2-prefix-errors-sorted': """
try:
    errs = optree.prefix_errors({1: 0, 'a': 1}, {2: 0, 'b': 1})
except TypeError as e:
    bad('TypeError: %s' % e)
if not errs: bad('no errors reported')
ok()
""",
    'K6-listing': """
class T: pass
f = lambda t: ((), None)
u = lambda m, c: T()
f2 = lambda t: ((), None)
optree.register_pytree_node(T, f, u, namespace='k6ns')
optree.register_pytree_node(T, f2, u, namespace=optree.registry.__GLOBAL_NAMESPACE)
lst = optree.register_pytree_node.get(namespace='k6ns')
one = optree.register_pytree_node.get(T, namespace='k6ns')
if lst[T] is not one: bad('listing gives namespace %r, per-class lookup %r' % (lst[T].namespace, one.namespace))
ok()
""",
    'DC5-make-dataclass': """
import optree.dataclasses as odc
C = odc.make_dataclass('C', [('x', int), ('y', int, odc.field(default=0, pytree_node=False)), ('z', int, odc.field(default=5, init=False, pytree_node=False))], namespace='dc5')
c = C(1, 2)
leaves, spec = optree.tree_flatten(c, namespace='dc5')
if leaves != [1]: bad('leaves %r' % (leaves,))
try:
    back = optree.tree_unflatten(spec, leaves)
except TypeError as e:
    bad('unflatten: %s' % e)
ok()
""",
    'A5-failed-broadcast-mutates': """
a = optree.tree_structure(OrderedDict([('a', 1), ('c', 2)]))
b = optree.tree_structure(OrderedDict([('b', 1), ('a', (2, 3))]))
before = repr(b)
try:
    a.broadcast_to_common_suffix(b)
except ValueError:
    pass
if repr(b) != before: bad('operand changed from %s to %s' % (before, repr(b)))
ok()
""",
    'P1-broadcast-custom-registration': """
class T:
    def __init__(s, *c): s.c = c
fl = lambda t: (t.c, None)
un = lambda m, c: T(*c)
optree.register_pytree_node(T, fl, un, namespace=optree.registry.__GLOBAL_NAMESPACE)
optree.register_pytree_node(T, fl, un, namespace='p1ns')
g = optree.tree_structure(T(1, 2))
n = optree.tree_structure(T(1, (2, 3)), namespace='p1ns')
try:
    r = g.broadcast_to_common_suffix(n)
except ValueError:
    ok()
if not (g.is_prefix(r) and n.is_prefix(r)): bad('broadcast result is not a suffix of both operands: g<=r %r n<=r %r' % (g.is_prefix(r), n.is_prefix(r)))
ok()
""",
    'I1-list-shrinks': """
lst = [1, 2, 3, 4, 5, 6, 7, 8]
tree = [lst]
def pred(x):
    if x == 1:
        del lst[1:]
    return False
try:
    optree.tree_leaves(tree, is_leaf=pred)
except Exception as e:
    print('OK', type(e).__name__); sys.exit(0)
ok()
""",
    'I2-dict-key-deleted': """
class D: pass
d = {'a': 1, 'b': 2, 'c': 3}
class Box:
    def __init__(s, x): s.x = x
def fl(b):
    d.pop('b', None); d.pop('c', None)
    return (b.x,), None
optree.register_pytree_node(Box, fl, lambda m, c: Box(*c), namespace='i2')
tree = {'a': Box(1), 'b': 2, 'c': 3}
d = tree
try:
    optree.tree_leaves(tree, namespace='i2')
except Exception as e:
    print('OK', type(e).__name__); sys.exit(0)
ok()
""",
    'I2-hash-raises': """
class K:
    n = 0
    def __hash__(s):
        K.n += 1
        if K.n >= 2: raise RuntimeError('hash failed')
        return 1
    def __eq__(s, o): return s is o
    def __lt__(s, o): return False
k = K()
try:
    tree = {k: 1}
    optree.tree_leaves(tree)
    K.n = 0
except RuntimeError:
    print('OK RuntimeError'); sys.exit(0)
ok()
""",
    'K9-deep-paths': """
s = optree.tree_structure([0])
for _ in range(16): s = s.compose(s)
for name in ('paths', 'accessors'):
    try:
        getattr(s, name)()
    except RecursionError:
        pass
try:
    s.broadcast_to_common_suffix(s)
except RecursionError:
    pass
ok()
""",
    'W1-isprefix-nested-permutation': """
p = OrderedDict(a=OrderedDict(x=0, y=0), b=0)
f = OrderedDict(b=0, a=OrderedDict(y=(0, 0), x=0))
sp, sf = optree.tree_structure(p), optree.tree_structure(f)
sp.flatten_up_to(f)
try:
    r = sp.is_prefix(sf)
except SystemError as e:
    bad('InternalError: %s' % str(e)[:80])
if not r: bad('is_prefix False although flatten_up_to accepts')
ok()
""",
    'G1-warning-as-error': """
from collections import namedtuple
P = namedtuple('P', 'a b')
warnings.simplefilter('error')
try:
    optree.register_pytree_node(P, lambda p: (tuple(p), None), lambda m, c: P(*c), namespace='g1')
except BaseException as e:
    warnings.simplefilter('default')
    eng = len(optree.tree_leaves(P(1, (2, 3)), namespace='g1'))
    mir = optree.register_pytree_node.get(P, namespace='g1')
    bad('%s raised; engine sees custom node: %s; mirror entry namespace: %r' % (type(e).__name__, eng == 2, getattr(mir, 'namespace', None)))
ok()
""",
    'S3-setstate': """
s = optree.tree_structure({'a': 1, 'b': 2})
st = s.__getstate__()
nodes = list(st[0]); root = list(nodes[-1]); root[2] = ['a']; nodes[-1] = tuple(root)
t = optree.PyTreeSpec.__new__(optree.PyTreeSpec)
try:
    t.__setstate__((tuple(nodes), st[1], st[2]))
except Exception as e:
    print('OK', type(e).__name__); sys.exit(0)
bad('malformed state accepted (keys shorter than arity)')
""",
    'R4-numpy-ravel-weak-scalar': """
import numpy as np
from optree.integration.numpy import tree_ravel
flat, unravel = tree_ravel([np.array([1, 2], dtype=np.int8), 300])
back = unravel(flat)
if int(back[1]) != 300 or flat.dtype == np.int8:
    bad('tree_ravel([int8 array, 300]) -> flat %s dtype %s, second leaf comes back as %s' % (flat, flat.dtype, back[1]))
ok()
""",
    'K9py-prefix-errors-deep': """
t = 0
for _ in range(999): t = [t]
optree.tree_leaves(t)
try:
    optree.prefix_errors(t, t)
except RecursionError:
    bad('RecursionError at depth 999 (< MAX_RECURSION_DEPTH)')
ok()
""",
}


def run(cid, repo):
    code = (PRELUDE % repo) + textwrap.dedent(CODE[cid])
    try:
        r = subprocess.run([sys.executable, '-c', code], capture_output=True, text=True, timeout=120)
    except subprocess.TimeoutExpired:
        return 'DEFECT timeout'
    if r.returncode != 0:
        tail = (r.stderr or '').strip().splitlines()[-1:] or ['']
        return 'DEFECT exit status %d %s' % (r.returncode, tail[0][:150])
    return (r.stdout.strip().splitlines() or ['?'])[-1]


if __name__ == '__main__':
    repo = '/repo'
    args = [a for a in sys.argv[1:]]
    if args and args[0].startswith('/'):
        repo = args.pop(0)
    ids = args or list(CODE)
    for cid in ids:
        print('%-36s %s' % (cid, run(cid, repo)))
