#!/usr/bin/env python3
"""Regenerate the generated tables of DESIGN.md (between <!-- BEGIN:x --> / <!-- END:x --> markers)
from selftest/last_run.json, seeded/RESULTS.json and seeded/*/meta.json."""
import json
import os
import re

HERE = os.path.dirname(os.path.dirname(os.path.abspath(__file__)))
D = os.path.join(HERE, 'DESIGN.md')
text = open(D).read()

# first-attempt outcome of each seeded change (recorded by hand when the change arrived: which
# rule had to be added or strengthened before the check of the seed's own property reported it)
FIRST = {
    's01-C01': 'caught', 's02-C02': 'caught', 's08-C11': 'caught',
    's03-C03': 'idiom alarm only -> M7 (py::dict iteration is PyDict_Next), K3/K4 made CFG-based',
    's04-C05': 'missed -> M7 on FlattenUpTo, K3/M7 added to C05/C07',
    's05-C06': 'missed -> new rule H4', 's06-C07': 'missed -> new rule P3',
    's07-C09': 'missed -> new rule P4', 's09-C12': 'missed -> K6 named-always-with-namespace',
    's10-C13': 'missed -> D1 restore-on-every-path',
    't01-C04': 'missed -> new rule N2', 't02-C08': 'missed -> new rule M5b',
    't03-C10': 'missed -> F6 namespace-of-both', 't04-C14': 'caught', 't05-C15': 'caught',
    't06-C16': 'caught by C03/C15 only -> K7 added to C16', 't07-C17': 'caught',
    't08-C18': 'missed -> new rule T3b', 't09-C19': 'caught', 't10-C20': 'missed -> new rule R4',
    'u01-C01': 'caught', 'u06-C11': 'caught', 'u09-C15': 'caught',
    'u02-C03': 'missed -> K7 entries-converted', 'u03-C05': 'caught by C07/C09 only -> P1 added to C05',
    'u04-C07': 'missed -> W1 reorder-places-every-child', 'u05-C09': 'missed -> P4 only-keyed-recursion',
    'u07-C12': 'missed -> new rule G6', 'u08-C14': 'caught by K1 in C01/C03/C08 only -> A3 every-kind',
    'u10-C16': 'missed -> I1 raw PyList_GET_ITEM sites',
    'w01-C02': 'caught', 'w02-C04': 'caught', 'w03-C06': 'caught', 'w05-C10': 'caught',
    'w08-C18': 'caught', 'w10-C20': 'caught', 'w06-C13': 'caught',
    'w04-C08': 'caught by C01/C02/C03/C05/C07 only -> K3/M7/M1 added to C08',
    'w07-C17': 'idiom alarm only (T3 weakref-in-region) -> T3 stores-the-answer',
    'w09-C19': 'missed -> DC3 flag-written-to-a-copy',
    'x01-C03': 'caught', 'x04-C07': 'caught', 'x05-C08': 'caught', 'x07-C12': 'caught', 'x08-C14': 'caught',
    'x02-C04': 'missed -> new rule N3 (positional entry -> name list, with the domain reason)',
    'x03-C05': 'caught by C07/C09 only -> P4 added to C05',
    'x06-C11': 'missed -> S1 unconditional positions',
    'x09-C15': 'idiom alarm only (M2 in C01: vectorcall spelling) -> E2 covers release() into raw slots and throw exits; descriptors recognise the C-API call spelling',
    'x10-C16': 'missed -> new rule I4 (non-induction index must be range-tested)',
    'y03-C06': 'caught', 'y05-C10': 'caught', 'y10-C20': 'caught',
    'y09-C19': 'analysis error only (anchor `for f in dataclasses.fields(cls)` wrapped in sorted()) -> DC1 declaration-order',
    'y04-C09': 'missed -> new rule F11 (two unconditional pairwise passes)',
    'y07-C17': 'caught by C12 only -> G3 added to C17',
    'y01-C01': 'caught', 'y02-C02': 'caught',
    'y06-C13': 'missed -> D2 mode-read-once',
    'y08-C18': 'missed -> new rule T7 (struct sequence field listing)',
    'z01-C04': 'caught', 'z02-C07': 'caught', 'z03-C08': 'caught', 'z05-C12': 'caught', 'z06-C14': 'caught',
    'z09-C17': 'caught', 'z10-C19': 'caught',
    'z04-C11': 'missed -> S1 payload-only-from-state',
    'z08-C16': 'missed -> new rule I5 (hand-driven iterator compared with end before every dereference)',
    'a01-C01': 'caught', 'a05-C06': 'caught', 'a07-C10': 'caught', 'a10-C20': 'caught',
    'a02-C02': 'missed -> guard-aware reverse events (K4) and T2 flag-honoured (an extra flag of the key sort is applied after every stage)',
    'a03-C03': 'missed (same change as a02, written independently) -> T2 flag-honoured',
    'a06-C09': 'missed -> P1 no-shortcut-round-the-kind-switch',
    'a09-C18': 'missed -> new rule T8 (field listings read the class, never the instance)',
    'a08-C13': 'missed -> D2 reads-the-callers-namespace (every mode read names the namespace parameter; the recorded flag is that read alone)',
    'a04-C05': 'missed -> W2 node-function-on-every-path (per kind, no way round the f_node call)',
    'b01-C04': 'caught', 'b02-C07': 'caught', 'b03-C08': 'caught', 'b05-C12': 'caught', 'b07-C15': 'caught',
    'b08-C16': 'caught', 'b09-C17': 'caught', 'b10-C19': 'caught',
    'c05-C05': 'caught', 'c09-C09': 'caught', 'c18-C18': 'caught', 'c20-C20': 'caught',
    'd05-C12': 'caught', 'd10-C19': 'caught',
    'd02-C07': 'missed -> P1 (Python half): the re-read of the full dict by the prefix keys is on every path that leaves the branch normally',
    'd08-C16': 'caught (the same change as b08, written independently)',
    'd03-C08': 'missed -> M5b namespace-of-every-treespec-met (every namespace read from another treespec flows, through the reconciling locals, into the result)',
    'd04-C11': 'missed -> S1 flags-only-from-state (FromPickleable writes none_is_leaf and namespace once each, from their state positions, and never touches them again)',
    'd01-C04': 'caught (M4); M8 raised a false alarm on it (counts written through an aggregate initialiser) - corrected, neutral edit cxx-compose-node-built-in-place added',
    'd07-C15': 'caught', 'd09-C17': 'caught',
    'd06-C14': 'caught',
    'e03-C03': 'caught', 'e06-C06': 'caught', 'e10-C10': 'caught', 'e18-C18': 'caught',
    'e01-C01': 'caught', 'e02-C02': 'caught (the reintroduction of defect 5)',
    'e20-C20': 'missed -> R4 promotes-the-recorded-dtypes; the extended rule then reported the same construct in the NumPy backend of the pinned tree: genuine defect 18, fixed in aeac884',
    'e09-C09': 'caught',
    'e05-C05': 'missed -> new rule L6 (no call-spanning scratch state: function-local statics are once-initialised values, locks or locked caches)',
    'e13-C13': 'caught',
    'f01-C04': 'caught', 'f02-C07': 'caught', 'f04-C11': 'caught', 'f05-C12': 'caught', 'f07-C15': 'caught', 'f09-C17': 'caught',
    'f03-C08': 'missed -> N2 returns-after-the-children (a return of the backwards walkers follows a loop over the children, or sits in the Leaf / None arm); N1 / N2 now also decide C08',
    'f06-C14': 'missed -> A1: the treespec\'s own members and locals that are also stored into a member are not fresh; no `mutable` data member in PyTreeSpec / Node',
    'f08-C16': 'missed by C16 (K3 reported it under C03) -> I1 raw-items: a raw item array taken from a sequence is not read across user code',
    'f10-C19': 'missed -> DC5 uses-the-class-the-stdlib-returns',
    'g01-C01': 'caught', 'g02-C02': 'caught', 'g03-C03': 'caught', 'g06-C06': 'caught (the same change as c06, written independently)',
    'h01-C04': 'caught', 'h02-C07': 'caught', 'h07-C15': 'caught', 'h08-C16': 'caught', 'h10-C19': 'caught',
    'h09-C17': 'caught (T3 stores-the-answer); I5 also fired, for a wrong reason - it matched the `it` of try_emplace to the `it` of a later find() by name - and now keys lookups by declaration',
    'h03-C08': 'caught (M1: the constructor stores no entries), but K3 / K7 / M1 also reported the behaviour-preserving half (a helper that returns (children, node_data) as a pair) -> the arm walker follows pair / structured-binding results of helpers, K7 reads the helper\'s use of the entries element',
    'h04-C11': 'caught (S1 no-cross: position 1 feeds node_data); S1 payload-only-from-state also reported the harmless `if (t[2].is_none()) node_data = py::none()` -> accepted when the test is on the field\'s own position',
    'h05-C12': 'idiom alarm only (D4 wanted the mode test on paths where the class is neither dict nor defaultdict) -> D4 follows the class tests; new rule G9 (no memo of lookup answers survives a registration: one-key invalidation of a memo, or a write to a registry member on the lookup path)',
    'h06-C14': 'missed -> new rule A8 (std::move only takes what the call owns: never a C++ object inside a Python object, a non-const reference parameter, a member of *this)',
    'i01-C01': 'caught (M7: the OrderedDict arm enumerates through PyDict_Next), next to M1 / M3 / K3 / N1 / D2 reports about the new helper with out-parameters, whose shape the arm walker does not follow',
    'i03-C03': 'caught', 'i05-C05': 'caught', 'i06-C06': 'caught', 'i09-C09': 'caught', 'i10-C10': 'caught', 'i18-C18': 'caught',
    'i02-C02': 'missed by C02 (L6 reported the thread_local memo in Lookup under C03 / C05 / C16 / C17) -> L6 and G9 now also decide C02, L6 also C12',
    'i13-C13': 'caught (D1 restore-on-every-path), but D1 would also have reported the harmless `if prev != mode:` guard -> D1 excuses the edges on which the saved flag equals the requested mode and adds switch-on-every-path; the seed is still reported because its second test (`is_dict_insertion_ordered(namespace) == mode`) skips the restore',
    'i20-C20': 'missed -> R4 every-dtype-takes-part (the n-ary promotion gets the whole tuple of recorded dtypes; a fold promotes on every iteration)',
    'j16-C16': 'caught',
    'j04-C04': 'caught (the same change as h01, written independently)', 'j07-C07': 'caught', 'j12-C12': 'caught', 'j14-C14': 'caught', 'j15-C15': 'caught', 'j17-C17': 'caught',
    'j08-C08': 'missed -> M5 derived-spec-through-a-factory: a non-static method that returns treespecs does not hand one out through a static factory that ignores the namespace it is given (Child() -> MakeLeaf)',
    'j11-C11': 'idiom alarm only (S1 lost track of position 4 because the lookup moved into a local lambda; S2 analysis error) -> NS1 follows local lambdas that take a namespace and hand it on (the call `lookup("")` is the report); S1 / S2 read through locals and local lambdas',
    'j19-C19': 'missed -> new rule CL1 (a nested function does not read a loop variable its enclosing function has finished with)',
    'k04-C04': 'caught (the same change as h01 / j04, written independently a third time)', 'k05-C05': 'caught', 'k08-C08': 'caught', 'k09-C09': 'caught',
    'k10-C10': 'caught', 'k12-C12': 'caught', 'k14-C14': 'caught (the same change as j14, written independently)', 'k19-C19': 'caught', 'k20-C20': 'caught',
    'k03-C03': 'missed -> new rule AL1 (all_leaves answers yes only after the last element and no exactly on the outcome "not a leaf"; is_leaf is the same decision for one object)',
    'l06-C06': 'caught', 'l01-C01': 'caught', 'l11-C11': 'caught', 'l13-C13': 'caught', 'l16-C16': 'caught', 'l17-C17': 'caught', 'l18-C18': 'caught',
    'l02-C02': 'missed -> T2 plain-sort-always-attempted (nothing in the first stage of the key sort throws, or sets a Python error of its own, before PyList_Sort has run)',
    'l07-C07': 'missed -> W1 reorder-whenever-the-key-orders-differ (from the "differ" outcome of the key-list comparison every path passes the loop with the placing copy)',
    'l15-C15': 'missed -> E1 cleanup-handler-catches-everything (the handler that cleans the guard set is `catch (...)`; a Python exception is not a std::runtime_error)',
    'm05-C05': 'caught', 'm03-C03': 'caught', 'm04-C04': 'caught (the same change as h01 / j04 / k04, a fourth time)', 'm08-C08': 'missed by C08 (M4 reported it under C04 / C09) -> M4 now also decides C08', 'm09-C09': 'caught', 'm10-C10': 'caught',
    'm14-C14': 'caught (the same change as j14 / k14)', 'm19-C19': 'caught', 'm20-C20': 'caught',
    'm12-C12': 'missed -> G3 no-blind-rollback (an exception handler round the engine call does not make the opposite engine call without a test of its own)',
    'g09-C09': 'caught', 'g10-C10': 'caught', 'g13-C13': 'caught', 'g18-C18': 'caught', 'g20-C20': 'caught',
    'g05-C05': 'analysis error only (five of the six edits are behaviour-preserving; F2 did not know the form) -> F2 reads `<leaves> if r is tree else treespec.flatten_up_to(r)` and reports the one that hands out `paths`',
    'c03-C03': 'missed by C03 (D2 reported it under C02 / C13) -> D2 now also decides C03',
    'c02-C02': 'missed by C02 (T3 reported it under C17 / C18) -> T1, T3, T3b now also decide C02',
    'c01-C01': 'missed by C01 (the same change as b10, written independently; DC1 reported it under C19) -> DC1 and DC4 now also decide C01',
    'c06-C06': 'missed -> new rule H5 (node metadata is compared by value, never by identity)',
    'c10-C10': 'analysis error only (F6 required a single return) -> F6 result-through-inner-treespec: every result of the transpose family is inner_treespec.unflatten(...)',
    'c13-C13': 'missed -> new rule D4 (registry.get asks about the mode of the namespace it was asked about, in both lookup forms)',
    'b04-C11': 'missed -> S1 one-state-per-node (one per-node tuple constructor, stored on every path through the loop, never from a memo shared between nodes)',
    'b06-C14': 'missed by C14 (P1 reported it under C05/C07/C09) -> new rules A6 (computed-key reads of a caller mapping only after a key-set check) and A7 (in-place mutation only of containers the call created)',
    'z07-C15': 'analysis error in C13 only (restore moved into a local helper) -> D1 looks through the helper, the statement CFG lets exceptions no handler matches escape `except Exception`, D1 added to C15',
}


def seeded_table():
    res = json.load(open(os.path.join(HERE, 'seeded', 'RESULTS.json')))['results']
    rows = ['| seed | property | file(s) changed | reported by the property\'s own check (rules) | also reported by | first attempt |',
            '|---|---|---|---|---|---|']
    for r in res:
        mp = os.path.join(HERE, 'seeded', r['id'], 'meta.json')
        meta = json.load(open(mp)) if os.path.exists(mp) else {}
        own = sorted({k.split(':')[0] for k in r.get('detected_by', {}).get(r['property'], [])})
        oth = ', '.join('%s(%s)' % (p, ','.join(sorted({k.split(':')[0] for k in v})))
                        for p, v in sorted(r.get('detected_by', {}).items()) if p != r['property'])
        rows.append('| %s | %s | %s | %s | %s | %s |' % (
            r['id'], r['property'], ', '.join(os.path.basename(f) for f in meta.get('files_changed', [])),
            ', '.join(own) if own else '**MISSED**', oth or '-', FIRST.get(r['id'], '?')))
    n = sum(bool(r.get('ok')) for r in res)
    rows.append('')
    rows.append('%d of %d seeded changes are reported by the check of their own property '
                '(`selftest/run_seeded.py`).' % (n, len(res)))
    return '\n'.join(rows)


def mutant_table():
    lr = json.load(open(os.path.join(HERE, 'selftest', 'last_run.json')))
    res = lr['results']
    by = {}
    for r in res:
        by.setdefault(r.get('rule', '?'), []).append(r)
    rows = ['| rule | mutants | detected |', '|---|---|---|']
    for k in sorted(by):
        rows.append('| %s | %s | %d/%d |' % (k, ', '.join(x['id'] for x in by[k]),
                                             sum(bool(x['ok']) for x in by[k]), len(by[k])))
    rows.append('')
    rows.append('%d of %d mutants detected; unmodified copy silent on all 20 properties: %s '
                '(`selftest/run.py`).' % (sum(bool(r['ok']) for r in res), len(res), lr.get('clean_silent')))
    return '\n'.join(rows)


def proprules_table():
    import sys
    sys.path.insert(0, HERE)
    from sa import proptable  # noqa: F401
    from sa.properties import PROPERTIES
    rows = ['| property | quick rules | thorough adds |', '|---|---|---|']
    for pid in sorted(PROPERTIES):
        p = PROPERTIES[pid]
        rows.append('| %s | %s | %s |' % (pid, ' '.join(p['rules']), ' '.join(p['thorough_rules']) or
                                          '(same rules on CPython 3.11 / 3.12 / 3.13 / 3.13t)'))
    return '\n'.join(rows)


for tag, fn in (('SEEDED', seeded_table), ('MUTANTS', mutant_table), ('PROPRULES', proprules_table)):
    a, b = '<!-- BEGIN:%s -->' % tag, '<!-- END:%s -->' % tag
    if a in text and b in text:
        text = text[:text.index(a) + len(a)] + '\n' + fn() + '\n' + text[text.index(b):]
open(D, 'w').write(text)
print('tables regenerated')
