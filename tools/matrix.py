import sys; sys.path.insert(0,'/verif')
from sa.cxx_frontend import load_program
from sa.descriptors import arm_descriptors
p=load_program()
names = sys.argv[1:] or ['PyTreeSpec::FlattenIntoImpl','PyTreeSpec::FlattenIntoWithPathImpl','PyTreeIter::NextImpl','PyTreeSpec::MakeFromCollectionImpl','PyTreeSpec::FlattenUpTo']
for nm in names:
    f=[f for f in p.by_suffix(nm) if not f.dependent]
    f=sorted(f,key=lambda f:f.targs)[-1] if len(f)>1 else f[0]
    print('=====',f.label)
    d=arm_descriptors(p,f)
    for k,desc in d.items():
        print(' ',k)
        for kk,v in desc.summary().items(): print('     ',kk,':',v)
