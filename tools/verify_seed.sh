#!/bin/sh
# Independent confirmation of a seeded change: fresh worktree of /repo HEAD, demo passes without
# the patch, fails with it, and the full test suite passes with it.  Writes <seed>/verify.json.
# usage: verify_seed.sh <seed dir>
S=$(cd "$1" && pwd)
ID=$(basename $S)
WT=/tmp/wt/v-$ID
rm -rf $WT; git -C /repo worktree prune
git -C /repo worktree add --detach $WT HEAD >/dev/null 2>&1 || exit 3
cleanup() { git -C /repo worktree remove --force $WT >/dev/null 2>&1; rm -rf $WT; }
trap cleanup EXIT
mkdir -p $WT/_seed && cp $S/demo.py $WT/_seed/
/verif/tools/build_ext.sh $WT >/dev/null 2>&1 || { echo "{\"id\": \"$ID\", \"error\": \"baseline build failed\"}" > $S/verify.json; exit 1; }
(cd $WT && timeout 900 /venv/bin/python _seed/demo.py > $WT/_seed/out_clean.txt 2>&1); RC_CLEAN=$?
(cd $WT && git apply $S/patch.diff) || { echo "{\"id\": \"$ID\", \"error\": \"patch does not apply\"}" > $S/verify.json; exit 1; }
if grep -q '^+++ b/\(src\|include\)/' $S/patch.diff; then
  /verif/tools/build_ext.sh $WT >/dev/null 2>&1 || { echo "{\"id\": \"$ID\", \"error\": \"build with patch failed\"}" > $S/verify.json; exit 1; }
fi
(cd $WT && timeout 900 /venv/bin/python _seed/demo.py > $WT/_seed/out_patched.txt 2>&1); RC_PATCHED=$?
SUITE=$(cd $WT && /venv/bin/python -m pytest -q -p no:cacheprovider --timeout=900 -x 2>&1 | grep -E "^[0-9]+ (passed|failed)|passed in|failed in|error" | tail -1)
CLEAN_TAIL=$(tail -1 $WT/_seed/out_clean.txt | cut -c1-200 | tr '"\\' "' ")
PATCHED_TAIL=$(grep -m1 -i "violat\|fail\|error\|mismatch" $WT/_seed/out_patched.txt | cut -c1-200 | tr '"\\' "' ")
cat > $S/verify.json <<EOT
{"id": "$ID", "repo_head": "$(git -C /repo rev-parse --short HEAD)",
 "demo_without_change": {"exit": $RC_CLEAN, "last_line": "$CLEAN_TAIL"},
 "demo_with_change": {"exit": $RC_PATCHED, "first_failure_line": "$PATCHED_TAIL"},
 "test_suite_with_change": "$SUITE"}
EOT
cat $S/verify.json
