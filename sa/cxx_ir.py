"""Simplified, picklable IR for the clang JSON AST of the optree engine.

Only what the rules need is kept: a statement/expression tree per function *definition* located in
the repository (free functions, methods, constructors, lambdas, and every template instantiation
that carries a body), record layouts, enums, namespace/class scope variables.  Callee references
are kept by declaration id and resolved, per translation unit, to a program-wide key
(qualified name, signature, template arguments) so that header functions seen in several TUs are
one function and calls across TUs link up.
"""
from __future__ import annotations

import re

WRAPPERS = {
    'ImplicitCastExpr', 'ExprWithCleanups', 'MaterializeTemporaryExpr', 'CXXBindTemporaryExpr',
    'ParenExpr', 'ConstantExpr', 'AttributedStmt', 'FullExpr', 'CXXRewrittenBinaryOperator',
}
FUNC_KINDS = {'FunctionDecl', 'CXXMethodDecl', 'CXXConstructorDecl', 'CXXDestructorDecl',
              'CXXConversionDecl', 'CXXDeductionGuideDecl'}
CALL_KINDS = {'CallExpr', 'CXXMemberCallExpr', 'CXXOperatorCallExpr'}
CTOR_KINDS = {'CXXConstructExpr', 'CXXTemporaryObjectExpr'}
LOOP_KINDS = {'ForStmt', 'WhileStmt', 'DoStmt', 'CXXForRangeStmt'}


class Node:
    __slots__ = ('kind', 'id', 'name', 'type', 'ref', 'op', 'value', 'kids', 'file', 'line',
                 'col', 'x')

    def __init__(self, kind):
        self.kind = kind
        self.id = None
        self.name = None
        self.type = None
        self.ref = None     # dict(id=, kind=, name=, type=) of the referenced declaration
        self.op = None      # opcode for unary/binary operators
        self.value = None   # literal value
        self.kids = []      # children; None for a null slot
        self.file = None
        self.line = None
        self.col = None
        self.x = None       # misc attributes (dict) or None

    # ---- traversal helpers -------------------------------------------------------------
    def walk(self, into_lambdas=False):
        """Pre-order walk.  Lambda bodies are separate functions and are not entered."""
        stack = [self]
        while stack:
            n = stack.pop()
            yield n
            if n.kind == 'LambdaExpr' and not into_lambdas:
                continue
            for k in reversed(n.kids):
                if k is not None:
                    stack.append(k)

    def find(self, *kinds, into_lambdas=False):
        ks = set(kinds)
        return [n for n in self.walk(into_lambdas) if n.kind in ks]

    def get(self, key, default=None):
        return (self.x or {}).get(key, default)

    @property
    def loc(self):
        return '%s:%s' % (self.file, self.line)

    def __repr__(self):
        bits = [self.kind]
        if self.name:
            bits.append(self.name)
        if self.op:
            bits.append(self.op)
        if self.ref:
            bits.append('->' + str(self.ref.get('name')))
        if self.value is not None:
            bits.append(repr(self.value))
        return '<%s @%s>' % (' '.join(bits), self.line)

    # ---- expression helpers ------------------------------------------------------------
    def callee_name(self):
        """Name of the called function for call / construct nodes, else None."""
        if self.kind in CALL_KINDS:
            c = self.kids[0] if self.kids else None
            if c is None:
                return None
            if c.kind == 'MemberExpr':
                return c.name
            if c.kind == 'DeclRefExpr' and c.ref:
                return c.ref.get('name')
            if c.kind in ('UnresolvedLookupExpr', 'UnresolvedMemberExpr',
                          'CXXDependentScopeMemberExpr', 'DependentScopeDeclRefExpr'):
                return c.name
            return None
        if self.kind in CTOR_KINDS:
            return ctor_class(self.type)
        return None

    def callee_ref(self):
        if self.kind in CALL_KINDS and self.kids and self.kids[0] is not None:
            return self.kids[0].ref
        return None

    def call_args(self):
        if self.kind == 'CXXMemberCallExpr' or self.kind == 'CallExpr':
            return self.kids[1:]
        if self.kind == 'CXXOperatorCallExpr':
            return self.kids[1:]
        if self.kind in CTOR_KINDS:
            return list(self.kids)
        return []

    def call_base(self):
        """Object expression of a member call (None for free calls)."""
        if self.kind == 'CXXMemberCallExpr' and self.kids and self.kids[0] is not None \
                and self.kids[0].kind == 'MemberExpr' and self.kids[0].kids:
            return self.kids[0].kids[0]
        return None

    def text(self, depth=6):
        """Compact normalised rendering (used for keys and reports; not for decisions)."""
        return render(self, depth)


def ctor_class(qual):
    if not qual:
        return None
    q = qual.replace('const ', '').strip()
    q = re.sub(r'<.*>', '', q)
    return q.split('::')[-1].strip(' &*')


def render(n, depth=6):
    if n is None:
        return '_'
    if depth <= 0:
        return '…'
    k = n.kind
    d = depth - 1
    if k == 'DeclRefExpr':
        return (n.ref or {}).get('name') or '?'
    if k == 'MemberExpr':
        b = render(n.kids[0], d) if n.kids else 'this'
        return '%s.%s' % (b, n.name)
    if k == 'CXXThisExpr':
        return 'this'
    if k in ('IntegerLiteral', 'StringLiteral', 'CXXBoolLiteralExpr', 'FloatingLiteral',
             'CharacterLiteral'):
        return str(n.value)
    if k == 'CXXNullPtrLiteralExpr':
        return 'nullptr'
    if k == 'UnaryOperator':
        return '%s(%s)' % (n.op, render(n.kids[0], d))
    if k in ('BinaryOperator', 'CompoundAssignOperator'):
        return '(%s %s %s)' % (render(n.kids[0], d), n.op, render(n.kids[1], d))
    if k == 'CXXOperatorCallExpr':
        a = [render(x, d) for x in n.kids[1:]]
        nm = n.callee_name() or 'operator?'
        return '%s(%s)' % (nm, ', '.join(a))
    if k == 'CXXMemberCallExpr':
        return '%s(%s)' % (render(n.kids[0], d), ', '.join(render(x, d) for x in n.kids[1:]))
    if k == 'CallExpr':
        return '%s(%s)' % (render(n.kids[0], d), ', '.join(render(x, d) for x in n.kids[1:]))
    if k in CTOR_KINDS:
        return '%s{%s}' % (ctor_class(n.type), ', '.join(render(x, d) for x in n.kids))
    if k in ('CXXFunctionalCastExpr', 'CStyleCastExpr', 'CXXStaticCastExpr',
             'CXXReinterpretCastExpr', 'CXXConstCastExpr'):
        return 'cast<%s>(%s)' % (n.type, render(n.kids[0], d) if n.kids else '')
    if k == 'LambdaExpr':
        return 'lambda@%s' % n.line
    if k == 'ConditionalOperator':
        return '(%s ? %s : %s)' % tuple(render(x, d) for x in n.kids[:3])
    if k == 'ArraySubscriptExpr':
        return '%s[%s]' % (render(n.kids[0], d), render(n.kids[1], d))
    if k == 'CXXThrowExpr':
        return 'throw %s' % (render(n.kids[0], d) if n.kids and n.kids[0] else '')
    if k == 'InitListExpr':
        return '{%s}' % ', '.join(render(x, d) for x in n.kids)
    if k == 'CXXDefaultArgExpr':
        return 'default'
    return '%s(%s)' % (k, ', '.join(render(x, d) for x in n.kids))


class Func:
    __slots__ = ('key', 'id', 'name', 'qualname', 'sig', 'targs', 'params', 'body', 'file',
                 'line', 'is_lambda', 'parent', 'tu', 'record', 'is_const', 'is_static',
                 'dependent', 'inits', 'captures', 'is_inline', 'is_virtual', 'tparams')

    def __init__(self):
        self.key = None
        self.id = None
        self.name = None
        self.qualname = None
        self.sig = None
        self.targs = ()
        self.params = []     # (name, type, id)
        self.body = None     # Node (CompoundStmt / CXXTryStmt) or None for a declaration
        self.file = None
        self.line = None
        self.is_lambda = False
        self.parent = None   # key of enclosing function (lambdas)
        self.tu = None
        self.record = None   # qualified name of the class for methods
        self.is_const = False
        self.is_static = False
        self.dependent = False
        self.inits = []      # constructor initialisers (Node)
        self.captures = []
        self.is_inline = False
        self.is_virtual = False
        self.tparams = ()

    def targ(self, pname):
        """template argument bound to the parameter named pname (string) or None"""
        if pname in self.tparams:
            i = self.tparams.index(pname)
            if i < len(self.targs):
                return self.targs[i]
        return None

    @property
    def label(self):
        t = ('<%s>' % ','.join(self.targs)) if self.targs else ''
        return '%s%s' % (self.qualname, t)

    @property
    def loc(self):
        return '%s:%s' % (self.file, self.line)

    def __repr__(self):
        return '<Func %s @%s>' % (self.label, self.loc)


class Record:
    __slots__ = ('qualname', 'id', 'fields', 'file', 'line', 'bases', 'methods', 'kind',
                 'static_vars', 'mutable_fields')

    def __init__(self):
        self.qualname = None
        self.id = None
        self.fields = []      # (name, type, has_init)
        self.file = None
        self.line = None
        self.bases = []
        self.methods = []     # (name, sig, is_const, is_static, access)
        self.kind = None
        self.static_vars = []  # (name, type)
        self.mutable_fields = []   # names of fields declared `mutable`


class Program:
    """All functions of all TUs, de-duplicated, with the resolved call graph."""

    def __init__(self):
        self.config = None
        self.funcs = {}       # key -> Func (definitions only)
        self.decls = {}       # key -> Func (declarations without body, repo-declared)
        self.records = {}     # qualname -> Record
        self.enums = {}       # qualname -> [enumerator names]
        self.globals = {}     # qualname -> (type, file, line)
        self.idmap = {}       # (tu, id) -> key
        self.tus = []
        self.meta = {}

    # -------- queries ---------------------------------------------------------------------
    def by_name(self, qualname):
        """All definitions (instantiations included) whose qualified name matches."""
        return sorted((f for f in self.funcs.values() if f.qualname == qualname),
                      key=lambda f: (f.targs, f.sig))

    def by_suffix(self, suffix):
        return sorted((f for f in self.funcs.values()
                       if f.qualname == suffix or f.qualname.endswith('::' + suffix)),
                      key=lambda f: (f.qualname, f.targs, f.sig))

    def one(self, suffix, targs=None):
        c = [f for f in self.by_suffix(suffix) if targs is None or f.targs == tuple(targs)]
        c = [f for f in c if not f.dependent]
        if len(c) != 1:
            raise LookupError('expected exactly one definition of %s%s, found %d'
                              % (suffix, targs or '', len(c)))
        return c[0]

    def resolve(self, func, ref):
        """Key of the repo function a reference points to, or None for external callees."""
        if not ref:
            return None
        return self.idmap.get((func.tu, ref.get('id')))

    def target(self, func, call):
        """Func definition called by `call` (a call node inside `func`), or None."""
        k = self.resolve(func, call.callee_ref())
        if k is None:
            return None
        return self.funcs.get(k)

    def lambdas_of(self, func):
        return [f for f in self.funcs.values() if f.is_lambda and f.parent == func.key]

    def lambda_func(self, func, node):
        """Func for a LambdaExpr node found in `func`."""
        k = (node.x or {}).get('lambda_key')
        return self.funcs.get(k)

    def callees(self, func, into_lambdas=True):
        """Set of keys of repo functions called (or whose address is taken) by func."""
        out = set()
        if func.body is None:
            return out
        nodes = [func.body] + list(func.inits)
        for root in nodes:
            for n in root.walk():
                if n.kind == 'DeclRefExpr' or n.kind == 'MemberExpr':
                    k = self.resolve(func, n.ref)
                    if k is not None and (k in self.funcs or k in self.decls):
                        out.add(k)
                elif n.kind in CTOR_KINDS:
                    k = (n.x or {}).get('ctor_key')
                    if k is not None:
                        out.add(k)
                elif n.kind == 'LambdaExpr':
                    k = (n.x or {}).get('lambda_key')
                    if k is not None:
                        out.add(k)
        return out

    def callgraph(self):
        g = {}
        for k, f in self.funcs.items():
            g[k] = {c for c in self.callees(f) if c in self.funcs}
        return g

    def sccs(self):
        """Tarjan SCCs of the call graph; returns list of lists of keys (recursive ones only)."""
        g = self.callgraph()
        index = {}
        low = {}
        onstack = set()
        stack = []
        out = []
        counter = [0]
        import sys
        sys.setrecursionlimit(10000)

        def strong(v):
            index[v] = low[v] = counter[0]
            counter[0] += 1
            stack.append(v)
            onstack.add(v)
            for w in g.get(v, ()):
                if w not in index:
                    strong(w)
                    low[v] = min(low[v], low[w])
                elif w in onstack:
                    low[v] = min(low[v], index[w])
            if low[v] == index[v]:
                comp = []
                while True:
                    w = stack.pop()
                    onstack.discard(w)
                    comp.append(w)
                    if w == v:
                        break
                if len(comp) > 1 or v in g.get(v, ()):
                    out.append(comp)
        for v in sorted(g, key=str):
            if v not in index:
                strong(v)
        return out
