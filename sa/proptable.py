"""The twenty properties: which rules decide which clauses (see DESIGN.md section 4)."""
from .properties import prop

prop('C16', ['K8', 'K9'],
     'structural clauses of memory safety / recursion',
     ['absence of all undefined behaviour'])
prop('C03', ['K1', 'K2', 'K5', 'K8'],
     'sibling traversals agree',
     ['equality of produced lists for every input'])

prop('C06', ['H1', 'H2', 'H3'],
     'equality and hash',
     ['equality semantics across construction routes'])

prop('C11', ['S1', 'S2', 'K2'],
     'pickling', ['cross-process behaviour'])
prop('C09', ['M4'], 'broadcast', ['lub'])
prop('C08', ['M5', 'K1'], 'inspection', ['algebra'])
prop('C14', ['A3'], 'immutability', ['histories'])

prop('C17', ['L1', 'L3', 'L4', 'L5', 'T3'], 'concurrency', ['linearizability'])

prop('C12', ['G1', 'G2', 'G5', 'K6', 'L4'], 'registry', ['histories'])

prop('C15', ['E1', 'E5', 'E6', 'I2', 'A5'], 'failing callbacks', ['refcounts'])
prop('CX1', ['I1', 'I2', 'I3', 'S3', 'A1'], 'tmp', [])

prop('C05', ['F1', 'F2', 'F3', 'F4'], 'tree_map', ['functor laws'])
prop('C10', ['F6', 'F2', 'F1'], 'transpose', ['involution'])
prop('CX2', ['F7', 'F9', 'T6', 'K7py', 'P2py', 'K9py'], 'tmp', [])

prop('C13', ['D1', 'D2', 'D3', 'K2'], 'dict order', ['nestings'])
prop('CX3', ['G3', 'G4', 'K6py', 'T5'], 'tmp', [])

prop('C18', ['T1', 'T2', 'F8', 'T5', 'T6', 'K7py', 'T3'], 'twins', ['all inputs'])

prop('C19', ['DC1', 'DC2', 'DC3', 'DC4', 'DC5', 'G4', 'F8'], 'dataclasses', ['all layouts'])
prop('C20', ['R1', 'R2', 'R3', 'F1'], 'ravel', ['numerical inverse'])

prop('CX4', ['K3', 'K4', 'K7', 'M1', 'M2', 'M3', 'M6', 'M7', 'T4'], 'tmp', [])

prop('C07', ['P1', 'P2cxx', 'P2py', 'W1', 'H3'], 'prefix', ['exactness'])

prop('CX5', ['E2', 'E3', 'E4', 'L2', 'W2', 'F10'], 'tmp', [])
