"""The twenty properties: which rules decide which clauses (DESIGN.md section 4).

Every check states what is decided (the structural clauses, each a necessary condition of the
behaviour) and what is declined (clauses that quantify over runtime values no static argument in
reach can bound)."""
from .properties import prop

prop('C01', ['K1', 'M1', 'M2', 'M3', 'M7', 'T4', 'DC1', 'DC4', 'M8', 'U1', 'CL1', 'VG2'],
     'Round trip, structural part. Decided from the source: every PyTreeKind switch is exhaustive '
     '(K1); for each of the 9 container kinds the three node producers store the same metadata '
     'shape and take the arity from the container they enumerate (M1); MakeNode reads each shape '
     'back through the inverse access path - defaultdict(node_data[0], ...) with keys node_data[1], '
     'deque(maxlen=node_data), node_data(*children) / node_data(children), unflatten_func(node_data, '
     'children) - and the unflatten stack machine consumes exactly `arity` results per node (M2); '
     'the insertion order is captured as a copy before sorting and re-imposed before filling (M3); '
     'OrderedDict keys are taken in the OrderedDict\'s own order (M7); the Python one-level '
     'handlers store/rebuild the same shapes (T4); the two node types the package itself registers - optree dataclasses and optree.functools.partial - flatten to and rebuild from the same name tuple / (args, keywords) pair (DC1, DC4). These are necessary conditions of the round '
     'trip; the behaviour itself (identity of leaves, equality of the re-flattened treespec for '
     'every input) is not decided.',
     ['identity of leaf objects at every position', 'equality of the re-flattened treespec',
      'any n replacement leaves round-trip'])

prop('C02', ['AL1', 'K5', 'K6', 'NS1', 'K2', 'D2', 'T2', 'M7', 'K4', 'T1', 'T1e', 'T3', 'T3b', 'L6', 'G9', 'T10', 'VG2'],
     'Leaf order and classification, structural part: the user predicate is consulted before the '
     'registry and a true answer never reaches it (K5, on the CFG of all 5 classification sites); '
     'lookup order namespace map -> global map -> struct sequence -> namedtuple with the exact '
     'type as key and no subtype test (K6), asked about the namespace the caller requested at every one of the call sites down the call chain (NS1); the NoneIsLeaf / DictShouldBeSorted instantiation '
     'chosen equals the runtime flag (K2); keys are sorted exactly when kind != OrderedDict and '
     'the caller\'s namespace is in sorted mode (D2); the key sort has the documented three stages '
     'with only TypeError moving on and the input order as last resort (T2); OrderedDict is '
     'enumerated in its own order (M7); every traversal visits children left to right under its '
     'discipline (K4). '
     'The namedtuple / struct-sequence recognisers classification rests on test the documented '
     'atoms (T1) and their per-type caches cannot answer for a class that has died (T3, T3b). '
     'The lookup keeps no memo of its answers: no scratch state in function-local statics on the lookup path (L6), no write to a registry member by Lookup / GetKind and no stale Python-side memo (G9).',
     ['equal dicts flatten equally for all inputs', 'None-removal law', 'predicate idempotence'])

prop('C03', ['K1', 'K3', 'K4', 'K5', 'K7', 'K8', 'M7', 'F1', 'F14', 'F7', 'F10', 'T4', 'T2', 'NS1', 'D2', 'N1', 'N2', 'M1', 'K2', 'D5', 'L6', 'B1', 'AL1', 'VG1'],
     'Sibling traversals agree, decided on the 5 x 11 arm matrix: per kind the same accessor on '
     'the same container class, the same key pipeline, the same arity source (K3); the same '
     'effective visiting order (K4), where a traversal that asks the shared key sort for another order gets it after every stage of the sort (T2) and every traversal hands its options down its own recursion unchanged (NS1) and every public entry point has the same option defaults (F14); the flatten variants read the dict-order mode the same way and record the namespace in the treespec under the same condition (D2); predicate first everywhere (K5); the same validations of a '
     'custom flatten result with the same exception type at all five call sites (K7); the same '
     'depth discipline (K8); the Python wrappers are thin and forward the options unchanged, the '
     'reductions are folds over tree_leaves / tree_iter (F1, F7, F10); Python one-level handlers '
     'agree with the engine arms (T4). '
     'The paths / accessors handed out by the flatten variants and those recomputed from the treespec come from producers that use the same entry per kind (N1, N2); every producer of nodes stores the same metadata shape (M1); the NoneIsLeaf / sort-mode variant taken equals the flag (K2).',
     ['equality of the produced lists for every input'])

prop('C04', ['T5', 'N1', 'N2', 'N3', 'N4', 'N5', 'N6', 'F8', 'M4', 'K4', 'VG1', 'N2w'],
     'Paths and accessors, structural part: the path entry class per kind agrees between the '
     'engine, the Python registry literal and accessor.py (T5); flatten-with-path, PathsImpl, '
     'AccessorsImpl, Entries and Entry use the same entry per kind (index / key from the list that '
     'orders the children / node_entries[i]) and AccessorsImpl types each entry with the parent\'s '
     'type and kind (N1); the backwards walkers advance by the node count the recursive call '
     'returned (N2); the typed entry classes resolve a positional entry in the name list the '
     'children follow (N3); codify() of every entry class is the source text of what __call__ '
     'does and the accessor folds both forwards (N4); AutoEntry picks, per family of node type, the entry class whose access method suits it, specific families first (N5); joining accessors puts the own entries first and slicing keeps the class (N6); entry classes hash a subset of what they compare (F8); node copies keep '
     'node_entries (M4); the backwards walkers reverse their result (K4).',
     ['accessor(tree) is the leaf', 'prefix-freeness of paths', 'codify/eval agreement'])

prop('C05', ['F1', 'F14', 'F2', 'F3', 'F4', 'F11', 'W2', 'K3', 'M7', 'P1', 'P4', 'M2', 'M3', 'W1', 'U1', 'L6', 'B1', 'CL1', 'VG2'],
     'tree_map family, structural part: options forwarded unchanged (F1); the six map functions, '
     'three transpose-map and three broadcast-map functions are one normal form modulo the '
     'declared variation points, with the extra iterable first (F2); every rest is matched by an '
     'eager list comprehension in a statement that dominates the first possible call of func - the '
     '"ValueError before f is called at all" clause (F3); the map object is consumed exactly once '
     'and func is used nowhere else (F4); traverse/walk call f_leaf in the leaf arm in traversal '
     'order and f_node once per node after its children were popped (W2); flatten_up_to uses the '
     'same kind arms and key pipeline as flatten (K3, M7) and pairs dict children of a rest with '
     'the treespec\'s own keys (P1); the broadcast variants pair dict children by key (P4); the result is '
     'rebuilt by MakeNode through the inverse of what flatten stored, in the original key order '
     '(M2, M3). '
     'A dict rest whose keys come in another order is re-ordered completely by flatten_up_to (W1).',
     ['argument identity', 'functor laws'])

prop('C06', ['H1', 'H4', 'H2', 'H6', 'H3', 'P5', 'H5', 'M1', 'M5', 'M6', 'S1', 'M8'],
     'Equality and hash: every value that feeds HashCombine is compared strictly by EqualTo (H1); '
     'Python objects enter the hash through their Python hash, never their address (H4); '
     'EqualTo strictly compares size, none_is_leaf and per node kind / arity / registration / '
     'metadata and reads neither original_keys nor node_entries (H2); the six operators and their '
     'bindings map to the right relation and strictness (H3). '
     'The routes by which a treespec is obtained (flatten, constructors, children, compose, transform, unpickling) write the same node shapes and counts, which is what == and hash read (M1, M5, M6, S1).',
     ['equality semantics across construction routes'])

prop('C07', ['P1', 'P2cxx', 'P2py', 'P3', 'P4', 'W1', 'H3', 'F12', 'F13', 'K3', 'M7', 'P5', 'H5', 'K2', 'NS1', 'T4', 'CL1', 'VG2'],
     'Prefix matching: per kind, the attributes compared by IsPrefix, FlattenUpTo, the broadcast '
     'walker and prefix_errors equal the reference table of the property statement (P1); '
     'structural mismatch raises ValueError only, prefix_errors constructs only ValueError, sorts '
     'no keys with the builtin order and asserts nothing about user trees (P2); strictness is '
     'exactly "some leaf of the prefix meets a non-leaf" (P3); dict children are paired by key, '
     'never by position (P4); the kind arms and key pipeline are those of flatten (K3, M7); the re-ordering '
     'branch of IsPrefix does not address the original node array with positions of the permuted '
     'working copy (W1); <, <=, >, >=, is_suffix are wired as converses (H3), the treespec_is_prefix '
     '/ treespec_is_suffix wrappers call the method of their name (F12); broadcast_prefix repeats '
     'each prefix leaf once per leaf of the matching subtree (F13). '
     'flatten_up_to looks custom nodes up in the variant and namespace of the treespec (K2, NS1); prefix_errors walks with the one-level handlers of the Python registry (T4).',
     ['exactness over all pairs', 'offset arithmetic of the re-ordering branch'])

prop('C08', ['I3', 'M5', 'M5b', 'M6', 'F9', 'F12', 'W3', 'T6', 'K1', 'K3', 'M7', 'M1', 'P5', 'K2', 'K4', 'M8', 'B1', 'N1', 'N2', 'VG2', 'N2w', 'M4'],
     'Inspection / constructors: entry(i)/child(i) range test and normalisation dominate all uses '
     'of the index (I3); every new treespec gets none_is_leaf and namespace from its source(s) and '
     'passes the sanity check before it escapes (M5, 14 creation sites); a treespec derived from '
     'two treespecs merges both namespaces (M5b); children() and child() '
     'slice with the same expressions (M6); each treespec_<kind> builds the container its name '
     'says (F9); every treespec_<method>() wrapper calls that method with its arguments in the '
     'engine\'s order (F12); transform applies f_leaf to leaves and f_node to nodes and accepts '
     'only one-level replacements with the same flags (W3); the Python predicates use the engine\'s formulas (T6); K1; the collection '
     'constructor enumerates children, keys and metadata exactly like flatten (K3, M7, M1). '
     'The constructor dispatch takes the variant of the flag (K2); children are listed left to right although the node array is walked backwards (K4).',
     ['count identities', 'transform/compose algebra', 'repr text'])

prop('C09', ['M4', 'M5b', 'P1', 'P4', 'K4', 'F1', 'F14', 'F2', 'F11', 'F13', 'M2', 'P5', 'H5', 'VG2'],
     'Broadcasting, structural part: the merge walker copies every payload field of a node (M4); '
     'the result namespace comes from both operands (M5b); '
     'its kind x kind compatibility equals the prefix matchers\' (P1) and dict children are paired '
     'by key (P4); it walks backwards with '
     'descending loops and one final reverse (K4); the Python layer forwards options and uses the '
     'map normal form (F1, F2); prefix broadcasting repeats each leaf once per leaf of the '
     'matching subtree (F13); n-ary broadcasting is two unconditional pairwise passes (F11); '
     'broadcast trees are rebuilt by MakeNode (M2).',
     ['least upper bound', 'symmetry', 'idempotence'])

prop('C10', ['F6', 'F2', 'F1', 'F14', 'P1', 'M2', 'M3'],
     'Transposition, structural part: the four documented rejections dominate the regrouping; '
     'chunk width = stride = inner_size over m*n leaves; zip(*) swaps the dimensions and '
     'outer.unflatten / inner.unflatten consume the right side (F6); the with_path / with_accessor '
     'variants differ only by the extra first iterable (F2); the namespace guard reads both '
     'treespecs (F6 namespace-of-both); options forwarded (F1); the two engine operations it is '
     'built from - flatten_up_to matching (P1) and unflatten (M2, M3) - keep their contracts.',
     ['involution law', 'value placement for all shapes'])

prop('C11', ['S1', 'S2', 'S3', 'K2', 'NS1', 'VG2'],
     'Pickling: writer and reader use the same position -> field table and every Node field is in '
     'it (S1); custom nodes are re-bound with the recorded namespace and the matching variant, a '
     'null registration is rejected (S2, K2); the reader validates the shapes later unchecked '
     'reads rely on (S3). '
     'The loader looks custom types up in the recorded namespace (NS1).',
     ['cross-process behaviour', 'protocols', 'post-load equality'])

prop('C12', ['G7', 'G1', 'G2', 'G3', 'G4', 'G8', 'G5', 'G6', 'L4', 'K6', 'K6py', 'NS1', 'D4', 'D5', 'I5', 'B1', 'G9', 'L6', 'CL1', 'VG1', 'VG2'],
     'Registry: validation dominates mutation and nothing fallible follows the first mutation '
     '(G1); no C-API failure result is ignored (G2); the Python mirror is written only after the '
     'engine call, under the lock, with the same key, by exactly two functions (G3); a mutation '
     'addressed to a namespace touches only that namespace\'s map (G6); all six entry '
     'points validate class and namespace first (G4); references are paired (G5); check-then-act '
     'is one exclusive region and Lookup returns by value (L4); lookup order in engine and Python '
     'twin, and the Python listing lets the namespace entry win (K6, K6py); the namespace asked for is handed down unchanged to every engine function that takes one (NS1); both registries (None-is-node, None-is-leaf) are updated by every register / unregister call (G7); the decorator-factory forms carry every option to the deferred call (G8). '
     'The Python listing substitutes the insertion-ordered dict entries exactly when flattening in that namespace would (D4). '
     'Lookups answer from the live tables: no memo of answers is kept beside them that a registration of another key would leave stale, and the engine\'s lookup path writes no registry member (G9).',
     ['behaviour after arbitrary histories'])

prop('C13', ['D1', 'D2', 'D3', 'D4', 'K2', 'NS1', 'G4', 'D5'],
     'Dict-order mode: the context manager saves the namespace\'s own flag in the same locked '
     'block as the switch and restores exactly it in a finally, on every path (D1); all four '
     'traversals consult the mode of the caller\'s namespace with global inheritance and never '
     'sort OrderedDict (D2, K2); the namespace is handed down unchanged (NS1); set/query shapes (D3); the Python-visible registry substitutes the insertion-ordered dict / defaultdict entries exactly when the mode of the asked namespace is on, in both lookup forms (D4). '
     'The context manager validates its namespace before anything is switched (G4).',
     ['restoration over all nestings (follows from D1 by an induction the checker does not make)'])

prop('C14', ['A1', 'A3', 'A5', 'A6', 'A7', 'G5', 'M3', 'A8'],
     'Immutability / aliasing / GC: inspection methods return fresh containers and all bound '
     'methods are const (A1); tp_traverse visits every Python object a node holds and the fields '
     'are owning types (A3); in-place mutators are applied only to objects created by the same '
     'call (A5); the Python package reads a mapping of the caller by a computed key only after a key-set comparison has excluded missing keys - a defaultdict would answer such a read by inserting into the tree of the caller (A6) - and mutates in place only containers it created itself (A7); key lists are copies (M3); registry references are paired (G5); std::move is applied only to what the call itself owns - never to a C++ object inside a Python object, a reference parameter or a member of *this (A8).',
     ['observational immutability over histories'])

prop('C15', ['E1', 'E2', 'E3', 'E4', 'E5', 'E6', 'K7', 'I2', 'A5', 'D1', 'U1', 'VG2'],
     'Failing callbacks, structural part: guard sets are cleaned on every exit (E1); raw owned '
     'references are released on every path (E2); stealing sinks get owned references (E3); no '
     'user code between allocation and fill of a tuple/list (E4); only the TypeError fallbacks of '
     'the key sort swallow (E5); only documented exception types are thrown (E6); malformed custom '
     'results raise RuntimeError (K7); no error-swallowing lookup on user dicts (I2); a failing '
     'call leaves its operands untouched (A5); the dict-order mode is restored on every exit of '
     'the with-block, whatever the body raises (D1). Thorough tier: X1 across 4 CPython configurations.',
     ['reference-count equality after a fault at every k'], thorough_rules=['X1'])

prop('C16', ['K8', 'K9', 'K9py', 'K7', 'I1', 'I2', 'I3', 'I4', 'I5', 'S3', 'U1', 'L6', 'VG2'],
     'Memory safety / recursion, structural part: the three forward traversals share one depth '
     'discipline (K8); every recursive cycle of the engine call graph is bounded by '
     'MAX_RECURSION_DEPTH (K9) and Python-level recursion over tree depth is enumerated (K9py); no '
     'unchecked index into a list the user can shrink while user code runs in the loop (I1); '
     'nullable C-API results are tested (I2); index guards (I3); an index that is not a loop\'s '
     'induction variable is range-tested before use (I4); a hand-driven iterator is compared with '
     'its end before every dereference (I5); unpickling validates what '
     'unchecked reads rely on (S3); malformed custom flatten results are rejected before use (K7). '
     'Thorough tier: the #if arms of the accessor wrappers agree across 4 CPython configurations (X1).',
     ['absence of all undefined behaviour'], thorough_rules=['X1'])

prop('C17', ['L1', 'L2', 'L3', 'L4', 'L5', 'T3', 'T3b', 'G3', 'L6'],
     'Concurrency, structural part: no call that can run Python code inside a region of a C++ '
     'mutex (these block with the GIL held) (L1); the lock graph is acyclic (L2); every access to '
     'shared engine state is inside a region of its mutex in the right mode (L3); registry '
     'check-then-act is atomic and Lookup returns by value (L4); the iterator keeps no reference '
     'into its agenda across user code (L5); cache insertion is capped and paired with eviction '
     '(T3); every address-keyed memo of a recogniser is reset by the eviction callback (T3b); the '
     'engine\'s register / unregister calls are made inside the Python registry lock, so writers '
     'queue on a lock that releases the GIL instead of on the engine mutex (G3).',
     ['linearizability over schedules'])

prop('C18', ['T1', 'T1e', 'T2', 'T3', 'T3b', 'T4', 'T5', 'T6', 'T7', 'T8', 'K7py', 'T9', 'K6py', 'T10', 'VG1', 'VG2'],
     'Twins: both recognisers test the same atoms (T1); the key sort twin has the same stages and '
     'last resort (T2); cached answers and address-keyed memos are evicted with the class (T3, '
     'T3b); one-level handlers (T4), '
     'path entry classes (T5), treespec predicates (T6), struct sequence field listing (T7), field listings read the class and never the instance (T8), '
     'flatten-result validation (K7py), the composition of the one-level result (T9) and '
     'lookup order (K6py) agree with the engine.',
     ['agreement over all inputs and cache histories'])

prop('C19', ['DC1', 'DC2', 'DC3', 'DC4', 'DC5', 'G4', 'F8', 'CL1', 'VG1'],
     'Dataclasses / partial: field partition by the pytree_node flag with one name tuple for '
     'children, entries and unflatten (DC1); keyword routing (DC2); rejections dominate (DC3, G4); '
     'partial flatten/unflatten are inverse, registered globally, nested partials shimmed (DC4); a '
     'class is processed by dataclasses.dataclass exactly once (DC5); eq/hash agreement (F8); the flatten / unflatten closures read no finished loop variable of the function that builds them (CL1).',
     ['all layouts and values', '__post_init__ behaviour'])

prop('C20', ['R1', 'R2', 'R3', 'R4', 'F1', 'F14', 'CL1', 'VG1', 'F8'],
     'Ravel: each partial binds exactly the leading parameters of its target (R1); shape guard and '
     '(mixed-dtype) dtype guard dominate the split, chunks/shapes/dtypes are joined by the strict '
     'zip (R2); the three backends have the same structure (R3); the numpy common dtype is '
     'computed by the n-ary result_type, not a pairwise fold of the non-associative '
     'promote_types (R4); options forwarded (F1).',
     ['numerical inverse law', 'dtype promotion', 'offset arithmetic'])
