"""The twenty properties: which rules decide which clauses (see DESIGN.md section 4)."""
from .properties import prop

prop('C16', ['K8', 'K9'],
     'structural clauses of memory safety / recursion',
     ['absence of all undefined behaviour'])
prop('C03', ['K1', 'K2', 'K5', 'K8'],
     'sibling traversals agree',
     ['equality of produced lists for every input'])
