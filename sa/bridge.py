"""pybind11 binding table parsed from BuildModule: Python-visible name -> C++ entry point."""
from __future__ import annotations

from .cxx_ir import CTOR_KINDS
from .cfg import const_eval


class Binding:
    __slots__ = ('owner', 'name', 'kind', 'target', 'target_key', 'functor', 'args', 'node',
                 'lambda_key', 'pos_only_after', 'kw_only_after')

    def __init__(self):
        self.owner = None        # 'module' | 'PyTreeSpec' | 'PyTreeIter' | 'PyTreeKind'
        self.name = None
        self.kind = None         # def | def_property_readonly | ...
        self.target = None       # name of the bound C++ function, or None
        self.target_key = None   # program key of it
        self.functor = None      # e.g. 'equal_to' for std::equal_to<PyTreeSpec>()
        self.lambda_key = None
        self.args = []           # (name, default_text or None)
        self.node = None
        self.pos_only_after = None
        self.kw_only_after = None

    def __repr__(self):
        return '<Binding %s.%s -> %s %s>' % (self.owner, self.name,
                                              self.target or self.functor or 'lambda',
                                              [a[0] for a in self.args])


def _string(n):
    if n is not None and n.kind == 'StringLiteral' and isinstance(n.value, str):
        v = n.value
        if v.startswith('"') and v.endswith('"'):
            return v[1:-1]
        return v
    return None


def _owner_of(call, inits):
    """follow the fluent chain to its root object"""
    n = call
    while n is not None and n.kind == 'CXXMemberCallExpr':
        n = n.call_base()
    if n is None:
        return None
    if n.kind == 'DeclRefExpr':
        name = (n.ref or {}).get('name')
        t = n.type or ''
        if 'module_' in t:
            return 'module'
        if 'class_<' in t or 'class_' in t:
            if 'PyTreeSpec' in t:
                return 'PyTreeSpec'
            if 'PyTreeIter' in t:
                return 'PyTreeIter'
        init = inits.get(name)
        if init is not None:
            tt = init.type or ''
            for cls in ('PyTreeSpec', 'PyTreeIter', 'PyTreeKind'):
                if cls in tt:
                    return cls
        return name
    if n.kind in CTOR_KINDS or n.kind == 'CXXFunctionalCastExpr':
        t = n.type or ''
        for cls in ('PyTreeSpec', 'PyTreeIter', 'PyTreeKind'):
            if cls in t:
                return cls
    return None


def bindings(prog):
    f = prog.one('optree::BuildModule')
    inits = {}
    for n in f.body.walk():
        if n.kind == 'VarDecl' and n.name and n.kids and n.kids[-1] is not None:
            inits.setdefault(n.name, n.kids[-1])
    out = []
    for n in f.body.walk():
        if n.kind != 'CXXMemberCallExpr':
            continue
        nm = n.callee_name()
        if nm not in ('def', 'def_static', 'def_property_readonly', 'def_property',
                      'def_readonly'):
            continue
        args = n.call_args()
        if not args:
            continue
        b = Binding()
        b.kind = nm
        b.node = n
        b.owner = _owner_of(n, inits)
        b.name = _string(args[0])
        rest = args[1:]
        if b.name is None:
            # .def(py::init<...>()) / .def(py::pickle(...))
            a0 = args[0]
            cn = a0.callee_name() if a0 is not None else None
            b.name = {'pickle': '__getstate__/__setstate__', 'init': '__init__'}.get(cn, cn)
            if cn == 'pickle':
                lams = a0.find('LambdaExpr')
                b.lambda_key = [(l.x or {}).get('lambda_key') for l in lams]
            rest = args[1:]
        elif rest:
            t = rest[0]
            rest = rest[1:]
            if t is not None and t.kind == 'UnaryOperator' and t.op == '&' and t.kids and \
                    t.kids[0] is not None and t.kids[0].kind == 'DeclRefExpr':
                b.target = t.kids[0].ref.get('name')
                b.target_key = prog.resolve(f, t.kids[0].ref)
            elif t is not None and t.kind == 'DeclRefExpr':
                b.target = t.ref.get('name')
                b.target_key = prog.resolve(f, t.ref)
            elif t is not None and t.kind == 'LambdaExpr':
                b.lambda_key = (t.x or {}).get('lambda_key')
            elif t is not None and t.kind in CTOR_KINDS:
                tt = (t.type or '')
                b.functor = tt.split('<')[0].split('::')[-1]
        for a in rest:
            if a is None:
                continue
            if a.kind in CTOR_KINDS and (a.type or '').endswith('pos_only'):
                b.pos_only_after = len(b.args)
                continue
            if a.kind in CTOR_KINDS and (a.type or '').endswith('kw_only'):
                b.kw_only_after = len(b.args)
                continue
            argname = None
            default = None
            if a.kind == 'CXXOperatorCallExpr' and a.callee_name() == 'operator=':
                for s in a.kids[1].walk():
                    if _string(s) is not None:
                        argname = _string(s)
                        break
                d = a.kids[2] if len(a.kids) > 2 else None
                default = d.text(3) if d is not None else None
            elif 'arg' in (a.type or ''):
                for s in a.walk():
                    if _string(s) is not None:
                        argname = _string(s)
                        break
            if argname is not None:
                b.args.append((argname, default))
        out.append(b)
    return out


_cache = {}


def binding_table(prog):
    k = id(prog)
    if k not in _cache:
        tab = {}
        for b in bindings(prog):
            tab.setdefault((b.owner, b.name), b)
        _cache[k] = tab
    return _cache[k]


def engine_call_args(prog, call, name=None):
    """The arguments of a Python call of an engine function (`_C.<name>(...)`), bound to the
    parameter names of its pybind11 binding: {parameter name: ast expression}, whether the caller
    passed them by position or by keyword.  None when the call cannot be bound (unknown function,
    star arguments, more positional arguments than parameters)."""
    import ast as _ast
    if name is None:
        f = call.func
        if not isinstance(f, _ast.Attribute):
            return None
        name = f.attr
    b = binding_table(prog).get(('module', name))
    if b is None:
        return None
    names = [a[0] for a in b.args]
    if any(isinstance(a, _ast.Starred) for a in call.args) or any(k.arg is None for k in call.keywords):
        return None
    if len(call.args) > len(names):
        return None
    out = {}
    for n, a in zip(names, call.args):
        out[n] = a
    for k in call.keywords:
        if k.arg in out:
            return None
        out[k.arg] = k.value
    return out
