"""clang driver + IR builder + digest cache for the optree C++ engine.

`load_program(config)` returns a cxx_ir.Program for /repo's *current* working tree: it hashes
every consulted source first and re-parses when anything changed.
"""
from __future__ import annotations

import fcntl
import glob
import hashlib
import json
import os
import pickle
import re
import subprocess
import sys
import tempfile
import time
from concurrent.futures import ProcessPoolExecutor

sys.setrecursionlimit(100000)

from .cxx_ir import Node, Func, Record, Program, WRAPPERS, FUNC_KINDS, CTOR_KINDS

REPO = os.environ.get('OPTREE_REPO', '/repo')
HERE = os.path.dirname(os.path.abspath(__file__))
VERIF = os.path.dirname(HERE)
CACHE = os.environ.get('OPTREE_VERIF_CACHE') or os.path.join(VERIF, '.cache')
CLANG = 'clang++-14'
PYBIND_INC = '/venv/lib/python3.12/site-packages/torch/include'
IR_VERSION = '22'

CONFIGS = {
    # name: (CPython include dir, extra flags)
    'py312': ('/root/.pyenv/versions/3.12.1/include/python3.12', []),
    'py39': ('/root/.pyenv/versions/3.9.18/include/python3.9', []),
    'py310': ('/root/.pyenv/versions/3.10.13/include/python3.10', []),
    'py311': ('/root/.pyenv/versions/3.11.7/include/python3.11', []),
    'py313': ('/root/.pyenv/versions/3.13.0/include/python3.13', []),
    'py313t': ('/root/.pyenv/versions/3.13.0/include/python3.13', ['-DPy_GIL_DISABLED=1']),
}
SHIPPED = 'py312'


class FrontendError(Exception):
    pass


def repo_path(*p):
    return os.path.join(REPO, *p)


def tu_list():
    """Translation units as listed by the repository's own build description."""
    cm = repo_path('src', 'CMakeLists.txt')
    try:
        text = open(cm).read()
    except OSError as e:
        raise FrontendError('cannot read %s: %s' % (cm, e))
    m = re.search(r'set\(\s*optree_csrc\s+(.*?)\)', text, re.S)
    if not m:
        raise FrontendError('src/CMakeLists.txt: no set(optree_csrc ...) list')
    tus = ['src/' + t for t in m.group(1).split()]
    on_disk = sorted(os.path.relpath(p, REPO) for p in
                     glob.glob(repo_path('src', '**', '*.cpp'), recursive=True))
    missing = [t for t in tus if t not in on_disk]
    if missing:
        raise FrontendError('listed translation units missing on disk: %s' % missing)
    # a .cpp on disk that the build does not list is not compiled: analysed anyway would lie
    return tus


def cxx_standard():
    text = open(repo_path('CMakeLists.txt')).read()
    m = re.search(r'set\(CMAKE_CXX_STANDARD (\d+)\)', text)
    return m.group(1) if m else '20'


def flags(config):
    inc, extra = CONFIGS[config]
    # SOURCE_PATH_PREFIX_SIZE only shortens __FILE__ in error messages; a constant keeps the IR
    # (and its cache key) independent of where the analysed tree lives
    return ['-std=c++' + cxx_standard(), '-fsyntax-only', '-Iinclude', '-I' + PYBIND_INC,
            '-I' + inc, '-DSOURCE_PATH_PREFIX_SIZE=0', '-w'] + extra


def consulted_files():
    fs = sorted(glob.glob(repo_path('include', 'optree', '*.h')) +
                glob.glob(repo_path('src', '**', '*.cpp'), recursive=True) +
                [repo_path('src', 'CMakeLists.txt'), repo_path('CMakeLists.txt')])
    return fs


def digest(config):
    h = hashlib.sha256()
    h.update(IR_VERSION.encode())
    h.update(config.encode())
    h.update(' '.join(flags(config)).encode())
    for p in (os.path.join(HERE, 'cxx_frontend.py'), os.path.join(HERE, 'cxx_ir.py'),
              os.path.join(HERE, 'astfilter.c')):
        h.update(open(p, 'rb').read())
    for f in consulted_files():
        h.update(os.path.relpath(f, REPO).encode())
        h.update(b'\0')
        h.update(open(f, 'rb').read())
        h.update(b'\0')
    return h.hexdigest()[:32]


def ensure_filter():
    exe = os.path.join(HERE, 'astfilter')
    src = os.path.join(HERE, 'astfilter.c')
    if not os.path.exists(exe) or os.path.getmtime(exe) < os.path.getmtime(src):
        tmp = exe + '.%d.tmp' % os.getpid()
        r = subprocess.run(['gcc', '-O2', '-o', tmp, src], capture_output=True, text=True)
        if r.returncode != 0:
            raise FrontendError('cannot build astfilter: ' + r.stderr)
        os.replace(tmp, exe)
    return exe


# ---------------------------------------------------------------------------------------------
# per-TU: clang | astfilter -> json -> IR
# ---------------------------------------------------------------------------------------------

class _Loc:
    """Replays clang's stateful location printing."""

    def __init__(self, file, line):
        self.file = file
        self.line = line

    def bare(self, d):
        if 'file' in d:
            self.file = d['file']
        if 'line' in d:
            self.line = d['line']
        return (self.file, self.line, d.get('col'))

    def upd(self, d):
        if not d:
            return None
        if 'spellingLoc' in d or 'expansionLoc' in d:
            res = None
            for k, v in d.items():
                if k == 'spellingLoc':
                    self.bare(v)
                elif k == 'expansionLoc':
                    res = self.bare(v)
            return res
        if 'col' in d or 'line' in d or 'file' in d:
            return self.bare(d)
        return None


def _relfile(f):
    if f is None:
        return None
    if f.startswith(REPO.rstrip('/') + '/'):
        return f[len(REPO.rstrip('/')) + 1:]
    return f


class _TUBuilder:
    def __init__(self, tu):
        self.tu = tu
        self.funcs = []          # Func definitions
        self.decl_key = {}       # id -> key (all repo function decls)
        self.prev = {}           # id -> previousDecl id
        self.records = {}
        self.enums = {}
        self.globals = {}
        self.ctx_name = {}       # id of namespace/record -> qualname
        self.loc = None
        self.seen_body_ids = set()
        self.templ_of = {}

    # -- declarations ------------------------------------------------------------------
    def qual(self, stack, d):
        pid = d.get('parentDeclContextId')
        if pid and pid in self.ctx_name:
            base = self.ctx_name[pid]
        else:
            base = '::'.join(stack)
        name = d.get('name') or '(anon)'
        return (base + '::' + name) if base else name

    def visit_decl(self, d, stack, dependent, enclosing=None):
        if not isinstance(d, dict) or 'kind' not in d:
            return
        kind = d['kind']
        # location bookkeeping must follow print order: loc, range, then children
        here = None
        if 'loc' in d:
            here = self.loc.upd(d['loc'])
        if 'range' in d:
            b = self.loc.upd(d['range'].get('begin'))
            e = self.loc.upd(d['range'].get('end'))
            self._end = e
            here = here or b
        if here is None:
            here = (self.loc.file, self.loc.line, None)

        if kind == 'NamespaceDecl':
            name = d.get('name') or '(anon)'
            q = '::'.join(stack + [name])
            self.ctx_name[d['id']] = q
            for c in d.get('inner', []):
                self.visit_decl(c, stack + [name], dependent)
            return
        if kind in ('CXXRecordDecl', 'ClassTemplateSpecializationDecl',
                    'ClassTemplatePartialSpecializationDecl'):
            q = self.qual(stack, d)
            self.ctx_name[d['id']] = q
            dep = dependent or kind == 'ClassTemplatePartialSpecializationDecl'
            inner = d.get('inner', [])
            if d.get('completeDefinition'):
                rec = Record()
                rec.qualname = q
                rec.id = d['id']
                rec.kind = d.get('tagUsed')
                rec.file, rec.line = _relfile(here[0]), here[1]
                for b in d.get('bases', []):
                    rec.bases.append(b.get('type', {}).get('qualType'))
                self.records.setdefault(q, rec)
            else:
                rec = None
            name = d.get('name') or '(anon)'
            access = 'private' if d.get('tagUsed') == 'class' else 'public'
            for c in inner:
                if not isinstance(c, dict):
                    continue
                ck = c.get('kind')
                if ck == 'AccessSpecDecl':
                    self._locskip(c)
                    access = c.get('access', access)
                    continue
                if ck == 'FieldDecl' and rec is not None:
                    self._locskip_head(c)
                    has_init = any(isinstance(x, dict) and x.get('kind') for x in c.get('inner', []))
                    rec.fields.append((c.get('name'), c.get('type', {}).get('qualType'), has_init))
                    if c.get('mutable'):
                        rec.mutable_fields.append(c.get('name'))
                    self._skip_children(c)
                    continue
                if ck == 'VarDecl' and rec is not None:
                    rec.static_vars.append((c.get('name'), c.get('type', {}).get('qualType')))
                if ck in FUNC_KINDS and rec is not None and not c.get('isImplicit'):
                    t = c.get('type', {}).get('qualType', '')
                    rec.methods.append((c.get('name'), t, _is_const_sig(t),
                                        c.get('storageClass') == 'static', access))
                self.visit_decl(c, stack + [name], dep)
            return
        if kind == 'ClassTemplateDecl':
            first = True
            for c in d.get('inner', []):
                if isinstance(c, dict) and c.get('kind') == 'CXXRecordDecl' and first:
                    first = False
                    self.visit_decl(c, stack, True)
                else:
                    self.visit_decl(c, stack, dependent)
            return
        if kind == 'FunctionTemplateDecl':
            first = True
            tparams = [c.get('name') for c in d.get('inner', [])
                       if isinstance(c, dict) and c.get('kind') in
                       ('NonTypeTemplateParmDecl', 'TemplateTypeParmDecl',
                        'TemplateTemplateParmDecl')]
            for c in d.get('inner', []):
                if isinstance(c, dict) and c.get('kind') in FUNC_KINDS:
                    if first:
                        first = False
                        f = self.visit_func(c, stack, True, template_parent=d)
                    else:
                        f = self.visit_func(c, stack, dependent, template_parent=d)
                    f.tparams = tuple(tparams)
                else:
                    self._locskip(c)
            return
        if kind in FUNC_KINDS:
            self.visit_func(d, stack, dependent, preloc=here)
            return
        if kind == 'EnumDecl':
            q = self.qual(stack, d)
            names = []
            for c in d.get('inner', []):
                self._locskip(c)
                if isinstance(c, dict) and c.get('kind') == 'EnumConstantDecl':
                    names.append(c.get('name'))
            if names:
                self.enums[q] = names
            return
        if kind == 'VarDecl':
            q = self.qual(stack, d)
            init = None
            for c in d.get('inner', []):
                n = self.conv(c)
                if n is not None and init is None:
                    init = n
            self.globals[q] = (d.get('type', {}).get('qualType'), _relfile(here[0]), here[1],
                               init, d.get('storageClass'), d['id'])
            self.decl_key.setdefault(d['id'], None)
            return
        if kind == 'LinkageSpecDecl':
            for c in d.get('inner', []):
                self.visit_decl(c, stack, dependent)
            return
        # anything else: keep location state in sync
        self._skip_children(d)

    def _locskip_head(self, d):
        if isinstance(d, dict):
            if 'loc' in d:
                self.loc.upd(d['loc'])
            if 'range' in d:
                self.loc.upd(d['range'].get('begin'))
                self.loc.upd(d['range'].get('end'))

    def _skip_children(self, d):
        for c in d.get('inner', []) if isinstance(d, dict) else []:
            self._locskip(c)

    def _locskip(self, d):
        """Advance the location state over a subtree that is not converted."""
        stack = [d]
        # must be in print order: depth-first, loc then range then children
        def rec(n):
            if not isinstance(n, dict):
                return
            if 'loc' in n:
                self.loc.upd(n['loc'])
            if 'range' in n:
                self.loc.upd(n['range'].get('begin'))
                self.loc.upd(n['range'].get('end'))
            for c in n.get('inner', []):
                rec(c)
        rec(d)

    def visit_func(self, d, stack, dependent, template_parent=None, preloc=None,
                   lambda_parent=None):
        if preloc is None:
            here = None
            if 'loc' in d:
                here = self.loc.upd(d['loc'])
            if 'range' in d:
                b = self.loc.upd(d['range'].get('begin'))
                self.loc.upd(d['range'].get('end'))
                here = here or b
            if here is None:
                here = (self.loc.file, self.loc.line, None)
        else:
            here = preloc
        f = Func()
        f.id = d['id']
        f.name = d.get('name')
        f.qualname = self.qual(stack, d)
        f.sig = d.get('type', {}).get('qualType', '')
        f.file, f.line = _relfile(here[0]), here[1]
        f.tu = self.tu
        f.dependent = dependent
        f.is_const = _is_const_sig(f.sig)
        f.is_static = d.get('storageClass') == 'static'
        f.is_inline = bool(d.get('inline'))
        f.is_virtual = bool(d.get('virtual'))
        pid = d.get('parentDeclContextId')
        if pid and pid in self.ctx_name:
            f.record = self.ctx_name[pid]
        elif d['kind'] != 'FunctionDecl':
            f.record = '::'.join(stack)
        targs = []
        body = None
        mangled = d.get('mangledName')
        if lambda_parent is not None:
            f.is_lambda = True
            f.parent = lambda_parent
        if d.get('previousDecl'):
            self.prev[d['id']] = d['previousDecl']
        inner = d.get('inner', [])
        for c in inner:
            if not isinstance(c, dict) or 'kind' not in c:
                continue
            ck = c['kind']
            if ck == 'TemplateArgument':
                self._locskip_head(c)
                if 'value' in c:
                    targs.append(str(c['value']))
                elif 'type' in c:
                    targs.append(c['type'].get('qualType'))
                elif 'decl' in c:
                    targs.append(c['decl'].get('name'))
                else:
                    targs.append('?')
                self._skip_children(c)
            elif ck == 'ParmVarDecl':
                self._locskip_head(c)
                f.params.append((c.get('name'), c.get('type', {}).get('qualType'), c['id']))
                self._skip_children(c)
            elif ck == 'CXXCtorInitializer':
                n = Node('CXXCtorInitializer')
                ai = c.get('anyInit') or {}
                n.name = ai.get('name')
                n.type = (ai.get('type') or c.get('baseInit') or {}).get('qualType')
                self._cur = f
                n.kids = [self.conv(x) for x in c.get('inner', [])]
                n.file, n.line = f.file, f.line
                f.inits.append(n)
            elif ck in ('CompoundStmt', 'CXXTryStmt'):
                self._cur = f
                f.key = mangled or (f.qualname, f.sig, tuple(targs))
                if lambda_parent is None:
                    self._curkey = f.key
                saved = getattr(self, '_lamparent', None)
                self._lamparent = f.key
                body = self.conv(c)
                self._lamparent = saved
                resolve_bool_locals(body)
                normalise_negations(body)
                hoist_else_after_exit(body)
                merge_split_guards(body)
            else:
                self._locskip(c)
        f.targs = tuple(targs)
        f.key = mangled or (f.qualname, f.sig, f.targs)
        if d['id'] not in self.decl_key or self.decl_key[d['id']] is None:
            self.decl_key[d['id']] = f.key
        if body is not None and d['id'] not in self.seen_body_ids:
            self.seen_body_ids.add(d['id'])
            f.body = body
            self.funcs.append(f)
        return f

    # -- statements / expressions ----------------------------------------------------------
    def conv(self, d):
        if not isinstance(d, dict) or 'kind' not in d:
            return None
        kind = d['kind']
        here = None
        if 'loc' in d:
            here = self.loc.upd(d['loc'])
        if 'range' in d:
            b = self.loc.upd(d['range'].get('begin'))
            self.loc.upd(d['range'].get('end'))
            here = b or here
        if here is None:
            here = (self.loc.file, self.loc.line, None)
        inner = d.get('inner', [])

        if kind.endswith('Type') or kind.endswith('Comment') or kind == 'TemplateArgument':
            for c in inner:
                self._locskip(c)
            return None
        if kind in WRAPPERS:
            res = None
            for c in inner:
                n = self.conv(c)
                if n is not None and res is None and not n.kind.endswith('Attr'):
                    res = n
            return res
        n = Node(kind)
        n.id = d.get('id')
        n.name = d.get('name')
        t = d.get('type')
        if isinstance(t, dict):
            n.type = t.get('qualType')
            if 'desugaredQualType' in t:
                n.x = {'desugared': t['desugaredQualType']}
        n.file, n.line, n.col = _relfile(here[0]), here[1], here[2]
        if 'referencedDecl' in d:
            r = d['referencedDecl']
            n.ref = {'id': r.get('id'), 'kind': r.get('kind'), 'name': r.get('name'),
                     'type': (r.get('type') or {}).get('qualType')}
        if 'referencedMemberDecl' in d:
            n.ref = {'id': d['referencedMemberDecl'], 'kind': 'Member', 'name': d.get('name'),
                     'type': n.type}
        if 'opcode' in d:
            n.op = d['opcode']
        if 'value' in d:
            n.value = d['value']
        for k in ('isArrow', 'castKind', 'ctorType', 'list', 'hasElse', 'hasInit', 'hasVar',
                  'isPostfix', 'init', 'storageClass', 'constexpr', 'isConstexpr',
                  'conversionFunc', 'nrvo', 'isImplicit', 'field',
                  'computeLHSType', 'hasExplicitTemplateArgs', 'foundReferencedDecl', 'tls',
                  'explicitlyDefaulted'):
            if k in d:
                if n.x is None:
                    n.x = {}
                v = d[k]
                if k == 'ctorType':
                    v = v.get('qualType')
                elif k == 'conversionFunc':
                    v = v.get('name')
                elif k == 'foundReferencedDecl':
                    v = {'id': v.get('id'), 'name': v.get('name'), 'kind': v.get('kind')}
                elif k == 'field':
                    v = v.get('name')
                n.x[k] = v
        if kind == 'LambdaExpr':
            rec = inner[0] if inner else None
            kids = []
            lam_keys = []
            for i, c in enumerate(inner):
                if i == 0 and isinstance(c, dict) and c.get('kind') == 'CXXRecordDecl':
                    self._locskip_head(c)
                    for m in c.get('inner', []):
                        if not isinstance(m, dict):
                            continue
                        if m.get('kind') == 'CXXMethodDecl' and m.get('name') == 'operator()':
                            lf = self._lambda(m)
                            lam_keys.append(lf.key)
                        elif m.get('kind') == 'FunctionTemplateDecl':
                            self._locskip_head(m)
                            first = True
                            for mm in m.get('inner', []):
                                if isinstance(mm, dict) and mm.get('kind') == 'CXXMethodDecl':
                                    if first:
                                        first = False
                                        self._locskip(mm)
                                    else:
                                        lf = self._lambda(mm)
                                        lam_keys.append(lf.key)
                                else:
                                    self._locskip(mm)
                        else:
                            self._locskip(m)
                elif isinstance(c, dict) and c.get('kind') == 'CompoundStmt':
                    self._locskip(c)     # duplicate of the operator() body
                else:
                    kids.append(self.conv(c))
            n.kids = kids
            if n.x is None:
                n.x = {}
            n.x['lambda_key'] = lam_keys[0] if lam_keys else None
            n.x['lambda_keys'] = lam_keys
            return n
        if kind in FUNC_KINDS or kind in ('CXXRecordDecl', 'FunctionTemplateDecl',
                                          'ClassTemplateDecl'):
            # local class / function declaration inside a body: not converted
            for c in inner:
                self._locskip(c)
            return n
        n.kids = [self.conv(c) if (isinstance(c, dict) and c.get('kind')) else None
                  for c in inner]
        # drop Nones produced by type/comment children but keep null slots: clang prints null
        # slots as {} (no 'kind'); children that were types are removed here.
        if any(isinstance(c, dict) and c.get('kind') and
               (c['kind'].endswith('Type') or c['kind'].endswith('Comment')) for c in inner):
            n.kids = [k for k, c in zip(n.kids, inner)
                      if not (isinstance(c, dict) and c.get('kind') and
                              (c['kind'].endswith('Type') or c['kind'].endswith('Comment')))]
        # canonical operand order of the built-in symmetric comparisons: the constant on the right
        # (`2 != n` is `n != 2`); the rules read kind / length / null tests off one shape only
        if kind == 'BinaryOperator' and n.op in ('==', '!=') and len(n.kids) == 2 and \
                _is_constant(n.kids[0]) and not _is_constant(n.kids[1]):
            n.kids = [n.kids[1], n.kids[0]]
        return n

    def _lambda(self, m):
        saved_cur = getattr(self, '_cur', None)
        parent = getattr(self, '_lamparent', None)
        lf = self.visit_func(m, [(saved_cur.qualname if saved_cur else '') + '::(lambda)'],
                             saved_cur.dependent if saved_cur else False,
                             lambda_parent=parent)
        self._cur = saved_cur
        return lf


PURE_MEMBER_CALLS = {'empty', 'size', 'length', 'is_none', 'ptr', 'has_value', 'operator bool', 'is'}


def _is_pure(e):
    """no effect and no dependence on anything but the values it names: comparisons and logic over
    locals, members, constants and a few const observers"""
    for n in e.walk():
        if n.kind in ('CallExpr', 'LambdaExpr', 'CXXNewExpr', 'CXXDeleteExpr', 'CXXThrowExpr',
                      'CompoundAssignOperator'):
            return False
        if n.kind == 'CXXMemberCallExpr' and n.callee_name() not in PURE_MEMBER_CALLS:
            return False
        if n.kind == 'CXXOperatorCallExpr' and n.callee_name() not in (
                'operator==', 'operator!=', 'operator->', 'operator*', 'operator bool', 'operator[]'):
            return False
        if n.kind == 'UnaryOperator' and n.op in ('++', '--'):
            return False
        if n.kind == 'BinaryOperator' and n.op == '=':
            return False
    return True


ALIAS_TYPES = ('bool', 'optree::PyTreeKind', 'PyTreeKind')


def _pos(n):
    return (n.file or '', n.line or 0, n.col or 0)


def resolve_bool_locals(body):
    """`const bool c = <pure test>; ... if (c)`, `const auto k = node.kind; switch (k)`: the condition
    is the test, the switch is on the field.  Where a condition (of if / switch / while / for / ?:)
    names a const local of type bool or PyTreeKind whose initialiser is pure, the IR shows the
    initialiser in its place, so the rules read the same test whether or not it was given a name
    first.  A const local cannot change between its initialisation and the test, but what its
    initialiser reads may; the substitution is made at a use when (a) nothing the initialiser names
    is assigned anywhere in the function, or (b) no such assignment stands between the declaration
    and the use in the source and the use is in no loop that the declaration is outside of (a
    declaration inside a loop body is made afresh in every iteration), or (c) the declaration is
    the init-statement of the very if / switch statement that tests it.  A declaration whose name is then read nowhere is dropped (or
    marked as an alias, which every rule and the CFG treat as a no-op)."""
    if body is None:
        return
    decls = {}
    decl_node = {}
    # a local that is declared without `const` but never written (no assignment, ++ / --, no
    # address taken, anywhere in the function or its lambdas) is as good as const
    written = set()
    for n in body.walk(into_lambdas=True):
        tgt = None
        if n.kind in ('BinaryOperator', 'CompoundAssignOperator') and \
                (n.op == '=' or n.kind == 'CompoundAssignOperator') and n.kids:
            tgt = n.kids[0]
        elif n.kind == 'UnaryOperator' and n.op in ('++', '--', '&') and n.kids:
            tgt = n.kids[0]
        elif n.kind == 'CXXOperatorCallExpr' and n.callee_name() in ('operator=', 'operator++', 'operator--') \
                and len(n.kids) > 1:
            tgt = n.kids[1]
        if tgt is not None and tgt.kind == 'DeclRefExpr' and (tgt.ref or {}).get('id'):
            written.add(tgt.ref['id'])
    for n in body.walk():
        t_ = (n.type or '')
        base_t = t_[6:].strip() if t_.startswith('const ') else t_.strip()
        if n.kind == 'VarDecl' and n.id is not None and n.kids and base_t in ALIAS_TYPES and \
                (t_.startswith('const ') or n.id not in written) and \
                (n.x or {}).get('storageClass') != 'static':
            init = n.kids[-1]
            # `static_cast<bool>(test)` / `bool(test)`: the test itself (a condition converts to
            # bool contextually anyway)
            while init is not None and init.kind in ('CXXStaticCastExpr', 'CXXFunctionalCastExpr',
                                                     'CStyleCastExpr') and init.kids and \
                    (init.type or '').replace('const ', '').strip() == 'bool':
                init = init.kids[-1]
            if init is not None and init.kind != 'InitListExpr' and _is_pure(init):
                decls[n.id] = init
                decl_node[n.id] = n
    if not decls:
        return

    def names(e):
        out = set()
        for n in e.walk():
            if n.kind == 'DeclRefExpr' and (n.ref or {}).get('name') and \
                    (n.ref or {}).get('kind') != 'EnumConstantDecl':
                out.add(n.ref['name'])
            elif n.kind == 'MemberExpr' and n.name:
                out.add('.' + n.name)
        return out
    assigned = {}          # name -> latest source position of an assignment to it
    for n in body.walk():
        tgt = None
        if n.kind in ('BinaryOperator', 'CompoundAssignOperator') and \
                (n.op == '=' or n.kind == 'CompoundAssignOperator') and n.kids:
            tgt = n.kids[0]
        elif n.kind == 'UnaryOperator' and n.op in ('++', '--') and n.kids:
            tgt = n.kids[0]
        elif n.kind == 'CXXOperatorCallExpr' and n.callee_name() == 'operator=' and len(n.kids) > 1:
            tgt = n.kids[1]
        if tgt is not None:
            for x in names(tgt):
                assigned[x] = max(assigned.get(x, ('', 0, 0)), _pos(n))
    own_init = {}
    for n in body.walk():
        if n.kind in ('IfStmt', 'SwitchStmt') and (n.x or {}).get('hasInit') and n.kids and n.kids[0] is not None:
            for v in n.kids[0].walk():
                if v.kind == 'VarDecl' and v.id in decls:
                    own_init[v.id] = n
    # all assignment positions per name, and the loops that enclose each node
    assigned_all = {}
    for n in body.walk():
        tgt = None
        if n.kind in ('BinaryOperator', 'CompoundAssignOperator') and \
                (n.op == '=' or n.kind == 'CompoundAssignOperator') and n.kids:
            tgt = n.kids[0]
        elif n.kind == 'UnaryOperator' and n.op in ('++', '--') and n.kids:
            tgt = n.kids[0]
        elif n.kind == 'CXXOperatorCallExpr' and n.callee_name() in ('operator=', 'operator++', 'operator--') \
                and len(n.kids) > 1:
            tgt = n.kids[1]
        if tgt is not None:
            for x in names(tgt):
                assigned_all.setdefault(x, []).append(_pos(n))
    loops_of = {}

    def mark(n, stack):
        loops_of[id(n)] = stack
        inner = stack + (id(n),) if n.kind in ('ForStmt', 'WhileStmt', 'DoStmt', 'CXXForRangeStmt') else stack
        for k in n.kids:
            if k is not None and k.kind != 'LambdaExpr':
                mark(k, inner)
    mark(body, ())

    def stable_at(vid, use):
        """(b) no assignment to anything the initialiser reads stands between the declaration and
        this use, and the use is in no loop the declaration is outside of"""
        d = decl_node[vid]
        dl, ul = loops_of.get(id(d), ()), loops_of.get(id(use), ())
        if ul[:len(dl)] != dl or len(ul) > len(dl):
            # the use sits in a loop that does not contain the declaration: an assignment later in
            # that loop's body would reach the use again
            if any(assigned_all.get(x) for x in names(decls[vid])):
                return False
        lo, hi = _pos(d), _pos(use)
        for x in names(decls[vid]):
            if any(lo < p <= hi for p in assigned_all.get(x, ())):
                return False
        return True

    def subst(e, owner=None):
        if e is None:
            return e
        if e.kind == 'DeclRefExpr' and (e.ref or {}).get('id') in decls:
            vid = e.ref['id']
            if (owner is not None and own_init.get(vid) is owner) or stable_at(vid, e):
                return decls[vid]
            return e
        if e.kind == 'LambdaExpr':
            return e
        e.kids = [subst(k, owner) if k is not None else None for k in e.kids]
        return e
    for n in body.walk():
        x = n.x or {}
        if n.kind in ('IfStmt', 'SwitchStmt'):
            i = (1 if x.get('hasInit') else 0) + (1 if x.get('hasVar') else 0)
            if i < len(n.kids):
                n.kids[i] = subst(n.kids[i], n)
        elif n.kind == 'WhileStmt':
            i = 1 if x.get('hasVar') else 0
            if i < len(n.kids):
                n.kids[i] = subst(n.kids[i])
        elif n.kind == 'ForStmt' and len(n.kids) >= 3:
            n.kids[2] = subst(n.kids[2])
        elif n.kind == 'ConditionalOperator' and n.kids:
            n.kids[0] = subst(n.kids[0])
        elif n.kind == 'DoStmt' and len(n.kids) >= 2:
            n.kids[1] = subst(n.kids[1])
    # a name that is now read nowhere stood for its test only: its declaration is dropped from an
    # init-statement, or marked as an alias (a no-op for every rule) where it is a statement of
    # its own
    used = set()
    for n in body.walk():
        if n.kind == 'DeclRefExpr' and (n.ref or {}).get('id') in decls:
            used.add(n.ref['id'])
    dead = {vid for vid in decls if vid not in used}
    for n in body.walk():
        if n.kind in ('IfStmt', 'SwitchStmt') and (n.x or {}).get('hasInit') and n.kids and n.kids[0] is not None:
            vds = [v for v in n.kids[0].walk() if v.kind == 'VarDecl']
            if vds and all(v.id in dead for v in vds):
                n.kids = n.kids[1:]
                n.x = dict(n.x, hasInit=False)
        elif n.kind == 'VarDecl' and n.id in dead:
            n.x = dict(n.x or {}, cond_alias=True)


def _sig(n):
    """structure of a subtree without positions (two spellings of the same exit compare equal)"""
    if n is None:
        return None
    return (n.kind, n.name, n.op, n.value, (n.ref or {}).get('id'), tuple(_sig(k) for k in n.kids))


def _effective(stmt):
    """statements of a branch, nested plain blocks flattened, null statements and alias
    declarations dropped"""
    if stmt is None:
        return []
    if stmt.kind == 'CompoundStmt':
        out = []
        for k in stmt.kids:
            if k is not None:
                out += _effective(k)
        return out
    if stmt.kind == 'NullStmt':
        return []
    if stmt.kind == 'DeclStmt':
        vds = [k for k in stmt.kids if k is not None]
        if vds and all(k.kind == 'VarDecl' and (k.x or {}).get('cond_alias') for k in vds):
            return []
    return [stmt]


def _plain_if(n):
    """`if (c) S` with no else, no init-statement, no condition variable, not `if constexpr`"""
    if n is None or n.kind != 'IfStmt':
        return False
    x = n.x or {}
    if x.get('hasInit') or x.get('hasVar') or x.get('isConstexpr') or x.get('constexpr'):
        return False
    return len(n.kids) == 2 or (len(n.kids) == 3 and n.kids[2] is None)


def _exit_only(stmt):
    """the branch is one return / throw / continue / break"""
    es = _effective(stmt)
    if len(es) != 1:
        return False
    e = es[0]
    while e.kind == 'ExprWithCleanups' and e.kids:
        e = e.kids[0]
    return e.kind in ('ReturnStmt', 'CXXThrowExpr', 'ContinueStmt', 'BreakStmt')


def _logical(op, a, b):
    n = Node('BinaryOperator')
    n.op = op
    n.type = 'bool'
    n.kids = [a, b]
    n.file, n.line, n.col = a.file, a.line, a.col
    return n


def merge_split_guards(body):
    """One guard, one `if`: `if (A) { if (B) S }` (neither with an else) is shown as
    `if (A && B) S`, and `if (A) X; if (B) X;` with the same single exiting statement X as
    `if (A || B) X`.  `&&` / `||` evaluate left to right and stop early exactly like the chain of
    statements, so the rules read one compound test whichever way the guard was written."""
    if body is None:
        return
    changed = True
    while changed:
        changed = False
        for n in list(body.walk()):
            if _plain_if(n):
                es = _effective(n.kids[1])
                if len(es) == 1 and _plain_if(es[0]) and n.kids[1] is not None:
                    inner = es[0]
                    # nothing else may live in the outer branch (a declaration would change scope
                    # only, but keep to the exact shape)
                    n.kids = [_logical('&&', n.kids[0], inner.kids[0]), inner.kids[1]]
                    changed = True
            if n.kind == 'CompoundStmt':
                kids = n.kids
                i = 0
                while i < len(kids):
                    a = kids[i]
                    if _plain_if(a) and _exit_only(a.kids[1]):
                        j = i + 1
                        while j < len(kids) and not _effective(kids[j]) and \
                                (kids[j] is None or kids[j].kind == 'NullStmt'):
                            j += 1
                        if j < len(kids) and _plain_if(kids[j]) and _exit_only(kids[j].kids[1]) and \
                                _sig(_effective(a.kids[1])[0]) == _sig(_effective(kids[j].kids[1])[0]):
                            a.kids = [_logical('||', a.kids[0], kids[j].kids[0]), a.kids[1]]
                            del kids[i + 1:j + 1]
                            changed = True
                            continue
                    i += 1


def _always_exits(stmt):
    """the statement list ends by leaving: its last effective statement is a return / throw /
    continue / break, or an if / else both of whose arms end that way"""
    es = _effective(stmt)
    if not es:
        return False
    e = es[-1]
    while e.kind == 'ExprWithCleanups' and e.kids:
        e = e.kids[0]
    if e.kind in ('ReturnStmt', 'CXXThrowExpr', 'ContinueStmt', 'BreakStmt'):
        return True
    if e.kind == 'IfStmt' and len(e.kids) >= 3 and e.kids[2] is not None and not (e.x or {}).get('hasInit') \
            and not (e.x or {}).get('hasVar'):
        return _always_exits(e.kids[1]) and _always_exits(e.kids[2])
    return False


def hoist_else_after_exit(body):
    """No else after a branch that always leaves: `if (c) { ...; return x; } else { REST }` is shown
    as `if (c) { ...; return x; }` followed by REST in the enclosing block.  Control reaches REST
    exactly when c is false either way, so the rules read one form whichever way the code was
    written (`else if` chains after exiting arms become a sequence of guards)."""
    if body is None:
        return

    def plain_with_else(n):
        x = n.x or {}
        return n.kind == 'IfStmt' and len(n.kids) >= 3 and n.kids[2] is not None and \
            not x.get('hasInit') and not x.get('hasVar') and not x.get('isConstexpr') and not x.get('constexpr')

    def rewrite_list(kids):
        i = 0
        while i < len(kids):
            k = kids[i]
            if k is not None and plain_with_else(k) and _always_exits(k.kids[1]):
                els = k.kids[2]
                k.kids = k.kids[:2]
                k.x = dict(k.x or {}, hasElse=False)
                tail = list(els.kids) if els.kind == 'CompoundStmt' else [els]
                kids[i + 1:i + 1] = tail
            i += 1

    def visit(n):
        for k in n.kids:
            if k is not None and k.kind != 'LambdaExpr':
                visit(k)
        if n.kind == 'CompoundStmt':
            rewrite_list(n.kids)
            return
        # a conditional that is the whole body of a loop / case / branch: give it a block
        for idx, k in enumerate(n.kids):
            if k is not None and plain_with_else(k) and _always_exits(k.kids[1]) and \
                    n.kind in ('ForStmt', 'WhileStmt', 'DoStmt', 'CXXForRangeStmt', 'CaseStmt', 'DefaultStmt',
                               'IfStmt', 'LabelStmt') and \
                    not (n.kind == 'IfStmt' and idx == 0):
                blk = Node('CompoundStmt')
                blk.file, blk.line, blk.col = k.file, k.line, k.col
                blk.kids = [k]
                rewrite_list(blk.kids)
                n.kids[idx] = blk
    visit(body)


_FLIP = {'==': '!=', '!=': '==', '<': '>=', '>=': '<', '>': '<=', '<=': '>'}


def _copy_node(n):
    c = Node(n.kind)
    for a in Node.__slots__:
        setattr(c, a, getattr(n, a))
    c.kids = list(n.kids)
    c.x = dict(n.x) if n.x else n.x
    c.ref = dict(n.ref) if n.ref else n.ref
    return c


def _is_boolish(e):
    t = (e.type or '').replace('const ', '').strip() if e is not None else ''
    return t == 'bool'


def _floaty(e):
    return any(w in ((e.type or '') if e is not None else '') for w in ('float', 'double'))


def normalise_negations(body):
    """Negations are pushed inward (negation normal form): `!(a == b)` is shown as `a != b`,
    `!(a < b)` as `a >= b` (integers, pointers, enumerators - not floating point), `!(A && B)` as
    `!A || !B`, `!(A || B)` as `!A && !B`, and `!!x` as `x` wherever a bool is expected anyway (a
    condition, an operand of `&&` / `||` / `!`) or x is a bool.  `operator==` / `operator!=` calls
    (std::string, shared_ptr, iterators) are flipped the same way.  What remains negated is an
    atom: a call, a name, a member.  The rules read one spelling of a test however it was written."""
    if body is None:
        return

    def neg(x, boolctx):
        """the representation of `!x`"""
        if x is None:
            return None
        if x.kind == 'UnaryOperator' and x.op == '!' and x.kids:
            inner = x.kids[0]
            if boolctx or _is_boolish(inner):
                return rw(inner, True)
            n = _copy_node(x)
            n.kids = [rw(inner, True)]
            out = Node('UnaryOperator')
            out.op, out.type, out.kids = '!', 'bool', [n]
            out.file, out.line, out.col = x.file, x.line, x.col
            return out
        if x.kind == 'BinaryOperator' and x.op in ('&&', '||') and len(x.kids) == 2:
            n = _copy_node(x)
            n.op = '||' if x.op == '&&' else '&&'
            n.kids = [neg(x.kids[0], True), neg(x.kids[1], True)]
            return n
        if x.kind == 'BinaryOperator' and x.op in _FLIP and len(x.kids) == 2 and \
                not (x.op not in ('==', '!=') and (_floaty(x.kids[0]) or _floaty(x.kids[1]))):
            n = _copy_node(x)
            n.op = _FLIP[x.op]
            n.kids = [rw(x.kids[0], False), rw(x.kids[1], False)]
            return n
        if x.kind == 'CXXOperatorCallExpr' and x.callee_name() in ('operator==', 'operator!=') and \
                len(x.kids) == 3 and x.kids[0] is not None and x.kids[0].ref:
            n = _copy_node(x)
            callee = _copy_node(x.kids[0])
            callee.ref['name'] = 'operator!=' if x.callee_name() == 'operator==' else 'operator=='
            if callee.name:
                callee.name = callee.ref['name']
            n.kids = [callee, rw(x.kids[1], False), rw(x.kids[2], False)]
            return n
        out = Node('UnaryOperator')
        out.op, out.type = '!', 'bool'
        out.kids = [rw(x, True)]
        out.file, out.line, out.col = x.file, x.line, x.col
        out.x = {'isPostfix': False}
        return out

    def rw(e, boolctx=False):
        if e is None:
            return None
        k = e.kind
        if k == 'LambdaExpr':
            return e
        if k == 'UnaryOperator' and e.op == '!' and e.kids:
            return neg(e.kids[0], boolctx)
        if k == 'BinaryOperator' and e.op in ('&&', '||'):
            e.kids = [rw(c, True) for c in e.kids]
            return e
        x = e.x or {}
        if k == 'IfStmt':
            i = (1 if x.get('hasInit') else 0) + (1 if x.get('hasVar') else 0)
            e.kids = [rw(c, (j == i and not x.get('hasVar'))) for j, c in enumerate(e.kids)]
            return e
        if k == 'WhileStmt':
            i = 1 if x.get('hasVar') else 0
            e.kids = [rw(c, (j == i and not x.get('hasVar'))) for j, c in enumerate(e.kids)]
            return e
        if k == 'ForStmt' and len(e.kids) >= 3:
            e.kids = [rw(c, j == 2) for j, c in enumerate(e.kids)]
            return e
        if k == 'DoStmt' and len(e.kids) >= 2:
            e.kids = [rw(c, j == 1) for j, c in enumerate(e.kids)]
            return e
        if k == 'ConditionalOperator' and e.kids:
            e.kids = [rw(c, j == 0) for j, c in enumerate(e.kids)]
            return e
        e.kids = [rw(c, False) for c in e.kids]
        return e
    rw(body)


def _is_constant(k):
    """a literal, nullptr or an enumerator (wrappers are already peeled by conv)"""
    if k is None:
        return False
    if k.kind in ('IntegerLiteral', 'CXXNullPtrLiteralExpr', 'CXXBoolLiteralExpr', 'CharacterLiteral',
                  'GNUNullExpr', 'FloatingLiteral'):
        return True
    if k.kind == 'DeclRefExpr' and (k.ref or {}).get('kind') == 'EnumConstantDecl':
        return True
    if k.kind in ('CStyleCastExpr', 'CXXStaticCastExpr', 'CXXFunctionalCastExpr') and k.kids:
        return _is_constant(k.kids[-1])
    if k.kind == 'UnaryOperator' and k.op == '-' and k.kids:
        return _is_constant(k.kids[0])
    return False


def _is_const_sig(sig):
    return bool(re.search(r'\)\s*const\b', sig or ''))


def _run_tu(args):
    config, tu = args
    exe = ensure_filter()
    cmd = [CLANG] + flags(config) + ['-Xclang', '-ast-dump=json', tu]
    t0 = time.time()
    with tempfile.TemporaryFile() as out, tempfile.TemporaryFile() as err:
        p1 = subprocess.Popen(cmd, cwd=REPO, stdout=subprocess.PIPE, stderr=err)
        p2 = subprocess.Popen([exe], stdin=p1.stdout, stdout=out, stderr=subprocess.DEVNULL)
        p1.stdout.close()
        p2.wait()
        p1.wait()
        if p1.returncode != 0:
            err.seek(0)
            raise FrontendError('%s does not parse in configuration %s:\n%s'
                                % (tu, config, err.read().decode(errors='replace')[-3000:]))
        out.seek(0)
        chunks = json.load(out)
    b = _TUBuilder(tu)
    for ch in chunks:
        b.loc = _Loc(ch['file'], ch['line'])
        b.visit_decl(ch['decl'], [], False)
    # canonicalise ids through previousDecl chains
    for i, p in b.prev.items():
        k = b.decl_key.get(i)
        seen = set()
        while p and p not in seen:
            seen.add(p)
            if b.decl_key.get(p) is None and k is not None:
                b.decl_key[p] = k
            p = b.prev.get(p)
    return {'tu': tu, 'funcs': b.funcs, 'decl_key': b.decl_key, 'records': b.records,
            'enums': b.enums, 'globals': b.globals, 'seconds': time.time() - t0,
            'chunks': len(chunks)}


def build_program(config, jobs=None):
    tus = tu_list()
    jobs = jobs or min(len(tus), os.cpu_count() or 4)
    prog = Program()
    prog.config = config
    prog.tus = tus
    ensure_filter()
    with ProcessPoolExecutor(max_workers=jobs) as ex:
        results = list(ex.map(_run_tu, [(config, t) for t in tus]))
    ctor_index = {}
    for r in results:
        for f in r['funcs']:
            if f.key not in prog.funcs:
                prog.funcs[f.key] = f
        for i, k in r['decl_key'].items():
            if k is not None:
                prog.idmap[(r['tu'], i)] = k
        for q, rec in r['records'].items():
            old = prog.records.get(q)
            if old is None or len(rec.fields) > len(old.fields):
                prog.records[q] = rec
        prog.enums.update(r['enums'])
        for q, g in r['globals'].items():
            if q not in prog.globals or (g[3] is not None and prog.globals[q][3] is None):
                prog.globals[q] = g + (r['tu'],)
            prog.idmap.setdefault((r['tu'], g[5]), ('var', q))
    prog.meta['tu_seconds'] = {r['tu']: round(r['seconds'], 2) for r in results}
    prog.meta['tu_chunks'] = {r['tu']: r['chunks'] for r in results}
    # constructor resolution: (record qualname, ctor signature) -> key
    for k, f in prog.funcs.items():
        if f.record and f.name == f.record.split('::')[-1]:
            ctor_index[(f.record.split('::')[-1], f.sig)] = k
    for f in prog.funcs.values():
        roots = [f.body] + list(f.inits)
        for root in roots:
            if root is None:
                continue
            for n in root.walk():
                if n.kind in CTOR_KINDS:
                    cls = (n.type or '').replace('const ', '').split('::')[-1].strip(' &')
                    k = ctor_index.get((cls, (n.x or {}).get('ctorType')))
                    if k is not None:
                        if n.x is None:
                            n.x = {}
                        n.x['ctor_key'] = k
    return prog


def load_program(config=SHIPPED, jobs=None, verbose=False):
    """Program for /repo's current tree (cached by content digest)."""
    if config not in CONFIGS:
        raise FrontendError('unknown configuration ' + config)
    os.makedirs(CACHE, exist_ok=True)
    key = digest(config)
    path = os.path.join(CACHE, 'cxx-%s-%s.pickle' % (config, key))
    lock = os.path.join(CACHE, 'cxx-%s-%s.lock' % (config, key))
    with open(lock, 'w') as lf:
        fcntl.flock(lf, fcntl.LOCK_EX)
        try:
            if os.path.exists(path):
                try:
                    with open(path, 'rb') as fh:
                        prog = pickle.load(fh)
                    prog.meta['cache'] = 'hit'
                    return prog
                except Exception:
                    pass
            t0 = time.time()
            prog = build_program(config, jobs)
            prog.meta['parse_seconds'] = round(time.time() - t0, 2)
            prog.meta['cache'] = 'miss'
            prog.meta['digest'] = key
            tmp = path + '.%d.tmp' % os.getpid()
            sys.setrecursionlimit(100000)
            with open(tmp, 'wb') as fh:
                pickle.dump(prog, fh, protocol=pickle.HIGHEST_PROTOCOL)
            os.replace(tmp, path)
            # prune old cache entries of this configuration
            olds = sorted(glob.glob(os.path.join(CACHE, 'cxx-%s-*.pickle' % config)),
                          key=lambda q: os.path.getmtime(q) if os.path.exists(q) else 0)
            keep = int(os.environ.get('OPTREE_VERIF_CACHE_KEEP', '4'))
            for old in olds[:-keep]:
                if old != path:
                    try:
                        os.remove(old)
                        os.remove(old.replace('.pickle', '.lock'))
                    except OSError:
                        pass
            return prog
        finally:
            fcntl.flock(lf, fcntl.LOCK_UN)


if __name__ == '__main__':
    cfg = sys.argv[1] if len(sys.argv) > 1 else SHIPPED
    t = time.time()
    p = load_program(cfg, verbose=True)
    print('config', cfg, 'cache', p.meta.get('cache'), 'funcs', len(p.funcs),
          'records', len(p.records), 'enums', len(p.enums), 'seconds', round(time.time() - t, 2))
    for f in sorted(p.funcs.values(), key=lambda f: (f.file, f.line)):
        print('%-40s %s %s%s' % (f.loc, f.label, '[dep]' if f.dependent else '',
                                 '[lambda of %s]' % (f.parent,) if f.is_lambda else ''))
