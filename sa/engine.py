"""Rule engine: obligations, verdicts, known findings, evidence, exit codes."""
from __future__ import annotations

import json
import os
import sys
import time
import traceback

HERE = os.path.dirname(os.path.abspath(__file__))
VERIF = os.path.dirname(HERE)
EVIDENCE_DIR = os.environ.get('OPTREE_VERIF_EVIDENCE') or os.path.join(VERIF, 'evidence')
REPLAY_DIR = os.path.join(EVIDENCE_DIR, 'replay')
KNOWN = os.path.join(VERIF, 'known_findings.json')


def _frontend_errors():
    from .cxx_frontend import FrontendError
    from .py_frontend import PyFrontendError
    from .cfg import CfgError
    return (FrontendError, PyFrontendError, CfgError)


class _Lazy(tuple):
    pass


class AnalysisError(Exception):
    """The analysis cannot give a verdict (front end failed, anchor vanished, floor missed,
    unknown idiom on a rule-relevant path).  Exit 2, never a VIOLATION."""


class Ob:
    __slots__ = ('rule', 'site', 'status', 'detail', 'loc', 'facts', 'config')

    def __init__(self, rule, site, status, detail, loc=None, facts=None, config=None):
        self.rule = rule
        self.site = site
        self.status = status      # 'ok' | 'violated' | 'info'
        self.detail = detail
        self.loc = loc
        self.facts = facts
        self.config = config

    @property
    def key(self):
        return '%s:%s' % (self.rule, self.site)

    def as_dict(self):
        d = {'rule': self.rule, 'site': self.site, 'status': self.status, 'detail': self.detail}
        if self.loc:
            d['loc'] = self.loc
        if self.facts:
            d['facts'] = self.facts
        if self.config:
            d['config'] = self.config
        return d


RULES = {}


def rule(rid, floor=1, title=''):
    def deco(fn):
        RULES[rid] = {'fn': fn, 'floor': floor, 'title': title or (fn.__doc__ or '').strip()
                      .split('\n')[0]}
        return fn
    return deco


class Ctx:
    def __init__(self, tier='quick', config=None):
        self.tier = tier
        self.config = config or 'py312'
        self.obs = []
        self._cxx = {}
        self._eff = {}
        self._py = None
        self.cur_rule = None
        self.analysed = {}
        self.assumptions = set()
        self.pid = None      # the property the rules are run for (a rule may narrow its scope to it)

    # ---- front ends (lazy) -------------------------------------------------------------------
    def cxx(self, config=None):
        from . import cxx_frontend
        config = config or self.config
        if config not in self._cxx:
            try:
                self._cxx[config] = cxx_frontend.load_program(config)
            except cxx_frontend.FrontendError as e:
                raise AnalysisError('C++ front end (%s): %s' % (config, e))
            p = self._cxx[config]
            self.analysed.setdefault('cxx', {})[config] = {
                'translation_units': len(p.tus),
                'function_definitions': len([f for f in p.funcs.values() if not f.dependent]),
                'records': len(p.records),
                'cache': p.meta.get('cache'),
            }
        return self._cxx[config]

    def effects(self, config=None):
        from .effects import Effects
        config = config or self.config
        if config not in self._eff:
            self._eff[config] = Effects(self.cxx(config))
        return self._eff[config]

    def py(self):
        from . import py_frontend
        if self._py is None:
            try:
                self._py = py_frontend.load_package()
            except py_frontend.PyFrontendError as e:
                raise AnalysisError('Python front end: %s' % e)
            self.analysed['python'] = {'modules': len(self._py.modules),
                                       'functions': self._py.num_functions()}
        return self._py

    # ---- obligations -------------------------------------------------------------------------
    def ok(self, site, detail, loc=None, facts=None, rule=None):
        self.obs.append(Ob(rule or self.cur_rule, site, 'ok', detail, loc, facts, self.config))

    def bad(self, site, detail, loc=None, facts=None, rule=None):
        self.obs.append(Ob(rule or self.cur_rule, site, 'violated', detail, loc, facts,
                           self.config))

    def info(self, site, detail, loc=None, facts=None, rule=None):
        self.obs.append(Ob(rule or self.cur_rule, site, 'info', detail, loc, facts, self.config))

    def check(self, site, cond, detail_ok, detail_bad=None, loc=None, facts=None):
        if cond:
            self.ok(site, detail_ok, loc, facts)
        else:
            self.bad(site, detail_bad or ('NOT: ' + detail_ok), loc, facts)
        return bool(cond)

    def require(self, cond, msg):
        if not cond:
            raise AnalysisError('%s: %s' % (self.cur_rule, msg))

    def fail(self, msg):
        raise AnalysisError('%s: %s' % (self.cur_rule, msg))

    def run_rule(self, rid):
        r = RULES.get(rid)
        if r is None:
            raise AnalysisError('rule %s is not implemented' % rid)
        before = len(self.obs)
        self.cur_rule = rid
        try:
            r['fn'](self)
        finally:
            self.cur_rule = None
        n = len([o for o in self.obs[before:] if o.status in ('ok', 'violated')])
        nbad = len([o for o in self.obs[before:] if o.status == 'violated'])
        if n < r['floor'] and not nbad:
            raise AnalysisError('rule %s matched %d site(s), fewer than the %d confirmed on the '
                                'pinned tree: an anchor has vanished or the extractor no longer '
                                'recognises the code' % (rid, n, r['floor']))


def load_known():
    try:
        with open(KNOWN) as fh:
            data = json.load(fh)
    except FileNotFoundError:
        return []
    return data.get('findings', [])


def run_property(pid, rules, tier, explanation, declined, configs=None, replay=None):
    """Run the rules of one property; write evidence; return exit code."""
    t0 = time.time()
    seed = int(os.environ.get('VERIF_SEED', '0') or 0)
    configs = configs or ['py312']
    all_obs = []
    analysed = {}
    assumptions = set()
    errors = []
    try:
        for cfg in configs:
            ctx = Ctx(tier, cfg)
            ctx.pid = pid
            for rid in rules:
                info = RULES.get(rid)
                if info is None:
                    raise AnalysisError('rule %s is not implemented' % rid)
                if cfg != configs[0] and info.get('uses_cxx') is False:
                    continue
                before = len(ctx.obs)
                ncxx = len(ctx._cxx)
                try:
                    ctx.run_rule(rid)
                except AnalysisError as e:
                    # a rule that cannot give a verdict does not hide what the others found
                    errors.append('%s (configuration %s)' % (e, cfg))
                    del ctx.obs[before:]
                except _frontend_errors() as e:
                    errors.append('%s: %s (configuration %s)' % (rid, e, cfg))
                    del ctx.obs[before:]
                if 'uses_cxx' not in info:
                    info['uses_cxx'] = bool(ctx._cxx)
            all_obs.extend(ctx.obs)
            for k, v in ctx.analysed.items():
                if isinstance(v, dict):
                    analysed.setdefault(k, {}).update(v)
                else:
                    analysed[k] = v
            assumptions |= ctx.assumptions
    except AnalysisError as e:
        print('ANALYSIS-ERROR property=%s %s' % (pid, e))
        return 2
    except Exception:
        print('ANALYSIS-ERROR property=%s internal error in the checker:' % pid)
        traceback.print_exc(file=sys.stdout)
        return 2

    known = [k for k in load_known() if k.get('property') == pid and k.get('status') != 'fixed']
    known_keys = {}
    for k in known:
        known_keys.setdefault(k['key'], k)
    violated = [o for o in all_obs if o.status == 'violated']
    new = []
    kf = []
    seen_kf = set()
    for o in violated:
        if o.key in known_keys:
            if o.key not in seen_kf:
                seen_kf.add(o.key)
                kf.append((o, known_keys[o.key]))
        else:
            new.append(o)

    for o, k in kf:
        print('KNOWN-FINDING: property=%s %s [%s at %s] %s' % (pid, k.get('what', o.detail),
                                                             o.key, o.loc, o.detail))
    os.makedirs(EVIDENCE_DIR, exist_ok=True)
    replay_paths = []
    if new:
        os.makedirs(REPLAY_DIR, exist_ok=True)
        seenk = set()
        for i, o in enumerate(new):
            if o.key in seenk:
                continue
            seenk.add(o.key)
            path = os.path.join(REPLAY_DIR, '%s-%s-%d.json' % (pid, o.rule, len(replay_paths)))
            with open(path, 'w') as fh:
                json.dump({'property': pid, 'violation': o.as_dict(), 'key': o.key}, fh, indent=1)
            replay_paths.append(path)
            print('VIOLATION property=%s replay=%s' % (pid, path))
            print('  rule %s at %s [%s]: %s' % (o.rule, o.loc, o.site, o.detail))

    if os.environ.get('OPTREE_VERIF_LIST'):
        for o in all_obs:
            print('  [%s] %s @%s %s' % (o.status, o.key, o.loc, (o.detail or '')[:160]))
    counted = [o for o in all_obs if o.status in ('ok', 'violated')]
    discharged = [o for o in all_obs if o.status == 'ok']
    distinct = len({o.key for o in counted})
    per_rule = {}
    for o in all_obs:
        r = per_rule.setdefault(o.rule, {'obligations': 0, 'discharged': 0, 'violated': 0,
                                         'info': 0, 'title': RULES[o.rule]['title']})
        if o.status == 'info':
            r['info'] += 1
        else:
            r['obligations'] += 1
            if o.status == 'ok':
                r['discharged'] += 1
            else:
                r['violated'] += 1
    samples = []
    by_rule_seen = {}
    for o in all_obs:
        c = by_rule_seen.get(o.rule, 0)
        if c < 3 or o.status == 'violated':
            samples.append(o.as_dict())
            by_rule_seen[o.rule] = c + 1
    ev = {
        'property_id': pid,
        'tier': tier,
        'seed': seed,
        'level': 'other',
        'coverage': {
            'explanation': explanation,
            'evaluations': len(counted),
            'distinct_nontrivial': distinct,
            'rule': 'one obligation per (rule, site, configuration); distinct = distinct '
                    '(rule, site) pairs whose extractor matched a real construct in /repo; '
                    'non-trivial = the rule had to inspect code (no constant obligations)',
            'obligations': len(counted),
            'discharged': len(discharged),
            'violated_known_findings': len(kf),
            'violated_new': len(new),
            'samples': samples[:60],
            'per_rule': per_rule,
            'analysed': analysed,
            'configurations': configs,
            'declined_clauses': declined,
            'exhaustive': True,
            'checker_cmd': './check %s --tier %s' % (pid, tier),
            'trusted_base': ['clang-14 parser and JSON AST dumper', 'CPython ast module',
                             'effect table sa/effects.py', 'domain tables in sa/rules/*.py'],
        },
        'assumptions': sorted(assumptions | {
            'static analysis of the source as it is on disk; nothing is executed',
            'clang-14 front end and its JSON dump are faithful to the build compiler',
            'effect classification of external callees (sa/effects.py) is correct',
        }),
        'wall_s': round(time.time() - t0, 3),
        'violations': len(new),
    }
    with open(os.path.join(EVIDENCE_DIR, pid + '.json'), 'w') as fh:
        json.dump(ev, fh, indent=1)
    print('%s tier=%s rules=%s obligations=%d discharged=%d known-findings=%d new-violations=%d '
          'wall=%.1fs' % (pid, tier, ','.join(rules), len(counted), len(discharged), len(kf),
                          len(new), time.time() - t0))
    for e in errors:
        print('ANALYSIS-ERROR property=%s %s' % (pid, e))
    if replay is not None:
        try:
            want = json.load(open(replay)).get('key')
        except Exception as e:
            print('ANALYSIS-ERROR cannot read replay file: %s' % e)
            return 2
        hit = [o for o in violated if o.key == want]
        if hit:
            print('REPLAY: violation %s still present at %s: %s' % (want, hit[0].loc,
                                                                   hit[0].detail))
            return 1
        print('REPLAY: violation %s no longer present' % want)
        return 0
    if new:
        return 1
    return 2 if errors else 0
