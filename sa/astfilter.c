/* astfilter: stream filter for `clang -Xclang -ast-dump=json`.
 *
 * Reads the pretty-printed JSON of one translation unit on stdin and writes a JSON array on
 * stdout with one element per *kept* top-level declaration:
 *     {"file": <last printed file before the chunk>, "line": <last printed line>, "decl": {...}}
 * A top-level declaration is kept when its own location (the file in effect after its "loc"
 * object has been printed) contains one of the path fragments given on the command line
 * (default: "include/optree/" and "src/").
 *
 * clang's JSON dumper prints "file"/"line" inside a location only when they differ from the
 * previously *printed* location (the "file" inside an "includedFrom" object does not count), so
 * the filter tracks every such emission over the whole stream, kept or not, and records the
 * state at the start of each kept chunk; the reader resumes from there.
 *
 * The dump is line oriented (one key per line, two spaces per nesting level); top-level
 * declarations are the objects opened by a line that is exactly four spaces and '{'.
 */
#include <stdio.h>
#include <stdlib.h>
#include <string.h>

#define MAXPAT 16
static const char *pats[MAXPAT];
static int npats = 0;

static char cur_file[8192] = "";
static long cur_line = 0;

static int wanted(const char *f) {
    for (int i = 0; i < npats; i++)
        if (strstr(f, pats[i])) return 1;
    return 0;
}

static void json_str(FILE *o, const char *s) {
    fputc('"', o);
    for (; *s; s++) {
        if (*s == '"' || *s == '\\') fputc('\\', o);
        fputc(*s, o);
    }
    fputc('"', o);
}

/* growable buffer for the head of a chunk (until the keep/drop decision) */
static char *buf = NULL;
static size_t blen = 0, bcap = 0;
static void bput(const char *s, size_t n) {
    if (blen + n + 1 > bcap) {
        bcap = (blen + n + 1) * 2 + 4096;
        buf = realloc(buf, bcap);
        if (!buf) { perror("realloc"); exit(3); }
    }
    memcpy(buf + blen, s, n);
    blen += n;
}

int main(int argc, char **argv) {
    for (int i = 1; i < argc && npats < MAXPAT; i++) pats[npats++] = argv[i];
    if (npats == 0) { pats[npats++] = "include/optree/"; pats[npats++] = "src/"; }

    char *line = NULL;
    size_t cap = 0;
    ssize_t n;
    int in_chunk = 0;      /* inside a top-level decl */
    int decided = 0;       /* keep/drop known */
    int keep = 0;
    int in_loc = 0;        /* inside the decl's own "loc" object */
    int prev_included_from = 0;
    int first_out = 1;
    char start_file[8192];
    long start_line = 0;
    long kept = 0, total = 0;

    fputs("[\n", stdout);
    while ((n = getline(&line, &cap, stdin)) > 0) {
        /* indentation */
        size_t ind = 0;
        while (ind < (size_t)n && line[ind] == ' ') ind++;
        const char *t = line + ind;

        if (!in_chunk) {
            if (ind == 4 && t[0] == '{' && (t[1] == '\n' || t[1] == '\r')) {
                in_chunk = 1; decided = 0; keep = 0; in_loc = 0; blen = 0;
                strncpy(start_file, cur_file, sizeof start_file - 1);
                start_file[sizeof start_file - 1] = 0;
                start_line = cur_line;
                total++;
                bput(line, (size_t)n);
            }
            continue;
        }

        /* location state tracking (whole stream) */
        if (t[0] == '"') {
            if (!strncmp(t, "\"includedFrom\": {", 17)) {
                prev_included_from = 1;
            } else {
                if (!strncmp(t, "\"file\": \"", 9)) {
                    if (!prev_included_from) {
                        const char *s = t + 9;
                        size_t k = 0;
                        while (*s && *s != '"' && k < sizeof cur_file - 1) {
                            if (*s == '\\' && s[1]) s++;
                            cur_file[k++] = *s++;
                        }
                        cur_file[k] = 0;
                    }
                } else if (!strncmp(t, "\"line\": ", 8)) {
                    cur_line = atol(t + 8);
                }
                prev_included_from = 0;
            }
        }

        if (!decided) {
            bput(line, (size_t)n);
            if (ind == 6 && !strncmp(t, "\"loc\": {", 8)) {
                if (strchr(t, '}')) { /* "loc": {}, — no location: builtin decl */
                    decided = 1; keep = wanted(cur_file) && 0;
                } else in_loc = 1;
            } else if (in_loc && ind == 6 && t[0] == '}') {
                in_loc = 0; decided = 1; keep = wanted(cur_file);
            }
            if (decided && keep) {
                if (!first_out) fputs(",\n", stdout);
                first_out = 0;
                fputs("{\"file\": ", stdout); json_str(stdout, start_file);
                fprintf(stdout, ", \"line\": %ld, \"decl\":\n", start_line);
                fwrite(buf, 1, blen, stdout);
                kept++;
            }
            /* fallthrough to end-of-chunk test */
        } else if (keep) {
            if (ind == 4 && t[0] == '}') {
                fputs("    }\n}", stdout);
            } else {
                fwrite(line, 1, (size_t)n, stdout);
            }
        }
        if (ind == 4 && t[0] == '}') {
            if (!decided) { /* chunk ended without a loc object: drop */ }
            in_chunk = 0;
        }
    }
    fputs("\n]\n", stdout);
    fprintf(stderr, "astfilter: kept %ld of %ld top-level declarations\n", kept, total);
    return 0;
}
