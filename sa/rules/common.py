"""Shared extractors for the C++ rules."""
from __future__ import annotations

from ..cxx_ir import CALL_KINDS, CTOR_KINDS, LOOP_KINDS
from ..cfg import cfg_of, switch_arms, const_eval

KIND_ENUM = 'optree::PyTreeKind'
ALL_KINDS = ['Custom', 'Leaf', 'None', 'Tuple', 'List', 'Dict', 'NamedTuple', 'OrderedDict',
             'DefaultDict', 'Deque', 'StructSequence']


def short(func):
    """Function name without namespace and without template arguments (site keys)."""
    q = func.qualname
    if q.startswith('optree::'):
        q = q[len('optree::'):]
    return q


def inst(func):
    """Short label including template arguments (reports)."""
    t = ('<%s>' % ','.join(func.targs)) if func.targs else ''
    return short(func) + t


def live_funcs(prog):
    return sorted((f for f in prog.funcs.values() if not f.dependent),
                  key=lambda f: (f.file or '', f.line or 0, f.targs, f.sig))


def funcs_named(prog, suffix, required=True):
    fs = [f for f in prog.by_suffix(suffix) if not f.dependent]
    return fs


def kind_switches(func):
    """SwitchStmt nodes over a PyTreeKind value, in source order (own body, not lambdas)."""
    out = []
    if func.body is None:
        return out
    for n in func.body.walk():
        if n.kind == 'SwitchStmt':
            cond = None
            for k in n.kids[:-1]:
                if k is not None:
                    cond = k
            t = (cond.type or '') if cond is not None else ''
            d = (cond.x or {}).get('desugared', '') if cond is not None else ''
            if 'PyTreeKind' in t or 'PyTreeKind' in d:
                out.append(n)
    return out


def calls_in(root, names=None, into_lambdas=False):
    """call-like nodes under root (optionally restricted to callee names)."""
    out = []
    if root is None:
        return out
    roots = root if isinstance(root, (list, tuple)) else [root]
    for r in roots:
        if r is None:
            continue
        for n in r.walk(into_lambdas):
            if n.kind in CALL_KINDS or n.kind in CTOR_KINDS:
                if names is None or n.callee_name() in names:
                    out.append(n)
    return out


def callee_func(prog, func, call):
    if call.kind in CALL_KINDS:
        return prog.target(func, call)
    if call.kind in CTOR_KINDS:
        k = (call.x or {}).get('ctor_key')
        return prog.funcs.get(k) if k else None
    return None


def enclosing_map(root):
    """id(node) -> parent node, for the subtree (not entering lambdas)."""
    parent = {}
    stack = [root]
    while stack:
        n = stack.pop()
        if n.kind == 'LambdaExpr':
            for k in n.kids:
                if k is not None:
                    parent[id(k)] = n
            continue
        for k in n.kids:
            if k is not None:
                parent[id(k)] = n
                stack.append(k)
    return parent


def ancestors(node, parent):
    out = []
    p = parent.get(id(node))
    while p is not None:
        out.append(p)
        p = parent.get(id(p))
    return out


def is_throw_of(node, cls_names):
    """node is `throw X{...}` with X's class among cls_names"""
    if node is None or node.kind != 'CXXThrowExpr':
        return False
    t = thrown_type(node)
    return t in cls_names


def thrown_type(throw):
    if not throw.kids or throw.kids[0] is None:
        return 'rethrow'
    e = throw.kids[0]
    t = e.type or ''
    t = t.replace('const ', '').strip()
    for pre in ('optree::', 'pybind11::', 'py::', 'std::'):
        pass
    return t.split('::')[-1] if t else '?'


def thrown_qual(throw):
    if not throw.kids or throw.kids[0] is None:
        return 'rethrow'
    t = (throw.kids[0].type or '').replace('const ', '').strip()
    return t.replace('pybind11::', 'py::')


def member_path(n):
    """Dotted access path of an lvalue-ish expression: node.custom->type => 'node.custom.type'.
    Looks through operator-> / operator* on smart pointers and iterators.  None if not a path."""
    if n is None:
        return None
    k = n.kind
    if k == 'DeclRefExpr':
        return (n.ref or {}).get('name')
    if k == 'CXXThisExpr':
        return 'this'
    if k == 'MemberExpr':
        b = member_path(n.kids[0]) if n.kids else 'this'
        if b is None:
            return None
        if b == 'this':
            return n.name
        return b + '.' + n.name
    if k == 'CXXOperatorCallExpr' and n.callee_name() in ('operator->', 'operator*') \
            and len(n.kids) == 2:
        return member_path(n.kids[1])
    if k == 'UnaryOperator' and n.op in ('*', '&'):
        return member_path(n.kids[0])
    if k in ('CXXStaticCastExpr', 'CStyleCastExpr', 'CXXFunctionalCastExpr',
             'CXXConstCastExpr', 'CXXReinterpretCastExpr'):
        return member_path(n.kids[0]) if n.kids else None
    if k == 'BinaryOperator' and n.op == ',' and len(n.kids) == 2:
        return member_path(n.kids[1])
    if k in CTOR_KINDS and len(n.kids) == 1:
        # copy construction / conversion of a path keeps the path (py::object{node.node_data})
        return member_path(n.kids[0])
    return None


def strip_casts(n):
    """peel casts and the `((void)guard{...}, expr)` comma wrapper of EVALUATE_WITH_LOCK_HELD
    (free-threaded configuration)"""
    while n is not None:
        if n.kind in ('CXXStaticCastExpr', 'CStyleCastExpr', 'CXXFunctionalCastExpr',
                      'CXXConstCastExpr', 'CXXReinterpretCastExpr') and n.kids:
            n = n.kids[-1]
        elif n.kind == 'BinaryOperator' and n.op == ',' and len(n.kids) == 2:
            n = n.kids[1]
        else:
            break
    return n


def unnegate(e):
    """(base expression, positive?) of a condition: peels parentheses, casts to bool and `!`"""
    pos = True
    while e is not None:
        e = strip_casts(e)
        if e.kind == 'ParenExpr' and e.kids:
            e = e.kids[0]
        elif e.kind == 'UnaryOperator' and e.op == '!' and e.kids:
            pos = not pos
            e = e.kids[0]
        elif e.kind in ('ImplicitCastExpr', 'ExprWithCleanups', 'MaterializeTemporaryExpr') and e.kids:
            e = e.kids[0]
        else:
            break
    return e, pos


def relation(e):
    """orientation-free reading of a built-in inequality: (small, big, strict) for `small < big`
    (strict) or `small <= big`; `a > b` is `b < a`.  None for anything else."""
    if e is None or e.kind != 'BinaryOperator' or e.op not in ('<', '<=', '>', '>=') or len(e.kids) != 2:
        return None
    l, r = e.kids
    if e.op in ('<', '<='):
        return l, r, e.op == '<'
    return r, l, e.op == '>'


def emptiness_test(e, base_ok):
    """Is the condition atom `e` an emptiness test of a container accepted by `base_ok(node)`?
    Returns (value of "is empty" when the atom is true, base node) or None.  Recognised spellings:
    x.empty(), x.size() == 0, x.size() != 0, x.size() > 0, x.size() >= 1, x.size() < 1,
    x.size() <= 0 (and the same with length()), each under any number of `!`."""
    from ..cfg import const_eval
    base, pos = unnegate(e)
    if base is None:
        return None

    def size_of(x):
        x = strip_casts(x)
        if x is not None and x.kind == 'CXXMemberCallExpr' and x.callee_name() in ('size', 'length') and \
                base_ok(x.call_base()):
            return x.call_base()
        return None
    if base.kind == 'CXXMemberCallExpr' and base.callee_name() == 'empty' and base_ok(base.call_base()):
        return pos, base.call_base()
    if base.kind == 'BinaryOperator' and base.op in ('==', '!=') and len(base.kids) == 2 and \
            const_eval(base.kids[1]) == 0 and size_of(base.kids[0]) is not None:
        v = (base.op == '==')
        return (v if pos else not v), size_of(base.kids[0])
    rel = relation(base)
    if rel is not None:
        small, big, strict = rel
        for cond, val, node in ((const_eval(small) == 0 and strict, False, big),
                                (const_eval(big) == 0 and not strict, True, small),
                                (const_eval(small) == 1 and not strict, False, big),
                                (const_eval(big) == 1 and strict, True, small)):
            if cond and size_of(node) is not None:
                return (val if pos else not val), size_of(node)
    return None


def if_outcome(ifstmt, node):
    """the outcome of the un-negated condition of `ifstmt` under which `node` runs: True, False,
    or None when the node is in neither arm.  `if (!(c)) B else A` and `if (c) A else B` agree."""
    base, pos = unnegate(ifstmt.kids[0])
    arms = [k for k in ifstmt.kids[1:] if k is not None]
    for i, arm in enumerate(arms[:2]):
        if any(x is node for x in arm.walk()):
            return base, (pos if i == 0 else not pos)
    return base, None


def local_inits(func):
    """name -> init expression for local variables declared with an initialiser."""
    out = {}
    if func.body is None:
        return out
    for n in func.body.walk():
        if n.kind == 'VarDecl' and n.name and n.kids:
            init = n.kids[-1]
            if init is not None:
                out.setdefault(n.name, init)
    return out


def assignments_to(func, name):
    """expressions assigned to local/member `name` (operator= / BinaryOperator =)."""
    out = []
    if func.body is None:
        return out
    for n in func.body.walk():
        if n.kind == 'BinaryOperator' and n.op == '=' and member_path(n.kids[0]) == name:
            out.append(n.kids[1])
        elif n.kind == 'CXXOperatorCallExpr' and n.callee_name() == 'operator=' \
                and len(n.kids) >= 3 and member_path(n.kids[1]) == name:
            out.append(n.kids[2])
    return out


def is_noop_stmt(n):
    """a statement without effect: `;`, `(void)0;`, `static_cast<void>(x);` of a literal / name"""
    if n is None or n.kind == 'NullStmt':
        return True
    if n.kind == 'DeclStmt':
        # a `const bool` that only names a test which the IR has put back into the condition
        vds = [k for k in n.kids if k is not None]
        if vds and all(k.kind == 'VarDecl' and (k.x or {}).get('cond_alias') for k in vds):
            return True
    if n.kind in ('CStyleCastExpr', 'CXXStaticCastExpr', 'CXXFunctionalCastExpr') and 'void' in (n.type or ''):
        inner = n.kids[-1] if n.kids else None
        return inner is None or inner.kind in ('IntegerLiteral', 'DeclRefExpr', 'CXXBoolLiteralExpr')
    return False


def effective_stmts(stmt):
    """the statements of a branch with compound nesting flattened and no-ops dropped"""
    if stmt is None:
        return []
    if stmt.kind == 'CompoundStmt':
        out = []
        for k in stmt.kids:
            if k is not None:
                out += effective_stmts(k) if k.kind == 'CompoundStmt' else ([] if is_noop_stmt(k) else [k])
        return out
    return [] if is_noop_stmt(stmt) else [stmt]


def effectively_const(func, vardecl):
    """the local is declared `const`, or nothing in the function (lambdas included) assigns to
    it, increments / decrements it or takes its address"""
    if (vardecl.type or '').startswith('const '):
        return True
    if func.body is None or vardecl.id is None:
        return False
    for n in func.body.walk(into_lambdas=True):
        tgt = None
        if n.kind in ('BinaryOperator', 'CompoundAssignOperator') and \
                (n.op == '=' or n.kind == 'CompoundAssignOperator') and n.kids:
            tgt = n.kids[0]
        elif n.kind == 'UnaryOperator' and n.op in ('++', '--', '&') and n.kids:
            tgt = n.kids[0]
        elif n.kind == 'CXXOperatorCallExpr' and n.callee_name() in ('operator=', 'operator++', 'operator--') \
                and len(n.kids) > 1:
            tgt = n.kids[1]
        if tgt is not None and tgt.kind == 'DeclRefExpr' and (tgt.ref or {}).get('id') == vardecl.id:
            return False
    return True
