"""Dataclass / partial / ravel rules: DC1-DC5, R1-R3."""
from __future__ import annotations

import ast
import re

from ..engine import rule
from ..py_frontend import (dotted, call_name, calls_under, walk, param_names, bind_call, is_name,
                           src, pycfg, pmatch, pfind)


def _first_param(fn):
    a = fn.args.posonlyargs + fn.args.args
    return a[0].arg if a else None


def _fields_call(it, c):
    """the dataclasses.fields(<class>) call inside a loop's iterable (the iterable itself, or
    wrapped: sorted(...), reversed(...), a filter)"""
    for n in ast.walk(it):
        if isinstance(n, ast.Call) and pmatch(n, 'dataclasses.fields(?c)', {'c': c}) is not None:
            return n
    return None


def _registration_function(ctx, mod):
    """the function that partitions the fields and registers the class (dataclass() itself, or a
    helper it delegates to)"""
    cands = []
    for q, f in mod.funcs.items():
        if '.' in q:
            continue
        c = _first_param(f)
        if c and any(isinstance(s, ast.For) and _fields_call(s.iter, c) is not None for s in f.body):
            cands.append((q, f))
    ctx.require(len(cands) == 1, 'optree.dataclasses: %d functions partition dataclasses.fields(<class>)'
                % len(cands))
    q, f = cands[0]
    if q != 'dataclass':
        dc = mod.func('dataclass')
        ctx.require(any(call_name(c) == q and c.args and is_name(c.args[0], 'cls')
                        for c in calls_under(dc)),
                    'dataclass() does not delegate to %s(cls, ...)' % q)
    return f, q


def _is_true_default(mod, e):
    """expression is the constant True, or a module-level name bound to True"""
    if isinstance(e, ast.Constant):
        return e.value is True
    if isinstance(e, ast.Name):
        d = mod.top_assign(e.id)
        return isinstance(d, ast.Constant) and d.value is True
    return False


# ---------------------------------------------------------------------------------------------
@rule('DC1', floor=6, title='dataclass fields are partitioned by the pytree_node flag; one name tuple feeds children, entries and unflatten')
def dc1(ctx):
    """Matches are structural (py_frontend.pmatch): local variable names are metavariables, so
    renaming `children_field_names`, `f`, `kwargs` ... changes nothing; what must agree is which
    value flows where."""
    pkg = ctx.py()
    mod = pkg.mod('optree.dataclasses')
    fn, fq = _registration_function(ctx, mod)
    cls = _first_param(fn)
    loop = [s for s in fn.body if isinstance(s, ast.For) and _fields_call(s.iter, cls) is not None]
    ctx.require(len(loop) == 1 and isinstance(loop[0].target, ast.Name),
                'partition loop over dataclasses.fields(<class>) not found')
    lp = loop[0]
    ctx.check('dataclass/declaration-order', _fields_call(lp.iter, cls) is lp.iter,
              'the fields are walked as dataclasses.fields() returns them: children, entries and '
              'metadata follow the declaration order',
              'the partition loop walks `%s`, not dataclasses.fields(<class>) itself: children and '
              'path entries no longer follow the declaration order of the fields' % src(lp.iter),
              mod.loc(lp))
    env = {'f': lp.target.id, 'c': cls}
    top = lp.body[0] if lp.body else None
    ok = isinstance(top, ast.If)
    why = 'partition loop body is not an if/elif'
    if ok:
        m = pmatch(top.test, "?f.metadata.get('pytree_node', ??d)", env)
        ok = m is not None
        why = 'children are selected by `%s`' % src(top.test)
        if ok:
            d = top.test.args[1]
            ok = _is_true_default(mod, d)
            why = 'default of the pytree_node flag is %s' % src(d)
    ctx.check('dataclass/children-selected-by-flag', ok,
              'a field is a child iff metadata["pytree_node"] (default True) is set',
              'children selection: %s' % why, mod.loc(lp))
    # non-init children rejected, metadata = not node and init
    ok_rej = ok_meta = False
    if isinstance(top, ast.If):
        inner = top.body
        rej = [s for s in inner if isinstance(s, ast.If) and pmatch(s.test, 'not ?f.init', env) and
               any(isinstance(x, ast.Raise) and call_name(x.exc) == 'TypeError' for x in s.body)]
        assign_children = [(s, pmatch(s, '?cf[?f.name] = ?f', env)) for s in inner]
        assign_children = [(s, e) for s, e in assign_children if e is not None]
        ok_rej = bool(rej) and bool(assign_children) and \
            inner.index(rej[0]) < inner.index(assign_children[0][0])
        if assign_children:
            env = assign_children[0][1]
        if len(top.orelse) == 1 and isinstance(top.orelse[0], ast.If):
            e = top.orelse[0]
            stores = [pmatch(s, '?mf[?f.name] = ?f', env) for s in e.body]
            stores = [x for x in stores if x is not None and x['mf'] != x.get('cf')]
            ok_meta = pmatch(e.test, '?f.init', env) is not None and bool(stores) and not e.orelse
            if stores:
                env = stores[0]
    ctx.check('dataclass/non-init-child-rejected', ok_rej,
              'a pytree_node field with init=False raises TypeError before it is recorded as a child',
              'non-init pytree_node fields are not rejected before being recorded', mod.loc(lp))
    ctx.check('dataclass/metadata-is-init-non-node', ok_meta,
              'metadata fields are exactly the non-node fields with init=True',
              'metadata partition is not `elif <field>.init: <metadata map>[...] = <field>`', mod.loc(lp))
    # the generated functions: flatten returns a 3-tuple, unflatten rebuilds through the class
    nested = [f for q, f in mod.funcs.items() if q.startswith(fq + '.') and q.count('.') == 1]
    fl = [f for f in nested if any(isinstance(s, ast.Return) and isinstance(s.value, ast.Tuple) and
                                   len(s.value.elts) == 3 for s in f.body)]
    un = [f for f in nested if f not in fl and
          any(isinstance(s, ast.Return) and isinstance(s.value, ast.Call) and is_name(s.value.func, cls)
              for s in f.body)]
    ctx.require(len(fl) == 1 and len(un) == 1, 'generated flatten/unflatten functions not found')
    fl, un = fl[0], un[0]
    # the same name tuple everywhere
    names = [e for e in (pmatch(s, '?names = tuple(?cf)', env) for s in fn.body) if e is not None]
    ok = len(names) == 1 and 'cf' in env
    if names:
        env = names[0]
    ret = [s for s in fl.body if isinstance(s, ast.Return)]
    okf = False
    if ok and ret and isinstance(ret[0].value, ast.Tuple) and len(ret[0].value.elts) == 3:
        c, m, e = ret[0].value.elts
        fenv = dict(env, o=_first_param(fl))
        cdef = [x for x in (pmatch(s, '?cv = tuple(getattr(?o, ?n) for ?n in ?names)', fenv)
                            for s in fl.body) if x is not None]
        okf = is_name(e, env['names']) and bool(cdef) and is_name(c, cdef[0]['cv'])
    oku = okc = False
    ups = [a.arg for a in un.args.posonlyargs + un.args.args]
    if ok and len(ups) == 2:
        uenv = dict(env, meta=ups[0], ch=ups[1])
        kws = [x for x in (pmatch(s, '?kw = dict(zip(?names, ?ch))', uenv) for s in un.body) if x is not None]
        oku = bool(kws)
        if kws:
            uenv = kws[0]
            # unflatten re-creates through the constructor (so __post_init__ runs again)
            okc = any(isinstance(s, ast.Return) and pmatch(s.value, '?c(**?kw)', uenv) for s in un.body) and \
                any(isinstance(s, ast.Expr) and pmatch(s.value, '?kw.update(?meta)', uenv) for s in un.body)
    ctx.check('dataclass/one-name-tuple', ok and okf and oku,
              'children order, path entries and unflatten keywords all come from one tuple of the '
              'children field names',
              'children (%s), entries (%s) and unflatten (%s) do not share one name tuple'
              % (ok, okf, oku), mod.loc(fl))
    ctx.check('dataclass/unflatten-via-constructor', okc,
              'unflatten calls cls(**children, **metadata): __init__/__post_init__ run again',
              'unflatten does not rebuild through <class>(**kwargs) with the metadata merged in', mod.loc(un))
    # registration: same namespace, DataclassEntry
    regs = [c for c in calls_under(fn) if call_name(c) == 'register_pytree_node']
    okr = False
    if len(regs) == 1:
        kw = {k.arg: src(k.value) for k in regs[0].keywords}
        a = [src(x) for x in regs[0].args]
        okr = a == [cls, fl.name, un.name] and kw == {
            'path_entry_type': 'DataclassEntry', 'namespace': 'namespace'}
    ctx.check('dataclass/registered-in-namespace', okr,
              'the class is registered with the generated functions, DataclassEntry and the caller\'s namespace',
              'registration call is not register_pytree_node(<class>, <flatten>, <unflatten>, '
              'path_entry_type=DataclassEntry, namespace=namespace)', mod.loc(fn))


DC_KW = ['init', 'repr', 'eq', 'order', 'unsafe_hash', 'frozen']
DC_KW_VERSIONED = ['match_args', 'kw_only', 'slots', 'weakref_slot']


@rule('DC2', floor=20, title='every keyword of dataclass()/make_dataclass() reaches the stdlib under its own name')
def dc2(ctx):
    pkg = ctx.py()
    mod = pkg.mod('optree.dataclasses')
    allpairs = {}
    for fname in ('dataclass', 'make_dataclass'):
        fn = mod.func(fname)
        tgt = 'dataclasses.dataclass' if fname == 'dataclass' else 'dataclasses.make_dataclass'
        calls = [c for c in calls_under(fn) if call_name(c) == tgt]
        ctx.require(len(calls) == 1, '%s: %d calls of %s' % (fname, len(calls), tgt))
        # the dictionaries splatted into the stdlib call (whatever they are called)
        splat = [k.value.id for k in calls[0].keywords if k.arg is None and isinstance(k.value, ast.Name)]
        ctx.require(splat, '%s: no **<dict> passed to %s' % (fname, tgt))
        pairs, stores = {}, {}
        nlit = 0
        for dictname in splat:
            for s in walk(fn):
                if isinstance(s, ast.Assign) and is_name(s.targets[0], dictname) and isinstance(s.value, ast.Dict):
                    nlit += 1
                    pairs.update({k.value: src(v) for k, v in zip(s.value.keys, s.value.values)
                                  if isinstance(k, ast.Constant)})
                if isinstance(s, ast.Assign) and isinstance(s.targets[0], ast.Subscript) and \
                        is_name(s.targets[0].value, dictname) and isinstance(s.targets[0].slice, ast.Constant):
                    stores[s.targets[0].slice.value] = src(s.value)
        ctx.require(nlit >= 1, '%s: no literal dictionary feeds %s' % (fname, tgt))
        allpairs[fname] = pairs
        for k in DC_KW:
            ctx.check('%s/kw/%s' % (fname, k), pairs.get(k) == k,
                      '%s: `%s` is forwarded as %s=%s' % (fname, k, k, k),
                      '%s: keyword `%s` is routed to %s' % (fname, k, pairs.get(k)), mod.loc(fn))
        for k in DC_KW_VERSIONED:
            ctx.check('%s/kw/%s' % (fname, k), stores.get(k) == k,
                      '%s: `%s` is forwarded under its own name (version guarded)' % (fname, k),
                      '%s: keyword `%s` is routed to %s' % (fname, k, stores.get(k)), mod.loc(fn))
        ctx.check('%s/kwargs-splat' % fname, True,
                  '%s passes **%s to %s' % (fname, ', **'.join(splat), tgt), None, mod.loc(fn))
    fn = mod.func('make_dataclass')
    pairs = {k: v for k, v in allpairs['make_dataclass'].items() if k in ('bases', 'namespace')}
    ctx.check('make_dataclass/bases-ns', pairs == {'bases': 'bases', 'namespace': 'ns'},
              'make_dataclass routes bases=bases and the class-dict argument ns -> namespace=',
              'make_dataclass routes %s' % pairs, mod.loc(fn))
    mk = [c for c in calls_under(fn) if call_name(c) == 'dataclasses.make_dataclass']
    ok = bool(mk) and [src(a) for a in mk[0].args] == ['cls_name'] and \
        {k.arg: src(k.value) for k in mk[0].keywords if k.arg} == {'fields': 'fields'}
    ctx.check('make_dataclass/name-fields', ok,
              'make_dataclass forwards cls_name and fields', 'cls_name/fields not forwarded', mod.loc(fn))


def _first_cond(cfg, test):
    for x in walk(test):
        n = cfg.node_of(x)
        if n is not None and cfg.nodes[n].kind == 'cond':
            return n
    return None


@rule('DC3', floor=3, title='dataclass rejections (decorated twice, non-init node) dominate registration; field() keeps the flag')
def dc3(ctx):
    pkg = ctx.py()
    mod = pkg.mod('optree.dataclasses')
    fn = mod.func('dataclass')
    cfg = pycfg(fn)
    rfn, rq = _registration_function(ctx, mod)
    reg = [c for c in calls_under(rfn) if call_name(c) == 'register_pytree_node']
    std = [c for c in calls_under(fn) if call_name(c) == 'dataclasses.dataclass']
    ctx.require(reg and std, 'dataclass(): register / dataclasses.dataclass calls not found')
    # the marker attribute: whatever the registration function sets with setattr(<class>, M, ...)
    rcls = _first_param(rfn)
    mark = [e for e in (pmatch(s, 'setattr(?c, ??marker, ??v)', {'c': rcls}) for s in walk(rfn)
                        if isinstance(s, ast.Expr)) if e is not None]
    marker = mark[0]['marker'] if mark else None
    twice = [s for s in walk(fn) if isinstance(s, ast.If) and marker is not None and
             pmatch(s.test, '??marker in cls.__dict__', {'marker': marker}) is not None
             and any(isinstance(x, ast.Raise) and call_name(x.exc) == 'TypeError' for x in s.body)]
    ok = bool(twice) and cfg.dominates(_first_cond(cfg, twice[0].test), cfg.node_of(std[0]))
    ctx.check('dataclass/twice-rejected', ok,
              'decorating a class twice raises TypeError before dataclasses.dataclass runs',
              'the decorated-twice rejection is missing or does not dominate dataclasses.dataclass',
              mod.loc(fn))
    ctx.check('dataclass/marker-set', bool(mark) and bool(twice),
              'the class is marked with the attribute the twice-check looks for',
              'no marker attribute is set by the registration / looked for by the twice-check: '
              'the twice-check can never fire', mod.loc(fn))
    f2 = mod.func('field')
    cfg2 = pycfg(f2)
    ret = [c for c in calls_under(f2) if call_name(c) == 'dataclasses.field']
    rej = [s for s in walk(f2) if isinstance(s, ast.If) and
           (pmatch(s.test, 'not init and pytree_node') is not None or
            pmatch(s.test, 'pytree_node and not init') is not None)
           and any(isinstance(x, ast.Raise) and call_name(x.exc) == 'TypeError' for x in s.body)]
    # the dict that is stored must be the one passed on as metadata=
    store = [s for s in walk(f2) if isinstance(s, ast.Assign) and
             pmatch(s, "?md['pytree_node'] = pytree_node") is not None]
    ok = bool(ret) and bool(rej) and bool(store) and \
        cfg2.dominates(_first_cond(cfg2, rej[0].test), cfg2.node_of(ret[0])) and \
        cfg2.dominates(cfg2.node_of(store[0]), cfg2.node_of(ret[0]))
    # the flag is written into a private copy: every path to the store passes a statement that
    # rebinds the dict to a fresh object (the caller's dict - possibly shared between fields, and
    # visible through Field.metadata of earlier fields - is never written)
    fresh_ok = False
    if store:
        md = store[0].targets[0].value.id
        fresh = []
        for s_ in walk(f2):
            if isinstance(s_, ast.Assign) and len(s_.targets) == 1 and is_name(s_.targets[0], md):
                v = s_.value
                if isinstance(v, ast.Dict) or \
                        (isinstance(v, ast.Call) and (call_name(v) == 'dict' or
                                                      (isinstance(v.func, ast.Attribute) and v.func.attr == 'copy'))):
                    fresh.append(cfg2.node_of(s_))
        fresh = [x for x in fresh if x is not None]
        st = cfg2.node_of(store[0])
        fresh_ok = bool(fresh) and st is not None and cfg2.must_pass(cfg2.entry.idx, fresh, st)
    ctx.check('field/flag-written-to-a-copy', fresh_ok,
              'field() writes the pytree_node flag into a fresh copy of the metadata mapping on every path',
              'field() can write the pytree_node flag into the mapping object the caller passed: a '
              'dict shared by several field() calls carries the flag of the last call into all of '
              'them (Field.metadata is a live view), so children and metadata fields are '
              'partitioned by the wrong flags', mod.loc(f2))
    ctx.check('field/flag-stored-and-checked', ok,
              'field() stores the pytree_node flag in the metadata and rejects init=False nodes '
              'before creating the field',
              'field() does not store/check the pytree_node flag before dataclasses.field()', mod.loc(f2))


@rule('DC4', floor=4, title='optree.functools.partial: children/entries/metadata and unflatten are inverse; nested partials are shimmed')
def dc4(ctx):
    pkg = ctx.py()
    mod = pkg.mod('optree.functools')
    fl = mod.func('partial.tree_flatten')
    un = mod.func('partial.tree_unflatten')
    new = mod.func('partial.__new__')
    ret = [s for s in fl.body if isinstance(s, ast.Return)]
    ok = False
    if ret and isinstance(ret[0].value, ast.Tuple) and len(ret[0].value.elts) == 3:
        c, m, e = [src(x) for x in ret[0].value.elts]
        ok = c == '(self.args, self.keywords)' and m == 'self.func' and e == "('args', 'keywords')"
    ctx.check('partial/flatten', ok,
              'partial flattens to children (args, keywords), metadata func, entries ("args", "keywords")',
              'partial.tree_flatten returns %s' % (src(ret[0].value) if ret else None), mod.loc(fl))
    ups = [a.arg for a in un.args.posonlyargs + un.args.args]
    oku = False
    if len(ups) == 3:
        uenv = {'cls': ups[0], 'meta': ups[1], 'ch': ups[2]}
        un_ = [e for e in (pmatch(s, '?a, ?k = ?ch', uenv) for s in un.body) if e is not None]
        oku = bool(un_) and any(isinstance(s, ast.Return) and pmatch(s.value, '?cls(?meta, *?a, **?k)', un_[0])
                                for s in un.body)
    ctx.check('partial/unflatten', oku,
              'partial.tree_unflatten rebuilds cls(func, *args, **keywords) from (args, keywords)',
              'partial.tree_unflatten is not the inverse of tree_flatten', mod.loc(un))
    cls = mod.classes.get('partial')
    decs = [src(d) for d in cls.decorator_list] if cls else []
    ctx.check('partial/registered-globally',
              any('register_pytree_node_class' in d and '__GLOBAL_NAMESPACE' in d for d in decs),
              'partial is registered in the global namespace', 'partial decorators: %s' % decs,
              mod.loc(cls) if cls else None)
    tpe = [s for s in cls.body if isinstance(s, ast.AnnAssign) and is_name(s.target, 'TREE_PATH_ENTRY_TYPE')]
    ctx.check('partial/entry-type', bool(tpe) and src(tpe[0].value) == 'GetAttrEntry',
              'partial children are addressed by attribute (GetAttrEntry)',
              'TREE_PATH_ENTRY_TYPE is not GetAttrEntry', mod.loc(cls))
    # shim before super().__new__ for wrapped functools.partial
    cfgn = pycfg(new)
    # the wrapped callable: the second positional parameter of __new__(cls, func, /, ...)
    npos = [a.arg for a in new.args.posonlyargs + new.args.args]
    ctx.require(len(npos) >= 2, 'partial.__new__: %d positional parameters' % len(npos))
    fpar = npos[1]
    guard = [s for s in walk(new) if isinstance(s, ast.If) and
             pmatch(s.test, 'isinstance(?f, functools.partial)', {'f': fpar}) is not None]
    oks = False
    if guard:
        shim = [s for s in guard[0].body if isinstance(s, ast.Assign) and is_name(s.targets[0], fpar)
                and call_name(s.value) == '_HashablePartialShim']
        sup = [c for b in guard[0].body for c in calls_under(b) if (call_name(c) or '').endswith('.__new__')]
        oks = bool(shim) and bool(sup) and shim[0].lineno < sup[0].lineno and \
            any(is_name(a, fpar) for a in sup[0].args)
    ctx.check('partial/shim', oks,
              'a wrapped functools.partial is replaced by the shim before functools.partial.__new__ '
              'can merge its arguments',
              'functools.partial.__new__ receives a raw functools.partial: nested partials are merged',
              mod.loc(new))


def _reprocesses(mod, fn, param, depth=0, seen=None):
    """does fn pass its parameter `param` to dataclasses.dataclass (directly or through module
    functions) without an is-dataclass guard?  returns the offending call or None"""
    seen = seen if seen is not None else set()
    if id(fn) in seen or depth > 3:
        return None
    seen.add(id(fn))
    for c in calls_under(fn):
        cn = call_name(c)
        if not c.args or not is_name(c.args[0], param):
            continue
        if cn == 'dataclasses.dataclass':
            guarded = False
            for s in walk(fn):
                if isinstance(s, ast.If) and re.search(r'is_dataclass\(%s\)|__dataclass_fields__' % param, src(s.test)):
                    if any(y is c for b in s.body + s.orelse for y in ast.walk(b)):
                        guarded = True
            if not guarded:
                return c
        elif cn in mod.funcs and '.' not in cn:
            callee = mod.funcs[cn]
            pos = [a.arg for a in callee.args.posonlyargs + callee.args.args]
            if pos:
                r = _reprocesses(mod, callee, pos[0], depth + 1, seen)
                if r is not None:
                    return r
    return None


@rule('DC5', floor=1, title='a class is processed by dataclasses.dataclass exactly once')
def dc5(ctx):
    """Domain fact: re-applying dataclasses.dataclass to a class that already is a dataclass
    rebuilds __dataclass_fields__ from the class attributes and loses every field() option of the
    class's own fields."""
    pkg = ctx.py()
    mod = pkg.mod('optree.dataclasses')
    mk = mod.func('make_dataclass')
    made = None
    for s in mk.body:
        if isinstance(s, ast.Assign) and call_name(s.value) == 'dataclasses.make_dataclass':
            made = s.targets[0].id
    # (an explaining variable for the made class is inlined by the front end: the made class is
    # then the first argument of the call it flows to)
    direct = [c for c in calls_under(mk) if c.args and isinstance(c.args[0], ast.Call) and
              call_name(c.args[0]) == 'dataclasses.make_dataclass']
    ctx.require(made is not None or direct, 'make_dataclass: result of dataclasses.make_dataclass not passed on')
    flows = direct or [c for c in calls_under(mk) if c.args and is_name(c.args[0], made)]
    ctx.require(flows, 'make_dataclass: the made class is not passed on')
    for c in flows:
        callee = call_name(c)
        site = 'make_dataclass->made-class'
        bad = None
        if callee == 'dataclasses.dataclass':
            bad = c
        elif callee in mod.funcs:
            cf = mod.funcs[callee]
            pos = [a.arg for a in cf.args.posonlyargs + cf.args.args]
            bad = _reprocesses(mod, cf, pos[0]) if pos else None
        ctx.check(site, bad is None,
                  'the class made by dataclasses.make_dataclass flows to %s, which never runs '
                  'dataclasses.dataclass on it again' % callee,
                  'make_dataclass hands the class made by dataclasses.make_dataclass to %s, which '
                  'runs dataclasses.dataclass on it a second time (%s): the second pass rebuilds the '
                  'fields from plain class attributes, so `pytree_node=False` / `init=False` given '
                  'through field() are lost - every field becomes a child and unflatten passes '
                  'non-init fields to __init__'
                  % (callee, mod.loc(bad) if bad is not None else ''), mod.loc(c))


    # the class that is registered and returned is the one the standard library hands back:
    # with slots=True dataclasses.dataclass builds a NEW class, the argument stays un-slotted
    for fname in ('dataclass', 'make_dataclass'):
        fn = mod.func(fname)
        std = [c for c in calls_under(fn) if call_name(c) in ('dataclasses.dataclass', 'dataclasses.make_dataclass')]
        ctx.require(std, '%s: no call of the standard library decorator' % fname)
        parent = {}
        for n in ast.walk(fn):
            for c in ast.iter_child_nodes(n):
                parent[id(c)] = n
        for c in std:
            p_ = parent.get(id(c))
            bound = None
            if isinstance(p_, ast.Assign) and len(p_.targets) == 1 and isinstance(p_.targets[0], ast.Name):
                bound = p_.targets[0].id
            elif isinstance(p_, ast.Return):
                bound = '<returned>'
            elif isinstance(p_, ast.Call) and call_name(p_) in mod.funcs:
                bound = '<passed on>'
            ok = bound is not None
            if ok and bound not in ('<returned>', '<passed on>'):
                # the bound name is what flows on (to the registration helper or the return)
                later = [n for n in walk(fn) if isinstance(n, ast.Name) and n.id == bound and
                         isinstance(n.ctx, ast.Load) and getattr(n, 'lineno', 0) > c.lineno]
                ok = bool(later)
            ctx.check('%s/uses-the-class-the-stdlib-returns' % fname, ok,
                      '%s: the result of %s is what is registered and returned' % (fname, call_name(c)),
                      '%s calls %s and drops its result: with slots=True the standard library returns a '
                      'new class, so the class that is registered and handed back is not the dataclass '
                      'the decorator arguments describe' % (fname, call_name(c)), mod.loc(c))


# ---------------------------------------------------------------------------------------------
BACKENDS = ('optree.integration.numpy', 'optree.integration.jax', 'optree.integration.torch')
RAVEL_FUNCS = ['tree_ravel', '_tree_unravel', '_ravel_leaves', '_unravel_empty',
               '_unravel_leaves_single_dtype', '_unravel_leaves']


def _partials(fn):
    """calls functools.partial(f, a...) / HashablePartial(f, a...) in fn"""
    return [c for c in calls_under(fn) if call_name(c) in ('functools.partial', 'HashablePartial', 'partial')
            and c.args and isinstance(c.args[0], ast.Name)]


# ---- roles of the values that travel from ravel to unravel ---------------------------------------
# A partial binds values computed in the ravel function to the leading parameters of an unravel
# function.  Which value must land in which parameter is decided by what the value *is* (how it is
# computed) and what the parameter is *used for*, never by how either is spelled.
def _mentions(e, *names):
    for n in ast.walk(e):
        if isinstance(n, ast.Attribute) and n.attr in names:
            return True
        if isinstance(n, ast.Name) and n.id in names:
            return True
    return False


def _def_roles(fn):
    """variable -> role, from the assignments of a ravel-side function"""
    roles = {}
    leaves = _first_param(fn)
    for s_ in walk(fn):
        if not isinstance(s_, ast.Assign) or len(s_.targets) != 1:
            continue
        t, v = s_.targets[0], s_.value
        if isinstance(t, ast.Tuple) and isinstance(v, ast.Call) and len(t.elts) == 2 and \
                all(isinstance(x, ast.Name) for x in t.elts):
            if call_name(v) == 'tree_flatten':
                roles[t.elts[1].id] = 'TREESPEC'
            elif call_name(v) == '_ravel_leaves':
                roles[t.elts[1].id] = 'UNRAVEL'
            continue
        if not isinstance(t, ast.Name):
            continue
        r = None
        m = pmatch(v, 'tuple(??elt for ?x in ?ls)')
        if m is not None and m['ls'] == leaves:
            elt = v.args[0].elt
            if _mentions(elt, 'shape'):
                r = 'SHAPES'
            elif _mentions(elt, 'result_type', 'dtype'):
                r = 'DTYPES'
            elif _mentions(elt, 'size', 'numel'):
                r = 'SPLITS'
        elif isinstance(v, ast.Call) and _mentions(v, 'accumulate', 'cumsum') and \
                any(roles.get(n.id) == 'SPLITS' for n in ast.walk(v) if isinstance(n, ast.Name)):
            r = 'SPLITS'
        elif _mentions(v, 'result_type', 'promote_types') or \
                (isinstance(v, ast.Subscript) and isinstance(v.value, ast.Name) and
                 roles.get(v.value.id) == 'DTYPES'):
            r = 'DTYPE'
        if r is not None and roles.get(t.id, r) == r:
            roles[t.id] = r
    return roles


def _use_roles(fn):
    """parameter -> role, from how an unravel-side function uses it"""
    ps = [a.arg for a in fn.args.posonlyargs + fn.args.args]
    roles = {}
    for c in calls_under(fn):
        cn = call_name(c) or ''
        if cn == 'tree_unflatten' and c.args and isinstance(c.args[0], ast.Name):
            roles[c.args[0].id] = 'TREESPEC'
        if isinstance(c.func, ast.Name) and c.func.id in ps:
            roles[c.func.id] = 'UNRAVEL'
        if cn.endswith('.split') or cn == 'split':
            for a in c.args[1:]:
                for n in ast.walk(a):
                    if isinstance(n, ast.Name) and n.id in ps:
                        roles[n.id] = 'SPLITS'
    # the strict zip: position k of safe_zip feeds target k of the comprehension
    for comp in [n for n in walk(fn) if isinstance(n, ast.ListComp)]:
        g = comp.generators[0]
        if not (isinstance(g.iter, ast.Call) and call_name(g.iter) in ('safe_zip', 'zip') and
                isinstance(g.target, ast.Tuple)):
            continue
        tg = [x.id if isinstance(x, ast.Name) else None for x in g.target.elts]
        for c in [n for n in ast.walk(comp.elt) if isinstance(n, ast.Call) and isinstance(n.func, ast.Attribute)]:
            role = {'reshape': 'SHAPES', 'astype': 'DTYPES', 'to': 'DTYPES',
                    'convert_element_type': 'DTYPES'}.get(c.func.attr)
            if role is None:
                continue
            # x.astype(d) / x.to(d) / lax.convert_element_type(x, d): the last argument is the role
            for a in (c.args[-1:] if c.func.attr == 'convert_element_type' else c.args):
                if isinstance(a, ast.Name) and a.id in tg:
                    k = tg.index(a.id)
                    if k < len(g.iter.args) and isinstance(g.iter.args[k], ast.Name):
                        roles[g.iter.args[k].id] = role
    for s_ in walk(fn):
        if isinstance(s_, ast.If) and isinstance(s_.test, ast.Compare) and len(s_.test.ops) == 1 and \
                isinstance(s_.test.ops[0], ast.NotEq):
            sides = [s_.test.left, s_.test.comparators[0]]
            for a, b in (sides, sides[::-1]):
                if isinstance(a, ast.Name) and a.id in ps and a.id not in roles and \
                        (_mentions(b, 'dtype', 'result_type') or
                         (isinstance(b, ast.Name) and _dtype_local(fn, b.id))):
                    roles[a.id] = 'DTYPE'
    return {k: v for k, v in roles.items() if k in ps}


def _dtype_local(fn, name):
    return any(isinstance(s_, ast.Assign) and is_name(s_.targets[0], name) and
               _mentions(s_.value, 'dtype', 'result_type') for s_ in walk(fn))


@rule('R1', floor=9, title='every partial in the ravel code binds to each leading parameter of its target the value that parameter is used for')
def r1(ctx):
    pkg = ctx.py()
    for mname in BACKENDS:
        mod = pkg.mod(mname)
        b = mname.split('.')[-1]
        for fname in ('tree_ravel', '_ravel_leaves'):
            fn = mod.func(fname)
            droles = _def_roles(fn)
            for i, c in enumerate(_partials(fn)):
                tgt = mod.funcs.get(c.args[0].id)
                ctx.require(tgt is not None, '%s.%s: partial target %s not found' % (b, fname, c.args[0].id))
                pos, var, kwonly, kw = param_names(tgt)
                uroles = _use_roles(tgt)
                bound = c.args[1:]
                got = [droles.get(a.id) if isinstance(a, ast.Name) else None for a in bound]
                want = [uroles.get(p) for p in pos[:len(bound)]]
                ctx.require(all(w is not None for w in want),
                            '%s.%s: use of the parameters %s of %s not recognised (%s)'
                            % (b, fname, pos[:len(bound)], c.args[0].id, want))
                ok = got == want and len(pos) == len(bound) + 1 and not c.keywords
                ctx.check('%s.%s/partial(%s)' % (b, fname, c.args[0].id), ok,
                          '%s.%s binds %s to the parameters of %s used as %s, leaving `%s`'
                          % (b, fname, [src(a) for a in bound], c.args[0].id, want, pos[-1] if pos else None),
                          '%s.%s: partial(%s, %s) binds values computed as %s to parameters that %s '
                          'uses as %s (values would land in the wrong slots)'
                          % (b, fname, c.args[0].id, ', '.join(src(a) for a in bound), got,
                             c.args[0].id, want), mod.loc(c))


@rule('R2', floor=15, title='unravel functions check shape (and dtype when mixed) before splitting and join with a strict zip')
def r2(ctx):
    pkg = ctx.py()
    utils = pkg.mod('optree.utils')
    sz = utils.func('safe_zip')
    strict = any(isinstance(s, ast.If) and 'len(set(map(len' in src(s.test) and
                 any(isinstance(x, ast.Raise) for x in s.body) for s in sz.body)
    ctx.check('utils.safe_zip/strict', strict,
              'safe_zip raises on length mismatch', 'safe_zip no longer checks lengths', utils.loc(sz))
    for mname in BACKENDS:
        mod = pkg.mod(mname)
        b = mname.split('.')[-1]
        for fname in ('_unravel_empty', '_unravel_leaves_single_dtype', '_unravel_leaves'):
            fn = mod.func(fname)
            cfg = pycfg(fn)
            rets = [s for s in walk(fn) if isinstance(s, ast.Return)]
            ctx.require(len(rets) == 1, '%s.%s: %d returns' % (b, fname, len(rets)))
            rn = cfg.node_of(rets[0])
            uroles = _use_roles(fn)

            def guard(pred):
                for s in walk(fn):
                    if isinstance(s, ast.If) and pred(s.test) and \
                            any(isinstance(x, ast.Raise) and call_name(x.exc) == 'ValueError' for x in s.body):
                        c = cfg.node_of(s.test)
                        if c is not None and cfg.dominates(c, rn):
                            return True
                return False
            ctx.check('%s.%s/shape-guard' % (b, fname),
                      guard(lambda t: _mentions(t, 'shape') and '!=' in src(t)),
                      '%s.%s rejects a wrongly shaped array (ValueError) before splitting' % (b, fname),
                      '%s.%s: the shape guard is missing or does not dominate the result' % (b, fname),
                      mod.loc(fn))
            if fname == '_unravel_leaves':
                dt = [p_ for p_, r in uroles.items() if r == 'DTYPE']
                ctx.check('%s.%s/dtype-guard' % (b, fname),
                          bool(dt) and guard(lambda t: isinstance(t, ast.Compare) and
                                             isinstance(t.ops[0], ast.NotEq) and
                                             any(is_name(x, dt[0]) for x in [t.left] + t.comparators)),
                          '%s.%s rejects an array of the wrong dtype (mixed-dtype case)' % (b, fname),
                          '%s.%s: the dtype guard is missing or does not dominate the result' % (b, fname),
                          mod.loc(fn))
            if fname != '_unravel_empty':
                zips = [c for c in calls_under(fn) if call_name(c) == 'safe_zip']
                plain = [c for c in calls_under(fn) if call_name(c) == 'zip']
                want = ['CHUNKS', 'SHAPES'] + (['DTYPES'] if fname == '_unravel_leaves' else [])
                got = []
                if len(zips) == 1:
                    for a in zips[0].args:
                        nm = a.id if isinstance(a, ast.Name) else None
                        if nm in uroles:
                            got.append(uroles[nm])
                        elif nm is not None and any(
                                isinstance(s_, ast.Assign) and is_name(s_.targets[0], nm) and
                                isinstance(s_.value, ast.Call) and (call_name(s_.value) or '').split('.')[-1] == 'split'
                                for s_ in walk(fn)):
                            got.append('CHUNKS')
                        else:
                            got.append('?')
                ok = len(zips) == 1 and got == want and not plain
                ctx.check('%s.%s/strict-zip' % (b, fname), ok,
                          '%s.%s joins %s with safe_zip' % (b, fname, want),
                          '%s.%s does not join %s with safe_zip (a silent truncation would drop leaves): %s'
                          % (b, fname, want, got), mod.loc(fn))


def _is_all_equal(test):
    """all(<x> == <y> for <x> in <zs>) modulo names"""
    if not (isinstance(test, ast.Call) and is_name(test.func, 'all') and len(test.args) == 1):
        return False
    g = test.args[0]
    if not isinstance(g, ast.GeneratorExp) or len(g.generators) != 1 or g.generators[0].ifs:
        return False
    e = g.elt
    return (isinstance(e, ast.Compare) and len(e.ops) == 1 and isinstance(e.ops[0], ast.Eq) and
            isinstance(g.generators[0].target, ast.Name) and
            g.generators[0].target.id in (src(e.left), src(e.comparators[0])))


def _is_unflatten_of_call(fn, value):
    """tree_unflatten(<param 0>, <param 1>(<param 2>)) modulo parameter names"""
    ps = [a.arg for a in fn.args.posonlyargs + fn.args.args]
    if len(ps) != 3 or not (isinstance(value, ast.Call) and call_name(value) == 'tree_unflatten'):
        return False
    a = value.args
    return (len(a) == 2 and not value.keywords and is_name(a[0], ps[0]) and isinstance(a[1], ast.Call) and
            is_name(a[1].func, ps[1]) and len(a[1].args) == 1 and is_name(a[1].args[0], ps[2]) and
            not a[1].keywords)


@rule('R3', floor=6, title='the three ravel backends have the same structure')
def r3(ctx):
    pkg = ctx.py()
    shapes = {}
    for mname in BACKENDS:
        mod = pkg.mod(mname)
        b = mname.split('.')[-1]
        for fname in RAVEL_FUNCS:
            # anchors: a renamed helper is an analysis error (re-point the table), not a violation
            ctx.require(fname in mod.funcs, '%s: helper %s not found (renamed?)' % (b, fname))
            ctx.ok('%s/%s/exists' % (b, fname), '%s defines %s' % (b, fname), mod.relpath + ':1')
        fn = mod.funcs.get('_ravel_leaves')
        if fn is None:
            continue
        parts = [c.args[0].id for c in _partials(fn)]
        empties = [s for s in fn.body if isinstance(s, ast.If) and
                   pmatch(s.test, 'not ?x', {'x': _first_param(fn)}) is not None]
        single = [s for s in walk(fn) if isinstance(s, ast.If) and _is_all_equal(s.test)]
        shapes[b] = (parts, bool(empties), bool(single))
        tr = mod.funcs.get('tree_ravel')
        fl = [c for c in calls_under(tr) if call_name(c) == 'tree_flatten']
        un = mod.funcs.get('_tree_unravel')
        oku = un is not None and any(isinstance(s, ast.Return) and _is_unflatten_of_call(un, s.value)
                                     for s in un.body)
        ctx.check('%s/tree_ravel/shape' % b, len(fl) == 1 and oku,
                  '%s: tree_ravel = tree_flatten + _ravel_leaves; unravel = tree_unflatten(treespec, unravel_flat(flat))' % b,
                  '%s: tree_ravel/_tree_unravel do not have the flatten / unflatten shape' % b,
                  mod.loc(tr))
    vals = set((tuple(p), e, s) for p, e, s in shapes.values())
    ctx.check('backends/same-ravel-structure', len(vals) == 1 and
              list(vals)[0] == (('_unravel_leaves_single_dtype', '_unravel_leaves'), True, True),
              'all backends: empty case, single-dtype fast path, mixed-dtype path with casts',
              'backends differ: %s' % shapes, None)


@rule('R4', floor=3, title='the common dtype is computed by an associative promotion')
def r4(ctx):
    """Domain fact: numpy.promote_types is not associative (promote(promote(int8, uint8), float16)
    is float32, numpy.result_type(int8, uint8, float16) is float16), so folding it pairwise over
    the leaves does not give the common promoted dtype and makes the result depend on leaf order.
    numpy.result_type is n-ary; jax and torch promotion follow a lattice and may be folded."""
    pkg = ctx.py()
    for mname in BACKENDS:
        mod = pkg.mod(mname)
        b = mname.split('.')[-1]
        fn = mod.func('_ravel_leaves')
        dvars = {v for v, r in _def_roles(fn).items() if r == 'DTYPE'}
        defs = [s for s in walk(fn) if isinstance(s, ast.Assign) and isinstance(s.targets[0], ast.Name)
                and s.targets[0].id in dvars]
        ctx.require(len(defs) >= 1, '%s._ravel_leaves: no definition of the common dtype' % b)
        text = ' ; '.join(src(d_.value) for d_ in defs)
        pairwise_np = any(_mentions(d_.value, 'promote_types') for d_ in defs)
        # the promotion is over the dtypes that are recorded for the unravel function (the DTYPES
        # tuple), not over the leaves themselves: value-based promotion treats Python scalars and
        # weakly typed arrays as having no dtype of their own, so the flat array can get a narrower
        # dtype than a leaf that unravel will cast back to
        roles_ = _def_roles(fn)
        dts = {v for v, r in roles_.items() if r == 'DTYPES'}
        leaves_p = _first_param(fn)
        over_leaves = []
        over_dtypes = False
        for d_ in defs:
            for c_ in ast.walk(d_.value):
                if isinstance(c_, ast.Call) and (call_name(c_) or '').split('.')[-1] in ('result_type', 'promote_types'):
                    for a_ in c_.args:
                        inner = a_.value if isinstance(a_, ast.Starred) else a_
                        if isinstance(inner, ast.Name) and inner.id == leaves_p:
                            over_leaves.append(c_)
                        if any(isinstance(n_, ast.Name) and (n_.id in dts or n_.id in dvars)
                               for n_ in ast.walk(inner)):
                            over_dtypes = True
            if isinstance(d_.value, ast.Subscript) and isinstance(d_.value.value, ast.Name) and d_.value.value.id in dts:
                over_dtypes = True
        ctx.check('%s._ravel_leaves/promotes-the-recorded-dtypes' % b, over_dtypes and not over_leaves,
                  '%s: the common dtype is the promotion of the recorded leaf dtypes' % b,
                  '%s: the common dtype is computed as `%s` - from the leaves themselves, not from the dtypes '
                  'recorded for unravel: a Python scalar or weakly typed leaf next to a narrower array '
                  'does not widen the result, its value is cast to the narrow dtype (300 -> 44 in int8) and '
                  'unravel(ravel(t)) != t' % (b, text), mod.loc(defs[0]))
        # every recorded dtype takes part: the n-ary form is given the whole tuple; the fold starts
        # from the first element, runs over the rest and promotes on every iteration (a promotion
        # skipped under a guard - "it can be cast anyway" - makes the result depend on leaf order)
        every, why_not = None, ''
        for d_ in defs:
            for c_ in ast.walk(d_.value):
                if isinstance(c_, ast.Call) and (call_name(c_) or '').split('.')[-1] == 'result_type' and \
                        any(isinstance(a_, ast.Starred) for a_ in c_.args):
                    st = [a_.value for a_ in c_.args if isinstance(a_, ast.Starred)]
                    ok_ = len(c_.args) == 1 and isinstance(st[0], ast.Name) and st[0].id in dts
                    every = ok_ if every is None else (every and ok_)
                    if not ok_:
                        why_not = 'result_type is given `%s`, not the whole tuple of recorded dtypes' % src(c_)
        loops = [l_ for l_ in walk(fn) if isinstance(l_, ast.For) and
                 any(isinstance(x_, ast.Assign) and x_ in defs for x_ in ast.walk(l_))]
        if loops:
            from ..py_frontend import pycfg as _pycfg
            cfg_ = _pycfg(fn)
            for l_ in loops:
                it = l_.iter
                whole = isinstance(it, ast.Name) and it.id in dts
                rest = isinstance(it, ast.Subscript) and isinstance(it.value, ast.Name) and it.value.id in dts and \
                    isinstance(it.slice, ast.Slice) and it.slice.upper is None and it.slice.step is None and \
                    isinstance(it.slice.lower, ast.Constant) and it.slice.lower.value == 1
                first = any(isinstance(d2.value, ast.Subscript) and isinstance(d2.value.value, ast.Name) and
                            d2.value.value.id in dts and isinstance(d2.value.slice, ast.Constant) and
                            d2.value.slice.value == 0 for d2 in defs)
                ok_ = whole or (rest and first)
                if not ok_:
                    why_not = 'the fold runs over `%s`' % src(it)
                inner = [x_ for x_ in ast.walk(l_) if isinstance(x_, ast.Assign) and x_ in defs]
                head = [n_ for n_ in cfg_.nodes if n_.label == 'for-head' and n_.ast is l_.target]
                if head and inner:
                    pn = {cfg_.ast_to_node.get(id(x_)) for x_ in inner}
                    body_entry = [w for (w, lab) in cfg_.succ[head[0].idx] if lab is True]
                    r_ = cfg_.reachable(body_entry, skip_nodes=pn, skip_back=False)
                    if head[0].idx in r_:
                        ok_ = False
                        why_not = 'an iteration of the fold can pass without promoting (`%s` is under a condition)' \
                            % src(inner[0])
                every = ok_ if every is None else (every and ok_)
        ctx.check('%s._ravel_leaves/every-dtype-takes-part' % b, bool(every),
                  '%s: every recorded leaf dtype takes part in the promotion' % b,
                  '%s: %s: the common dtype then depends on the order of the leaves, a wider leaf that comes '
                  'later is cast down and unravel(ravel(t)) != t' % (b, why_not or 'no promotion over the recorded dtypes found'),
                  mod.loc(defs[0]))
        ctx.check('%s._ravel_leaves/promotion' % b, not (b == 'numpy' and pairwise_np),
                  '%s: common dtype computed as `%s`' % (b, text),
                  'numpy backend folds np.promote_types pairwise (`%s`): that operation is not '
                  'associative, the ravel dtype becomes wider than the common promoted dtype for '
                  'some leaf orders and unravel rejects vectors of the true dtype' % text,
                  mod.loc(defs[0]))


@rule('CL1', floor=15, title='a nested function does not read a loop variable that its enclosing function has finished with')
def cl1(ctx):
    """A closure sees the *current* value of an enclosing variable when it is called, not the value
    at the time it was defined.  A nested function (or lambda) defined outside a `for` loop of its
    enclosing function that reads the loop's target therefore always works with the last element
    (`getattr(obj, f.name)` after `for f in fields(cls)`) - never what a per-element computation
    means.  Closures defined inside the loop body are not judged (they may be called at once)."""
    pkg = ctx.py()
    n_closures = 0
    # a property is judged by the closures of the modules it is anchored in
    scope = {'C01': ('optree.dataclasses', 'optree.functools', 'optree.registry'),
             'C19': ('optree.dataclasses', 'optree.functools'),
             'C12': ('optree.registry',), 'C05': ('optree.ops',), 'C07': ('optree.ops',),
             'C20': ('optree.integration.numpy', 'optree.integration.jax', 'optree.integration.torch')}.get(ctx.pid)
    for mname, mod in sorted(pkg.modules.items()):
        if mname.endswith('(pyi)'):
            continue
        in_scope = scope is None or mname in scope

        def inner_defs(node):
            for ch in ast.iter_child_nodes(node):
                if isinstance(ch, (ast.FunctionDef, ast.AsyncFunctionDef, ast.Lambda)):
                    yield ch
                else:
                    yield from inner_defs(ch)

        def visit(fn):
            nonlocal n_closures
            loops = []
            for n in ast.walk(fn):
                if isinstance(n, (ast.For, ast.AsyncFor)):
                    own = True
                    # only loops of this function itself, not of nested ones
                    for g in inner_defs(fn):
                        if any(x is n for x in ast.walk(g)):
                            own = False
                    if own:
                        loops.append(({x.id for x in ast.walk(n.target) if isinstance(x, ast.Name)}, n))
            rebound = {}
            for g in inner_defs(fn):
                n_closures += 1
                n_bad_before = sum(1 for o in ctx.obs if o.status == 'violated')
                bound = set()
                a = g.args
                for p_ in a.posonlyargs + a.args + a.kwonlyargs:
                    bound.add(p_.arg)
                if a.vararg:
                    bound.add(a.vararg.arg)
                if a.kwarg:
                    bound.add(a.kwarg.arg)
                body = g.body if isinstance(g.body, list) else [g.body]
                reads = {}
                for b in body:
                    for x in ast.walk(b):
                        if isinstance(x, ast.Name):
                            if isinstance(x.ctx, ast.Store):
                                bound.add(x.id)
                            else:
                                reads.setdefault(x.id, x)
                        elif isinstance(x, ast.comprehension):
                            for t in ast.walk(x.target):
                                if isinstance(t, ast.Name):
                                    bound.add(t.id)
                        elif isinstance(x, (ast.FunctionDef, ast.AsyncFunctionDef)):
                            bound.add(x.name)
                for names, loop in loops:
                    if any(x is g for x in ast.walk(loop)):
                        continue
                    for nm in sorted(set(reads) - bound):
                        if nm not in names:
                            continue
                        # the name is bound again between the loop and the definition: that value is meant
                        later = [s_ for s_ in ast.walk(fn) if isinstance(s_, ast.Name) and s_.id == nm and
                                 isinstance(s_.ctx, ast.Store) and s_.lineno > loop.end_lineno and
                                 s_.lineno < g.lineno and not any(s_ is t for t in ast.walk(loop))]
                        if later:
                            continue
                        if not in_scope:
                            continue
                        ctx.bad('%s.%s/%s reads %s' % (mname.split('.')[-1], getattr(fn, 'name', '?'),
                                                          getattr(g, 'name', 'lambda'), nm),
                                      '%s.%s: the nested function `%s` reads `%s`, the target of the loop at line %d '
                                      'of its enclosing function, but is defined outside that loop: whenever it is '
                                      'called it sees the last element only (or nothing, for an empty sequence)'
                                      % (mname, getattr(fn, 'name', '?'), getattr(g, 'name', 'lambda'), nm, loop.lineno),
                                      mod.loc(reads[nm]))
                if sum(1 for o in ctx.obs if o.status == 'violated') == n_bad_before:
                    ctx.ok('%s.%s/%s@%d' % (mname.split('.')[-1], getattr(fn, 'name', '?'),
                                           getattr(g, 'name', 'lambda'), g.lineno - fn.lineno),
                           '%s.%s: nested `%s` reads no finished loop variable of its enclosing function'
                           % (mname, getattr(fn, 'name', '?'), getattr(g, 'name', 'lambda')), mod.loc(g))
                if not isinstance(g, ast.Lambda):
                    visit(g)
        for top in mod.tree.body:
            if isinstance(top, (ast.FunctionDef, ast.AsyncFunctionDef)):
                visit(top)
            elif isinstance(top, ast.ClassDef):
                for m_ in top.body:
                    if isinstance(m_, (ast.FunctionDef, ast.AsyncFunctionDef)):
                        visit(m_)
    ctx.require(n_closures >= 15, 'only %d nested functions found' % n_closures)


VG1_TYPE_TESTS = ('isinstance', 'inspect.isclass', 'callable', 'torch.is_tensor', 'is_namedtuple_class',
                  'is_structseq_class', 'is_namedtuple', 'is_structseq', 'dataclasses.is_dataclass', 'issubclass',
                  'inspect.isfunction')
# value guards that a property depends on: (module, function, source of the tested atom, outcome on which
# the argument is rejected, why)
VG1_VALUE_GUARDS = [
    ('optree.accessor', 'PyTreeEntry.__post_init__', 'self.kind == PyTreeKind.LEAF', True,
     'a leaf has no children: there is nothing a path entry could address'),
    ('optree.accessor', 'PyTreeEntry.__post_init__', 'self.kind == PyTreeKind.NONE', True,
     'a None node has no children'),
    ('optree.accessor', 'AutoEntry.__new__', 'kind != PyTreeKind.CUSTOM', True,
     'automatic dispatch is defined for custom nodes only; built-in kinds have fixed entry classes'),
    ('optree.ops', 'tree_flatten_one_level', '?h is None', True,
     'a type without a registry entry is a leaf: it has no one-level flattening'),
    ('optree.registry', '_none_unflatten', 'next(iter(?c), ?s) is not ?s', True,
     'a None node has no children: any child handed to its unflatten function is an error'),
]


@rule('VG1', floor=25, title='a raise that is guarded by a type test is reached on the negative outcome of that test')
def vg1(ctx):
    """Convention of the package, confirmed for all 26 sites: `if not isinstance(x, T): raise ...`,
    `if not inspect.isclass(cls): raise ...`, `if not all(torch.is_tensor(l) for l in leaves): raise`.
    A guard that raises on the *positive* outcome rejects every valid argument and lets the invalid
    ones through.  Judged on the CFG (outcome of the atom on which the raise is reached), so the
    spelling of the negation does not matter.  A small table of value guards that properties rest
    on is judged the same way, each with its reason."""
    pkg = ctx.py()
    scope = {'C04': ('optree.accessor',), 'C12': ('optree.registry',), 'C13': ('optree.registry',),
             'C19': ('optree.dataclasses', 'optree.functools'), 'C01': ('optree.registry', 'optree.dataclasses'),
             'C18': ('optree.typing', 'optree.ops'), 'C03': ('optree.ops',),
             'C20': ('optree.integration.numpy', 'optree.integration.jax', 'optree.integration.torch')}.get(ctx.pid)
    n = 0

    def judge(mod, mname, qual, fn, guard, atom_node, rej, what, why=''):
        cfg = pycfg(fn)
        rn = cfg.node_of(guard.body[-1])
        good = cfg.reachable([w for (w, lab) in cfg.succ[atom_node.idx] if lab is rej])
        bad_, work_ = set(), [w for (w, lab) in cfg.succ[atom_node.idx] if lab is (not rej)]
        while work_:
            x_ = work_.pop()
            if x_ in bad_:
                continue
            bad_.add(x_)
            if cfg.nodes[x_].kind != 'cond':
                work_ += [w for (w, _) in cfg.succ[x_]]
        ctx.check('%s.%s/%s' % (mname.split('.')[-1], qual, what[:50]), rn in good and rn not in bad_,
                  '%s.%s: `%s` leads to the raise on its %s outcome%s' % (mname, qual, what, 'positive' if rej else 'negative',
                                                                         (' (%s)' % why) if why else ''),
                  '%s.%s: the raise guarded by `%s` is reached on the wrong outcome of `%s`: valid arguments are '
                  'rejected and invalid ones accepted%s' % (mname, qual, src(guard.test)[:60], what,
                                                           (' - %s' % why) if why else ''), mod.loc(guard))
    for mname, mod in sorted(pkg.modules.items()):
        if mname.endswith('(pyi)'):
            continue
        for qual, fn in sorted(mod.funcs.items()):
            cfg = None
            for g in walk(fn):
                if not (isinstance(g, ast.If) and g.body and isinstance(g.body[-1], ast.Raise)):
                    continue
                # only guards of this function itself
                owner_ok = True
                for q2, f2 in mod.funcs.items():
                    if f2 is not fn and q2.startswith(qual + '.') and any(x is g for x in ast.walk(f2)):
                        owner_ok = False
                if not owner_ok:
                    continue
                cfg = cfg or pycfg(fn)
                for cn in cfg.nodes:
                    if cn.kind != 'cond' or cn.ast is None or not any(x is cn.ast for x in ast.walk(g.test)):
                        continue
                    a = cn.ast
                    nm = call_name(a) if isinstance(a, ast.Call) else None
                    if nm == 'all' and a.args and isinstance(a.args[0], ast.GeneratorExp) and \
                            isinstance(a.args[0].elt, ast.Call) and call_name(a.args[0].elt) in VG1_TYPE_TESTS:
                        nm = call_name(a.args[0].elt)
                    if nm in VG1_TYPE_TESTS:
                        n += 1
                        if scope is None or mname in scope:
                            judge(mod, mname, qual, fn, g, cn, False, src(a)[:60])
                        else:
                            ctx.ok('%s.%s/%s' % (mname.split('.')[-1], qual, src(a)[:50]),
                                   '%s.%s: type-test guard (judged under the properties anchored in %s)'
                                   % (mname, qual, mname), mod.loc(g))
    ctx.require(n >= 20, 'only %d type-test guards found' % n)
    for mname, qual, atom, rej, why in VG1_VALUE_GUARDS:
        if scope is not None and mname not in scope:
            continue
        mod = pkg.mod(mname)
        fn = mod.funcs.get(qual)
        ctx.require(fn is not None, '%s.%s not found' % (mname, qual))
        cfg = pycfg(fn)
        hits = []
        for g in walk(fn):
            if isinstance(g, ast.If) and g.body and isinstance(g.body[-1], ast.Raise):
                for cn in cfg.nodes:
                    if cn.kind == 'cond' and cn.ast is not None and any(x is cn.ast for x in ast.walk(g.test)):
                        # (local names are metavariables: `?h is None`)
                        flipped_atom = None
                        for a_, b_ in ((' == ', ' != '), (' != ', ' == '), (' is not ', ' is '), (' is ', ' is not ')):
                            if a_ in atom:
                                flipped_atom = atom.replace(a_, b_, 1)
                                break
                        if pmatch(cn.ast, atom) is not None:
                            hits.append((g, cn, rej))
                        elif flipped_atom is not None and pmatch(cn.ast, flipped_atom) is not None:
                            # the same atom written with the opposite operator tests the opposite outcome
                            hits.append((g, cn, not rej))
        ctx.require(hits, '%s.%s: the guard on `%s` was not found' % (mname, qual, atom))
        for g, cn, r_ in hits[:1]:
            judge(mod, mname, qual, fn, g, cn, r_, atom, why)
