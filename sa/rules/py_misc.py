"""Dataclass / partial / ravel rules: DC1-DC5, R1-R3."""
from __future__ import annotations

import ast
import re

from ..engine import rule
from ..py_frontend import (dotted, call_name, calls_under, walk, param_names, bind_call, is_name,
                           src, pycfg)


def _registration_function(ctx, mod):
    """the function that partitions the fields and registers the class (dataclass() itself, or a
    helper it delegates to)"""
    cands = [(q, f) for q, f in mod.funcs.items() if '.' not in q and
             any(isinstance(s, ast.For) and 'dataclasses.fields(cls)' in src(s.iter) for s in f.body)]
    ctx.require(len(cands) == 1, 'optree.dataclasses: %d functions partition dataclasses.fields(cls)'
                % len(cands))
    q, f = cands[0]
    if q != 'dataclass':
        dc = mod.func('dataclass')
        ctx.require(any(call_name(c) == q and c.args and is_name(c.args[0], 'cls')
                        for c in calls_under(dc)),
                    'dataclass() does not delegate to %s(cls, ...)' % q)
    return f, q


# ---------------------------------------------------------------------------------------------
@rule('DC1', floor=6, title='dataclass fields are partitioned by the pytree_node flag; one name tuple feeds children, entries and unflatten')
def dc1(ctx):
    pkg = ctx.py()
    mod = pkg.mod('optree.dataclasses')
    fn, fq = _registration_function(ctx, mod)
    loop = [s for s in fn.body if isinstance(s, ast.For) and 'dataclasses.fields(cls)' in src(s.iter)]
    ctx.require(len(loop) == 1, 'partition loop over dataclasses.fields(cls) not found')
    lp = loop[0]
    fvar = lp.target.id
    top = lp.body[0] if lp.body else None
    ok = isinstance(top, ast.If)
    why = 'partition loop body is not an if/elif'
    if ok:
        t = src(top.test)
        ok = re.fullmatch(r"%s\.metadata\.get\('pytree_node', _PYTREE_NODE_DEFAULT\)" % fvar, t) is not None
        why = 'children are selected by `%s`' % t
        default = mod.top_assign('_PYTREE_NODE_DEFAULT')
        if ok:
            ok = isinstance(default, ast.Constant) and default.value is True
            why = 'default of the pytree_node flag is %s' % (src(default) if default is not None else None)
    ctx.check('dataclass/children-selected-by-flag', ok,
              'a field is a child iff metadata["pytree_node"] (default True) is set',
              'children selection: %s' % why, mod.loc(lp))
    # non-init children rejected, metadata = not node and init
    ok_rej = ok_meta = False
    if isinstance(top, ast.If):
        inner = top.body
        rej = [s for s in inner if isinstance(s, ast.If) and src(s.test) == 'not %s.init' % fvar and
               any(isinstance(x, ast.Raise) and call_name(x.exc) == 'TypeError' for x in s.body)]
        assign_children = [s for s in inner if isinstance(s, ast.Assign) and
                           src(s.targets[0]) == 'children_fields[%s.name]' % fvar]
        ok_rej = bool(rej) and bool(assign_children) and inner.index(rej[0]) < inner.index(assign_children[0])
        if len(top.orelse) == 1 and isinstance(top.orelse[0], ast.If):
            e = top.orelse[0]
            ok_meta = src(e.test) == '%s.init' % fvar and any(
                isinstance(s, ast.Assign) and src(s.targets[0]) == 'metadata_fields[%s.name]' % fvar
                for s in e.body) and not e.orelse
    ctx.check('dataclass/non-init-child-rejected', ok_rej,
              'a pytree_node field with init=False raises TypeError before it is recorded as a child',
              'non-init pytree_node fields are not rejected before being recorded', mod.loc(lp))
    ctx.check('dataclass/metadata-is-init-non-node', ok_meta,
              'metadata fields are exactly the non-node fields with init=True',
              'metadata partition is not `elif f.init: metadata_fields[...]`', mod.loc(lp))
    # the same name tuple everywhere
    fl = mod.funcs.get(fq + '.flatten_func')
    un = mod.funcs.get(fq + '.unflatten_func')
    ctx.require(fl is not None and un is not None, 'generated flatten/unflatten functions not found')
    names_def = [s for s in fn.body if isinstance(s, ast.Assign) and is_name(s.targets[0], 'children_field_names')]
    ok = len(names_def) == 1 and src(names_def[0].value) == 'tuple(children_fields)'
    ret = [s for s in fl.body if isinstance(s, ast.Return)]
    okf = False
    if ret and isinstance(ret[0].value, ast.Tuple) and len(ret[0].value.elts) == 3:
        c, m, e = ret[0].value.elts
        cdef = [s for s in fl.body if isinstance(s, ast.Assign) and is_name(s.targets[0], src(c))]
        okf = is_name(e, 'children_field_names') and bool(cdef) and \
            re.fullmatch(r'tuple\(\(?getattr\(obj, (\w+)\) for \1 in children_field_names\)?\)',
                         src(cdef[0].value)) is not None
    oku = any(isinstance(s, ast.Assign) and src(s.value) == 'dict(zip(children_field_names, children))'
              for s in un.body)
    ctx.check('dataclass/one-name-tuple', ok and okf and oku,
              'children order, path entries and unflatten keywords all come from children_field_names = tuple(children_fields)',
              'children (%s), entries (%s) and unflatten (%s) do not share one name tuple'
              % (ok, okf, oku), mod.loc(fl))
    # unflatten re-creates through the constructor (so __post_init__ runs again)
    okc = any(isinstance(s, ast.Return) and src(s.value) == 'cls(**kwargs)' for s in un.body) and \
        any(src(s) == 'kwargs.update(metadata)' for s in un.body)
    ctx.check('dataclass/unflatten-via-constructor', okc,
              'unflatten calls cls(**children, **metadata): __init__/__post_init__ run again',
              'unflatten does not rebuild through cls(**kwargs)', mod.loc(un))
    # registration: same namespace, DataclassEntry
    regs = [c for c in calls_under(fn) if call_name(c) == 'register_pytree_node']
    okr = False
    if len(regs) == 1:
        kw = {k.arg: src(k.value) for k in regs[0].keywords}
        a = [src(x) for x in regs[0].args]
        okr = a == ['cls', 'flatten_func', 'unflatten_func'] and kw == {
            'path_entry_type': 'DataclassEntry', 'namespace': 'namespace'}
    ctx.check('dataclass/registered-in-namespace', okr,
              'the class is registered with the generated functions, DataclassEntry and the caller\'s namespace',
              'registration call is not register_pytree_node(cls, flatten_func, unflatten_func, '
              'path_entry_type=DataclassEntry, namespace=namespace)', mod.loc(fn))


DC_KW = ['init', 'repr', 'eq', 'order', 'unsafe_hash', 'frozen']
DC_KW_VERSIONED = ['match_args', 'kw_only', 'slots', 'weakref_slot']


@rule('DC2', floor=20, title='every keyword of dataclass()/make_dataclass() reaches the stdlib under its own name')
def dc2(ctx):
    pkg = ctx.py()
    mod = pkg.mod('optree.dataclasses')
    for fname, dictname in (('dataclass', 'kwargs'), ('make_dataclass', 'dataclass_kwargs')):
        fn = mod.func(fname)
        lit = [s for s in fn.body if isinstance(s, ast.Assign) and is_name(s.targets[0], dictname)
               and isinstance(s.value, ast.Dict)]
        ctx.require(len(lit) == 1, '%s: literal %s = {...} not found' % (fname, dictname))
        pairs = {k.value: src(v) for k, v in zip(lit[0].value.keys, lit[0].value.values)
                 if isinstance(k, ast.Constant)}
        stores = {}
        for s in walk(fn):
            if isinstance(s, ast.Assign) and isinstance(s.targets[0], ast.Subscript) and \
                    is_name(s.targets[0].value, dictname) and isinstance(s.targets[0].slice, ast.Constant):
                stores[s.targets[0].slice.value] = src(s.value)
        for k in DC_KW:
            ctx.check('%s/kw/%s' % (fname, k), pairs.get(k) == k,
                      '%s: `%s` is forwarded as %s=%s' % (fname, k, k, k),
                      '%s: keyword `%s` is routed to %s' % (fname, k, pairs.get(k)), mod.loc(lit[0]))
        for k in DC_KW_VERSIONED:
            ctx.check('%s/kw/%s' % (fname, k), stores.get(k) == k,
                      '%s: `%s` is forwarded under its own name (version guarded)' % (fname, k),
                      '%s: keyword `%s` is routed to %s' % (fname, k, stores.get(k)), mod.loc(fn))
        tgt = 'dataclasses.dataclass' if fname == 'dataclass' else 'dataclasses.make_dataclass'
        calls = [c for c in calls_under(fn) if call_name(c) == tgt]
        ok = len(calls) == 1 and any(k.arg is None and is_name(k.value, dictname) for k in calls[0].keywords)
        ctx.check('%s/kwargs-splat' % fname, ok,
                  '%s passes **%s to %s' % (fname, dictname, tgt),
                  '%s does not pass **%s to %s' % (fname, dictname, tgt), mod.loc(fn))
    fn = mod.func('make_dataclass')
    lit = [s for s in fn.body if isinstance(s, ast.Assign) and is_name(s.targets[0], 'make_dataclass_kwargs')]
    pairs = {}
    if lit and isinstance(lit[0].value, ast.Dict):
        pairs = {k.value: src(v) for k, v in zip(lit[0].value.keys, lit[0].value.values)}
    ctx.check('make_dataclass/bases-ns', pairs == {'bases': 'bases', 'namespace': 'ns'},
              'make_dataclass routes bases=bases and the class-dict argument ns -> namespace=',
              'make_dataclass routes %s' % pairs, mod.loc(fn))
    mk = [c for c in calls_under(fn) if call_name(c) == 'dataclasses.make_dataclass']
    ok = bool(mk) and [src(a) for a in mk[0].args] == ['cls_name'] and \
        {k.arg: src(k.value) for k in mk[0].keywords if k.arg} == {'fields': 'fields'}
    ctx.check('make_dataclass/name-fields', ok,
              'make_dataclass forwards cls_name and fields', 'cls_name/fields not forwarded', mod.loc(fn))


def _first_cond(cfg, test):
    for x in walk(test):
        n = cfg.node_of(x)
        if n is not None and cfg.nodes[n].kind == 'cond':
            return n
    return None


@rule('DC3', floor=3, title='dataclass rejections (decorated twice, non-init node) dominate registration; field() keeps the flag')
def dc3(ctx):
    pkg = ctx.py()
    mod = pkg.mod('optree.dataclasses')
    fn = mod.func('dataclass')
    cfg = pycfg(fn)
    rfn, rq = _registration_function(ctx, mod)
    reg = [c for c in calls_under(rfn) if call_name(c) == 'register_pytree_node']
    std = [c for c in calls_under(fn) if call_name(c) == 'dataclasses.dataclass']
    ctx.require(reg and std, 'dataclass(): register / dataclasses.dataclass calls not found')
    twice = [s for s in walk(fn) if isinstance(s, ast.If) and src(s.test) == '_FIELDS in cls.__dict__'
             and any(isinstance(x, ast.Raise) and call_name(x.exc) == 'TypeError' for x in s.body)]
    ok = bool(twice) and cfg.dominates(_first_cond(cfg, twice[0].test), cfg.node_of(std[0]))
    ctx.check('dataclass/twice-rejected', ok,
              'decorating a class twice raises TypeError before dataclasses.dataclass runs',
              'the decorated-twice rejection is missing or does not dominate dataclasses.dataclass',
              mod.loc(fn))
    mark = [s for s in walk(rfn) if isinstance(s, ast.Expr) and call_name(s.value) == 'setattr'
            and len(s.value.args) == 3 and src(s.value.args[1]) == '_FIELDS']
    ctx.check('dataclass/marker-set', bool(mark),
              'the class is marked with _FIELDS (what the twice-check looks for)',
              'the _FIELDS marker is never set: the twice-check can never fire', mod.loc(fn))
    f2 = mod.func('field')
    cfg2 = pycfg(f2)
    ret = [c for c in calls_under(f2) if call_name(c) == 'dataclasses.field']
    rej = [s for s in walk(f2) if isinstance(s, ast.If) and src(s.test) == 'not init and pytree_node'
           and any(isinstance(x, ast.Raise) and call_name(x.exc) == 'TypeError' for x in s.body)]
    store = [s for s in walk(f2) if isinstance(s, ast.Assign) and src(s.targets[0]) == "metadata['pytree_node']"
             and src(s.value) == 'pytree_node']
    ok = bool(ret) and bool(rej) and bool(store) and \
        cfg2.dominates(_first_cond(cfg2, rej[0].test), cfg2.node_of(ret[0])) and \
        cfg2.dominates(cfg2.node_of(store[0]), cfg2.node_of(ret[0]))
    ctx.check('field/flag-stored-and-checked', ok,
              'field() stores the pytree_node flag in the metadata and rejects init=False nodes '
              'before creating the field',
              'field() does not store/check the pytree_node flag before dataclasses.field()', mod.loc(f2))


@rule('DC4', floor=4, title='optree.functools.partial: children/entries/metadata and unflatten are inverse; nested partials are shimmed')
def dc4(ctx):
    pkg = ctx.py()
    mod = pkg.mod('optree.functools')
    fl = mod.func('partial.tree_flatten')
    un = mod.func('partial.tree_unflatten')
    new = mod.func('partial.__new__')
    ret = [s for s in fl.body if isinstance(s, ast.Return)]
    ok = False
    if ret and isinstance(ret[0].value, ast.Tuple) and len(ret[0].value.elts) == 3:
        c, m, e = [src(x) for x in ret[0].value.elts]
        ok = c == '(self.args, self.keywords)' and m == 'self.func' and e == "('args', 'keywords')"
    ctx.check('partial/flatten', ok,
              'partial flattens to children (args, keywords), metadata func, entries ("args", "keywords")',
              'partial.tree_flatten returns %s' % (src(ret[0].value) if ret else None), mod.loc(fl))
    oku = any(src(s) == 'args, keywords = children' for s in un.body) and \
        any(isinstance(s, ast.Return) and src(s.value) == 'cls(metadata, *args, **keywords)' for s in un.body)
    ctx.check('partial/unflatten', oku,
              'partial.tree_unflatten rebuilds cls(func, *args, **keywords) from (args, keywords)',
              'partial.tree_unflatten is not the inverse of tree_flatten', mod.loc(un))
    cls = mod.classes.get('partial')
    decs = [src(d) for d in cls.decorator_list] if cls else []
    ctx.check('partial/registered-globally',
              any('register_pytree_node_class' in d and '__GLOBAL_NAMESPACE' in d for d in decs),
              'partial is registered in the global namespace', 'partial decorators: %s' % decs,
              mod.loc(cls) if cls else None)
    tpe = [s for s in cls.body if isinstance(s, ast.AnnAssign) and is_name(s.target, 'TREE_PATH_ENTRY_TYPE')]
    ctx.check('partial/entry-type', bool(tpe) and src(tpe[0].value) == 'GetAttrEntry',
              'partial children are addressed by attribute (GetAttrEntry)',
              'TREE_PATH_ENTRY_TYPE is not GetAttrEntry', mod.loc(cls))
    # shim before super().__new__ for wrapped functools.partial
    cfgn = pycfg(new)
    guard = [s for s in walk(new) if isinstance(s, ast.If) and src(s.test) == 'isinstance(func, functools.partial)']
    oks = False
    if guard:
        shim = [s for s in guard[0].body if isinstance(s, ast.Assign) and is_name(s.targets[0], 'func')
                and call_name(s.value) == '_HashablePartialShim']
        sup = [c for b in guard[0].body for c in calls_under(b) if (call_name(c) or '').endswith('.__new__')]
        oks = bool(shim) and bool(sup) and shim[0].lineno < sup[0].lineno and \
            any(is_name(a, 'func') for a in sup[0].args)
    ctx.check('partial/shim', oks,
              'a wrapped functools.partial is replaced by the shim before functools.partial.__new__ '
              'can merge its arguments',
              'functools.partial.__new__ receives a raw functools.partial: nested partials are merged',
              mod.loc(new))


def _reprocesses(mod, fn, param, depth=0, seen=None):
    """does fn pass its parameter `param` to dataclasses.dataclass (directly or through module
    functions) without an is-dataclass guard?  returns the offending call or None"""
    seen = seen if seen is not None else set()
    if id(fn) in seen or depth > 3:
        return None
    seen.add(id(fn))
    for c in calls_under(fn):
        cn = call_name(c)
        if not c.args or not is_name(c.args[0], param):
            continue
        if cn == 'dataclasses.dataclass':
            guarded = False
            for s in walk(fn):
                if isinstance(s, ast.If) and re.search(r'is_dataclass\(%s\)|__dataclass_fields__' % param, src(s.test)):
                    if any(y is c for b in s.body + s.orelse for y in ast.walk(b)):
                        guarded = True
            if not guarded:
                return c
        elif cn in mod.funcs and '.' not in cn:
            callee = mod.funcs[cn]
            pos = [a.arg for a in callee.args.posonlyargs + callee.args.args]
            if pos:
                r = _reprocesses(mod, callee, pos[0], depth + 1, seen)
                if r is not None:
                    return r
    return None


@rule('DC5', floor=1, title='a class is processed by dataclasses.dataclass exactly once')
def dc5(ctx):
    """Domain fact: re-applying dataclasses.dataclass to a class that already is a dataclass
    rebuilds __dataclass_fields__ from the class attributes and loses every field() option of the
    class's own fields."""
    pkg = ctx.py()
    mod = pkg.mod('optree.dataclasses')
    mk = mod.func('make_dataclass')
    made = None
    for s in mk.body:
        if isinstance(s, ast.Assign) and call_name(s.value) == 'dataclasses.make_dataclass':
            made = s.targets[0].id
    ctx.require(made is not None, 'make_dataclass: result of dataclasses.make_dataclass not stored')
    flows = [c for c in calls_under(mk) if c.args and is_name(c.args[0], made)]
    ctx.require(flows, 'make_dataclass: the made class is not passed on')
    for c in flows:
        callee = call_name(c)
        site = 'make_dataclass->made-class'
        bad = None
        if callee == 'dataclasses.dataclass':
            bad = c
        elif callee in mod.funcs:
            cf = mod.funcs[callee]
            pos = [a.arg for a in cf.args.posonlyargs + cf.args.args]
            bad = _reprocesses(mod, cf, pos[0]) if pos else None
        ctx.check(site, bad is None,
                  'the class made by dataclasses.make_dataclass flows to %s, which never runs '
                  'dataclasses.dataclass on it again' % callee,
                  'make_dataclass hands the class made by dataclasses.make_dataclass to %s, which '
                  'runs dataclasses.dataclass on it a second time (%s): the second pass rebuilds the '
                  'fields from plain class attributes, so `pytree_node=False` / `init=False` given '
                  'through field() are lost - every field becomes a child and unflatten passes '
                  'non-init fields to __init__'
                  % (callee, mod.loc(bad) if bad is not None else ''), mod.loc(c))


# ---------------------------------------------------------------------------------------------
BACKENDS = ('optree.integration.numpy', 'optree.integration.jax', 'optree.integration.torch')
RAVEL_FUNCS = ['tree_ravel', '_tree_unravel', '_ravel_leaves', '_unravel_empty',
               '_unravel_leaves_single_dtype', '_unravel_leaves']


def _partials(fn):
    """calls functools.partial(f, a...) / HashablePartial(f, a...) in fn"""
    return [c for c in calls_under(fn) if call_name(c) in ('functools.partial', 'HashablePartial', 'partial')
            and c.args and isinstance(c.args[0], ast.Name)]


@rule('R1', floor=9, title='every partial in the ravel code binds exactly the leading parameters of its target, by name')
def r1(ctx):
    pkg = ctx.py()
    for mname in BACKENDS:
        mod = pkg.mod(mname)
        b = mname.split('.')[-1]
        for fname in ('tree_ravel', '_ravel_leaves'):
            fn = mod.func(fname)
            for i, c in enumerate(_partials(fn)):
                tgt = mod.funcs.get(c.args[0].id)
                ctx.require(tgt is not None, '%s.%s: partial target %s not found' % (b, fname, c.args[0].id))
                pos, var, kwonly, kw = param_names(tgt)
                bound = [src(a) for a in c.args[1:]]
                ok = bound == pos[:len(bound)] and len(pos) == len(bound) + 1 and not c.keywords
                ctx.check('%s.%s/partial(%s)' % (b, fname, c.args[0].id), ok,
                          '%s.%s binds %s of %s%s, leaving `%s`' % (b, fname, bound, c.args[0].id,
                                                                    tuple(pos), pos[-1] if pos else None),
                          '%s.%s: partial(%s, %s) does not bind the leading parameters %s of the '
                          'target in order (values would land in the wrong slots)'
                          % (b, fname, c.args[0].id, ', '.join(bound), pos[:-1]), mod.loc(c))


@rule('R2', floor=15, title='unravel functions check shape (and dtype when mixed) before splitting and join with a strict zip')
def r2(ctx):
    pkg = ctx.py()
    utils = pkg.mod('optree.utils')
    sz = utils.func('safe_zip')
    strict = any(isinstance(s, ast.If) and 'len(set(map(len' in src(s.test) and
                 any(isinstance(x, ast.Raise) for x in s.body) for s in sz.body)
    ctx.check('utils.safe_zip/strict', strict,
              'safe_zip raises on length mismatch', 'safe_zip no longer checks lengths', utils.loc(sz))
    for mname in BACKENDS:
        mod = pkg.mod(mname)
        b = mname.split('.')[-1]
        for fname in ('_unravel_empty', '_unravel_leaves_single_dtype', '_unravel_leaves'):
            fn = mod.func(fname)
            cfg = pycfg(fn)
            rets = [s for s in walk(fn) if isinstance(s, ast.Return)]
            ctx.require(len(rets) == 1, '%s.%s: %d returns' % (b, fname, len(rets)))
            rn = cfg.node_of(rets[0])

            def guard(pred):
                for s in walk(fn):
                    if isinstance(s, ast.If) and pred(src(s.test)) and \
                            any(isinstance(x, ast.Raise) and call_name(x.exc) == 'ValueError' for x in s.body):
                        c = cfg.node_of(s.test)
                        if c is not None and cfg.dominates(c, rn):
                            return True
                return False
            ctx.check('%s.%s/shape-guard' % (b, fname),
                      guard(lambda t: 'shape' in t and '!=' in t),
                      '%s.%s rejects a wrongly shaped array (ValueError) before splitting' % (b, fname),
                      '%s.%s: the shape guard is missing or does not dominate the result' % (b, fname),
                      mod.loc(fn))
            if fname == '_unravel_leaves':
                ctx.check('%s.%s/dtype-guard' % (b, fname),
                          guard(lambda t: 'dtype' in t and '!=' in t and 'to_dtype' in t),
                          '%s.%s rejects an array of the wrong dtype (mixed-dtype case)' % (b, fname),
                          '%s.%s: the dtype guard is missing or does not dominate the result' % (b, fname),
                          mod.loc(fn))
            if fname != '_unravel_empty':
                zips = [c for c in calls_under(fn) if call_name(c) == 'safe_zip']
                plain = [c for c in calls_under(fn) if call_name(c) == 'zip']
                want = ['chunks', 'shapes'] + (['from_dtypes'] if fname == '_unravel_leaves' else [])
                ok = len(zips) == 1 and [src(a) for a in zips[0].args] == want and not plain
                ctx.check('%s.%s/strict-zip' % (b, fname), ok,
                          '%s.%s joins %s with safe_zip' % (b, fname, want),
                          '%s.%s does not join %s with safe_zip (a silent truncation would drop leaves)'
                          % (b, fname, want), mod.loc(fn))


def _is_all_equal(test):
    """all(<x> == <y> for <x> in <zs>) modulo names"""
    if not (isinstance(test, ast.Call) and is_name(test.func, 'all') and len(test.args) == 1):
        return False
    g = test.args[0]
    if not isinstance(g, ast.GeneratorExp) or len(g.generators) != 1 or g.generators[0].ifs:
        return False
    e = g.elt
    return (isinstance(e, ast.Compare) and len(e.ops) == 1 and isinstance(e.ops[0], ast.Eq) and
            isinstance(g.generators[0].target, ast.Name) and
            g.generators[0].target.id in (src(e.left), src(e.comparators[0])))


def _is_unflatten_of_call(fn, value):
    """tree_unflatten(<param 0>, <param 1>(<param 2>)) modulo parameter names"""
    ps = [a.arg for a in fn.args.posonlyargs + fn.args.args]
    if len(ps) != 3 or not (isinstance(value, ast.Call) and call_name(value) == 'tree_unflatten'):
        return False
    a = value.args
    return (len(a) == 2 and not value.keywords and is_name(a[0], ps[0]) and isinstance(a[1], ast.Call) and
            is_name(a[1].func, ps[1]) and len(a[1].args) == 1 and is_name(a[1].args[0], ps[2]) and
            not a[1].keywords)


@rule('R3', floor=6, title='the three ravel backends have the same structure')
def r3(ctx):
    pkg = ctx.py()
    shapes = {}
    for mname in BACKENDS:
        mod = pkg.mod(mname)
        b = mname.split('.')[-1]
        for fname in RAVEL_FUNCS:
            ctx.check('%s/%s/exists' % (b, fname), fname in mod.funcs,
                      '%s defines %s' % (b, fname), '%s lacks %s' % (b, fname), mod.relpath + ':1')
        fn = mod.funcs.get('_ravel_leaves')
        if fn is None:
            continue
        parts = [c.args[0].id for c in _partials(fn)]
        empties = [s for s in fn.body if isinstance(s, ast.If) and src(s.test) == 'not leaves']
        single = [s for s in walk(fn) if isinstance(s, ast.If) and _is_all_equal(s.test)]
        shapes[b] = (parts, bool(empties), bool(single))
        tr = mod.funcs.get('tree_ravel')
        fl = [c for c in calls_under(tr) if call_name(c) == 'tree_flatten']
        un = mod.funcs.get('_tree_unravel')
        oku = un is not None and any(isinstance(s, ast.Return) and _is_unflatten_of_call(un, s.value)
                                     for s in un.body)
        ctx.check('%s/tree_ravel/shape' % b, len(fl) == 1 and oku,
                  '%s: tree_ravel = tree_flatten + _ravel_leaves; unravel = tree_unflatten(treespec, unravel_flat(flat))' % b,
                  '%s: tree_ravel/_tree_unravel do not have the flatten / unflatten shape' % b,
                  mod.loc(tr))
    vals = set((tuple(p), e, s) for p, e, s in shapes.values())
    ctx.check('backends/same-ravel-structure', len(vals) == 1 and
              list(vals)[0] == (('_unravel_leaves_single_dtype', '_unravel_leaves'), True, True),
              'all backends: empty case, single-dtype fast path, mixed-dtype path with casts',
              'backends differ: %s' % shapes, None)


@rule('R4', floor=3, title='the common dtype is computed by an associative promotion')
def r4(ctx):
    """Domain fact: numpy.promote_types is not associative (promote(promote(int8, uint8), float16)
    is float32, numpy.result_type(int8, uint8, float16) is float16), so folding it pairwise over
    the leaves does not give the common promoted dtype and makes the result depend on leaf order.
    numpy.result_type is n-ary; jax and torch promotion follow a lattice and may be folded."""
    pkg = ctx.py()
    for mname in BACKENDS:
        mod = pkg.mod(mname)
        b = mname.split('.')[-1]
        fn = mod.func('_ravel_leaves')
        defs = [s for s in walk(fn) if isinstance(s, ast.Assign) and is_name(s.targets[0], 'to_dtype')]
        ctx.require(len(defs) >= 1, '%s._ravel_leaves: no definition of to_dtype' % b)
        text = ' ; '.join(src(d_.value) for d_ in defs)
        pairwise_np = bool(re.search(r'reduce\(\s*(np|numpy)\.promote_types', text))
        ctx.check('%s._ravel_leaves/promotion' % b, not (b == 'numpy' and pairwise_np),
                  '%s: common dtype computed as `%s`' % (b, text),
                  'numpy backend folds np.promote_types pairwise (`%s`): that operation is not '
                  'associative, the ravel dtype becomes wider than the common promoted dtype for '
                  'some leaf orders and unravel rejects vectors of the true dtype' % text,
                  mod.loc(defs[0]))
