"""Registry / dict-order-mode rules on the Python side (optree/registry.py and friends) plus the
engine half of the dict-order mode: G3 mirror order, G4 argument validation parity, K6py lookup
order of the Python twin, D1 mode context manager, D2 mode consumers, D3 set/query shape,
T5 path-entry-type table."""
from __future__ import annotations

import ast
import re

from ..engine import rule
from ..descriptors import arm_descriptors
from ..py_frontend import (dotted, call_name, calls_under, walk, param_names, is_name, src, pycfg, pmatch)
from ..cfg import cfg_of, const_eval
from ..cxx_ir import CALL_KINDS
from .common import (short, inst, live_funcs, calls_in, callee_func, member_path, enclosing_map,
                     ancestors, kind_switches, local_inits, strip_casts, if_outcome)
from .traversal import _path_facts, _conj_atoms

MIRROR = '_NODETYPE_REGISTRY'
LOCK = '__REGISTRY_LOCK'
MUTATING_METHODS = {'pop', 'update', 'clear', 'setdefault', 'popitem', '__setitem__', '__delitem__'}


def _mirror_writes(fn):
    out = []
    for n in walk(fn):
        if isinstance(n, (ast.Assign, ast.AugAssign, ast.AnnAssign)):
            tgts = n.targets if isinstance(n, ast.Assign) else [n.target]
            for t in tgts:
                if isinstance(t, ast.Subscript) and is_name(t.value, MIRROR):
                    out.append((n, 'store'))
                if is_name(t, MIRROR):
                    out.append((n, 'rebind'))
        elif isinstance(n, ast.Delete):
            for t in n.targets:
                if isinstance(t, ast.Subscript) and is_name(t.value, MIRROR):
                    out.append((n, 'delete'))
        elif isinstance(n, ast.Call) and isinstance(n.func, ast.Attribute) and \
                is_name(n.func.value, MIRROR) and n.func.attr in MUTATING_METHODS:
            out.append((n, n.func.attr))
    return out


def _enclosing_with(fn, node):
    """innermost `with` statement of fn containing node, or None"""
    best = None
    for w in walk(fn):
        if isinstance(w, (ast.With,)):
            if any(x is node for b in w.body for x in ast.walk(b)):
                best = w
    return best


def _with_lock(w):
    return w is not None and any(dotted(i.context_expr) == LOCK for i in w.items)


@rule('G3', floor=6, title='the Python mirror is written only after the engine call, under the registry lock, with the same key')
def g3(ctx):
    pkg = ctx.py()
    writers = {}
    for mname, mod in pkg.modules.items():
        if mname.endswith('(pyi)'):
            continue
        for qual, fn in mod.funcs.items():
            if '.' in qual and qual.split('.')[0] in mod.funcs:
                continue
            ws = _mirror_writes(fn)
            if ws:
                writers[(mname, qual)] = (mod, fn, ws)
    expected = {('optree.registry', 'register_pytree_node'): '_C.register_node',
                ('optree.registry', 'unregister_pytree_node'): '_C.unregister_node'}
    for key in writers:
        ctx.check('mirror-writer/%s.%s' % key, key in expected,
                  '%s.%s is one of the two functions allowed to write the mirror' % key,
                  '%s.%s writes %s: a third writer can make the Python-visible registry disagree '
                  'with the engine' % (key[0], key[1], MIRROR),
                  writers[key][0].loc(writers[key][1]))
    # a failed engine call is not "undone" blindly: an exception handler round the engine call that
    # makes the opposite engine call without any test of its own removes what was there before the
    # call (a duplicate registration fails *because* the entry exists - rolling it back deletes it)
    opposite = {'_C.register_node': '_C.unregister_node', '_C.unregister_node': '_C.register_node'}
    for key, engine_call in expected.items():
        if key not in writers:
            continue
        mod_, fn_, _ws = writers[key]
        blind = []
        for t in walk(fn_):
            if not isinstance(t, ast.Try):
                continue
            if not any(isinstance(c, ast.Call) and call_name(c) == engine_call for b in t.body for c in ast.walk(b)):
                continue
            for h in t.handlers:
                for c in ast.walk(h):
                    if isinstance(c, ast.Call) and call_name(c) == opposite[engine_call]:
                        guarded = any(isinstance(a, (ast.If, ast.IfExp)) and any(x is c for x in ast.walk(a))
                                      for b in h.body for a in ast.walk(b))
                        if not guarded:
                            blind.append(c)
        ctx.check('%s/no-blind-rollback' % key[1], not blind,
                  '%s: no exception handler round %s undoes the call unconditionally' % (key[1], engine_call),
                  '%s: when %s raises, the handler calls %s for the same key without asking why it failed: a '
                  'call that fails because the entry already exists (or does not) destroys the state it found, '
                  'and the Python-visible registry no longer describes what flattening does'
                  % (key[1], engine_call, opposite[engine_call]), mod_.loc(blind[0]) if blind else mod_.loc(fn_))
    for key, engine_call in expected.items():
        ctx.require(key in writers, '%s.%s no longer writes the mirror' % key)
        mod, fn, ws = writers[key]
        cfg = pycfg(fn)
        for node, how in ws:
            w = _enclosing_with(fn, node)
            site = '%s/%s' % (key[1], how)
            ctx.check(site + '/locked', _with_lock(w),
                      '%s: mirror %s happens inside `with %s`' % (key[1], how, LOCK),
                      '%s: mirror %s happens outside `with %s`: a concurrent registration can '
                      'interleave between the engine update and the mirror update' % (key[1], how, LOCK),
                      mod.loc(node))
            ecalls = [c for c in calls_under(fn) if call_name(c) == engine_call]
            ctx.require(len(ecalls) == 1, '%s: %d calls of %s' % (key[1], len(ecalls), engine_call))
            e = ecalls[0]
            en, wn = cfg.node_of(e), cfg.node_of(node)
            same_with = w is not None and any(x is e for b in w.body for x in ast.walk(b))
            ctx.check(site + '/after-engine', en != wn and cfg.dominates(en, wn) and same_with,
                      '%s: %s runs first, in the same locked block; the mirror is touched only '
                      'if it did not raise' % (key[1], engine_call),
                      '%s: the mirror is written before / without %s having succeeded in the same '
                      'locked block: a rejected call leaves a mirror entry the engine does not have'
                      % (key[1], engine_call), mod.loc(node))
            # same key: the subscript/pop key is the variable built from (namespace, cls), and
            # the engine receives cls and namespace
            keyexpr = None
            if how == 'store':
                keyexpr = node.targets[0].slice
            elif how == 'pop':
                keyexpr = node.args[0] if node.args else None
            kname = keyexpr.id if isinstance(keyexpr, ast.Name) else None
            ok = False
            if kname:
                defs = [s for s in walk(fn) if isinstance(s, ast.Assign) and
                        any(is_name(t, kname) for t in s.targets)]
                vals = {src(s.value) for s in defs}
                ok = vals == {'cls', '(namespace, cls)'}
            from ..bridge import engine_call_args
            ea_ = engine_call_args(ctx.cxx(), e) or {}
            ok = ok and src(ea_.get('cls')) == 'cls' and src(ea_.get('namespace')) == 'namespace'
            ctx.check(site + '/same-key', ok,
                      '%s: mirror key is cls (global) / (namespace, cls), the engine gets (cls, ..., namespace)'
                      % key[1],
                      '%s: mirror key `%s` is not built from the (namespace, cls) the engine received'
                      % (key[1], src(keyexpr) if keyexpr is not None else None), mod.loc(node))


# ---------------------------------------------------------------------------------------------
G4_ENTRY = {
    ('optree.registry', 'register_pytree_node'): (True, {'_C.register_node'}),
    ('optree.registry', 'register_pytree_node_class'): (True, {'register_pytree_node'}),
    ('optree.registry', 'unregister_pytree_node'): (True, {'_C.unregister_node'}),
    ('optree.registry', 'dict_insertion_ordered'): (False, {'_C.set_dict_insertion_ordered'}),
    ('optree.dataclasses', 'dataclass'): (True, {'dataclasses.dataclass', 'register_pytree_node'}),
    ('optree.dataclasses', 'make_dataclass'): (False, {'dataclasses.make_dataclass', 'dataclass'}),
}


def _rejecting_label(a):
    """the outcome (True / False edge) of a validation atom on which the argument is to be rejected;
    None for atoms this table does not know"""
    if isinstance(a, ast.Call):
        nm = call_name(a) or ''
        if nm in ('inspect.isclass', 'isinstance', 'callable', 'dataclasses.is_dataclass'):
            return False                      # not a class / not of the type / not callable
        return None
    if isinstance(a, ast.Compare) and len(a.ops) == 1:
        op, r = a.ops[0], a.comparators[0]
        l = a.left
        # values that stand for "everything" / a documented stand-in, which the validation lets
        # through: None and the namedtuple / structseq stubs for the class, the global sentinel
        # for the namespace (a `namespace is None` test is the opposite: a missing argument)
        sentinel = (is_name(l, 'cls') and ((isinstance(r, ast.Constant) and r.value is None) or
                                           (isinstance(r, ast.Name) and r.id in ('namedtuple', 'structseq')))) or \
            (isinstance(l, ast.Name) and 'namespace' in l.id and isinstance(r, ast.Name) and 'GLOBAL_NAMESPACE' in r.id)
        if isinstance(op, (ast.Is, ast.IsNot)) and sentinel:
            return isinstance(op, ast.IsNot)  # rejected only when it is NOT the sentinel
        if isinstance(op, (ast.Eq, ast.NotEq)) and isinstance(r, ast.Constant) and r.value == '':
            return isinstance(op, ast.Eq)     # the empty string is rejected
    return None


def _raise_guards(fn):
    out = []
    for s in walk(fn):
        if isinstance(s, ast.If) and s.body and isinstance(s.body[-1], ast.Raise) and \
                isinstance(s.body[-1].exc, ast.Call):
            out.append((s, src(s.test), call_name(s.body[-1].exc)))
    return out


def _g4_polarity(ctx, mod, mname, fname, fn, cfg, guards):
    # polarity: the raise of each validation is reached on the rejecting outcome of every atom of
    # its test, and on no other (`not isinstance(namespace, str)` rejects non-strings, `namespace
    # is not <sentinel>` lets the sentinel through, `namespace == ''` rejects the empty string)
    for s_, t_, e_ in guards:
        rn_ = cfg.node_of(s_.body[-1])
        for cn_ in cfg.nodes:
            if cn_.kind != 'cond' or cn_.ast is None or not any(x is cn_.ast for x in ast.walk(s_.test)):
                continue
            rej = _rejecting_label(cn_.ast)
            if rej is None:
                continue
            good = cfg.reachable([w for (w, lab) in cfg.succ[cn_.idx] if lab is rej])
            # the accepting outcome must not lead straight to the raise (through another atom
            # of the same test it may: `not A or not B`)
            bad_, work_ = set(), [w for (w, lab) in cfg.succ[cn_.idx] if lab is (not rej)]
            while work_:
                x_ = work_.pop()
                if x_ in bad_:
                    continue
                bad_.add(x_)
                if cfg.nodes[x_].kind != 'cond':
                    work_ += [w for (w, _) in cfg.succ[x_]]
            ctx.check('%s/polarity/%s' % (fname, src(cn_.ast)[:40]), rn_ in good and rn_ not in bad_,
                      '%s.%s: `%s` leads to the %s exactly on its rejecting outcome' % (mname, fname, src(cn_.ast), e_),
                      '%s.%s: the %s guarded by `%s` is raised on the wrong outcome of `%s`: valid arguments '
                      'are rejected and the invalid ones reach the engine' % (mname, fname, e_, t_[:60], src(cn_.ast)),
                      mod.loc(s_))


@rule('G4', floor=16, title='every entry point that takes a registration namespace validates class and namespace before any engine call')
def g4(ctx):
    pkg = ctx.py()
    for (mname, fname), (takes_cls, engine) in G4_ENTRY.items():
        mod = pkg.mod(mname)
        fn = mod.func(fname)
        cfg = pycfg(fn)
        targets = [c for c in calls_under(fn) if call_name(c) in engine]
        ctx.require(targets, '%s.%s: none of %s is called' % (mname, fname, sorted(engine)))
        tn = [cfg.node_of(c) for c in targets]
        guards = _raise_guards(fn)

        def dominating(pred, exc):
            for s, t, e in guards:
                if pred(t) and e == exc:
                    conds = [cfg.node_of(x) for x in walk(s.test)]
                    conds = [c for c in conds if c is not None and cfg.nodes[c].kind == 'cond']
                    if conds and all(cfg.dominates(conds[0], x) for x in tn if x is not None):
                        return True
            return False
        checks = [
            ('namespace-type',
             lambda t: 'isinstance(namespace, str)' in t and 'not' in t and 'GLOBAL_NAMESPACE' in t,
             'TypeError', 'a non-string namespace (other than the global sentinel) raises TypeError'),
            ('namespace-empty', lambda t: re.search(r"namespace == ''", t) is not None, 'ValueError',
             "an empty-string namespace raises ValueError"),
        ]
        if takes_cls:
            checks.insert(0, ('class', lambda t: 'inspect.isclass(cls)' in t and 'not' in t,
                              'TypeError', 'a non-class raises TypeError'))
        _g4_polarity(ctx, mod, mname, fname, fn, cfg, guards)
        for cid, pred, exc, what in checks:
            ctx.check('%s/%s' % (fname, cid), dominating(pred, exc),
                      '%s.%s: %s before %s is reached' % (mname, fname, what, sorted(engine)),
                      '%s.%s: no dominating check that %s: the engine (or the dataclass '
                      'machinery) is reached with an unvalidated argument' % (mname, fname, what),
                      mod.loc(fn))
    # the global sentinel never reaches the engine: where it is what the caller passed, the
    # namespace is replaced by '' on every path to a `_C.` call that takes it
    for (mname, fname) in [k for k, v in G4_ENTRY.items() if any(e.startswith('_C.') for e in v[1])] + \
            [('optree.registry', 'pytree_node_registry_get')]:
        mod = pkg.mod(mname)
        fn = mod.func(fname)
        cfg = pycfg(fn)
        ccalls = [c for c in calls_under(fn) if (call_name(c) or '').startswith('_C.') and
                  any(is_name(a, 'namespace') for a in list(c.args) + [k.value for k in c.keywords])]
        ctx.require(ccalls, '%s.%s: no engine call takes the namespace' % (mname, fname))
        tests = [n for n in cfg.nodes if n.kind == 'cond' and isinstance(n.ast, ast.Compare) and
                 len(n.ast.ops) == 1 and isinstance(n.ast.ops[0], (ast.Is, ast.IsNot)) and
                 is_name(n.ast.left, 'namespace') and isinstance(n.ast.comparators[0], ast.Name) and
                 'GLOBAL_NAMESPACE' in n.ast.comparators[0].id]
        sets = {cfg.node_of(a) for a in walk(fn) if isinstance(a, ast.Assign) and len(a.targets) == 1 and
                is_name(a.targets[0], 'namespace') and isinstance(a.value, ast.Constant) and a.value.value == ''}
        sets.discard(None)
        ok = False
        why = 'no test of the namespace against the global sentinel'
        for t in tests:
            is_edge = isinstance(t.ast.ops[0], ast.Is)
            start = [w for (w, lab) in cfg.succ[t.idx] if lab is is_edge]
            r_ = cfg.reachable(start, skip_nodes=sets, skip_back=False)
            leak = [c for c in ccalls if cfg.node_of(c) in r_]
            doms = all(cfg.dominates(t.idx, cfg.node_of(c)) for c in ccalls)
            if doms and not leak and sets:
                ok = True
            elif doms:
                why = 'on the outcome "namespace is the sentinel" the call %s is reached without `namespace = \'\'`' \
                    % (call_name(leak[0]) if leak else '?')
        ctx.check('%s/sentinel-translated' % fname, ok,
                  '%s.%s: the global sentinel is replaced by \'\' before every engine call that takes the namespace'
                  % (mname, fname),
                  '%s.%s: %s - the engine is asked about a namespace that is not a string (or the sentinel is '
                  'translated on the wrong outcome)' % (mname, fname, why), mod.loc(fn))
    # the lookup validates its arguments too (no engine call to protect, but the same polarity)
    for mname, fname in (('optree.registry', 'pytree_node_registry_get'),):
        mod = pkg.mod(mname)
        fn = mod.func(fname)
        _g4_polarity(ctx, mod, mname, fname, fn, pycfg(fn), _raise_guards(fn))


# ---------------------------------------------------------------------------------------------
@rule('K6py', floor=4, title='the Python registry lookup probes in the engine\'s order and lists namespace entries over global ones')
def k6py(ctx):
    pkg = ctx.py()
    mod = pkg.mod('optree.registry')
    fn = mod.func('pytree_node_registry_get')
    cfg = pycfg(fn)
    gets = [c for c in calls_under(fn) if call_name(c) == MIRROR + '.get']
    named = [c for c in gets if c.args and isinstance(c.args[0], ast.Tuple)]
    glob = [c for c in gets if c.args and is_name(c.args[0], 'cls')]
    ss = [c for c in calls_under(fn) if call_name(c) == 'is_structseq_class']
    nt = [c for c in calls_under(fn) if call_name(c) == 'is_namedtuple_class']
    ctx.require(named and glob and ss and nt, 'pytree_node_registry_get: probes not found')
    n_, g_, s_, t_ = [cfg.node_of(x[0]) for x in (named, glob, ss, nt)]
    ctx.check('registry_get/namespace-before-global',
              g_ in cfg.reachable([n_]) and n_ not in cfg.reachable([g_]),
              'per-class lookup consults the namespace entry before the global entry',
              'per-class lookup consults the global entry before the namespace entry', mod.loc(named[0]))
    ctx.check('registry_get/structseq-before-namedtuple',
              s_ in cfg.reachable([g_]) and t_ in cfg.reachable([s_]) and s_ not in cfg.reachable([t_]),
              'per-class lookup: registry, then struct sequence, then namedtuple (engine order)',
              'per-class lookup does not probe registry -> struct sequence -> namedtuple', mod.loc(ss[0]))
    # each fallback answer is given on the positive outcome of its own recogniser, and only there
    for probe, stub in ((ss[0], 'structseq'), (nt[0], 'namedtuple')):
        rets_ = [r for r in walk(fn) if isinstance(r, ast.Return) and r.value is not None and
                 pmatch(r.value, MIRROR + '.get(%s)' % stub) is not None]
        pn = cfg.node_of(probe)
        ok_ = False
        if len(rets_) == 1 and pn is not None and cfg.nodes[pn].kind == 'cond':
            rn = cfg.node_of(rets_[0])
            yes = cfg.reachable([w for (w, lab) in cfg.succ[pn] if lab is True])
            no = cfg.reachable([w for (w, lab) in cfg.succ[pn] if lab is False])
            ok_ = rn in yes and rn not in no
        ctx.check('registry_get/%s-answer-on-a-hit' % stub, ok_,
                  'the %s entry is the answer exactly when %s says yes' % (stub, call_name(probe)),
                  'the %s entry is not returned on (and only on) the positive outcome of %s: classes '
                  'of that family are listed as leaves, and other classes as %s nodes'
                  % (stub, call_name(probe), stub), mod.loc(probe))
    # namespace lookup only for a non-empty namespace
    guard = [s for s in walk(fn) if isinstance(s, ast.If) and src(s.test) == "namespace != ''" and
             any(x is named[0] for b in s.body for x in ast.walk(b))]
    ctx.check('registry_get/namespace-guard', bool(guard),
              'the namespace entry is looked up only for a non-empty namespace', None, mod.loc(named[0]))
    # listing branch
    listing = [s for s in walk(fn) if isinstance(s, ast.If) and src(s.test) == 'cls is None']
    ctx.require(len(listing) == 1, 'pytree_node_registry_get: `if cls is None` branch not found')
    body = listing[0].body
    comps = [n for b in body for n in ast.walk(b) if isinstance(n, ast.DictComp)]
    updates = [n for b in body for n in ast.walk(b)
               if isinstance(n, ast.Call) and isinstance(n.func, ast.Attribute) and n.func.attr == 'update']
    ok = False
    why = ''
    if len(comps) == 1 and not updates:
        c = comps[0]
        it = src(c.generators[0].iter)
        conds = [src(x) for x in c.generators[0].ifs]
        keyed_by_type = src(c.key).endswith('.type')
        multi = any(' in ' in x for x in conds)
        ordered = 'sorted(' in it
        if keyed_by_type and multi and not ordered:
            why = ('the listing is one dict comprehension over %s keyed by type with filter %s: '
                   'when a type is registered both globally and in the namespace, whichever was '
                   'registered *later* wins - the engine always prefers the namespace entry'
                   % (it, conds))
        else:
            ok = True
    else:
        # two-step build: the step that runs last must select the requested namespace only
        steps = []
        for b in body:
            for n in ast.walk(b):
                if isinstance(n, ast.DictComp) or (isinstance(n, ast.Call) and n in updates):
                    steps.append(n)
        steps.sort(key=lambda n: (n.lineno, n.col_offset))
        # an update(<comprehension>) and its argument are one step: keep the outermost
        last = None
        for n in steps:
            if isinstance(n, ast.Call):
                last = n
            elif last is None or not any(x is n for x in ast.walk(last)):
                last = n
        text = src(last) if last is not None else ''
        ok = bool(re.search(r"\.namespace == namespace\b", text)) and \
            not re.search(r"namespace in |\.namespace == ''", text)
        why = 'last step of the listing is `%s`' % text[:120]
    ctx.check('registry_get/listing-namespace-wins', ok,
              'listing branch: an entry of the requested namespace always replaces the global '
              'entry for the same type', why, mod.loc(listing[0]))


# ---------------------------------------------------------------------------------------------
@rule('D1', floor=7, title='dict_insertion_ordered saves the namespace\'s own flag and restores exactly it in a finally')
def d1(ctx):
    pkg = ctx.py()
    mod = pkg.mod('optree.registry')
    fn = mod.func('dict_insertion_ordered')
    cfg = pycfg(fn)
    reads = [c for c in calls_under(fn) if call_name(c) == '_C.is_dict_insertion_ordered']
    # sites where the mode is written: direct calls, and calls of a local helper that writes it
    # (a helper is looked through one level: `restore()` stands for the set call inside it)
    direct = [c for c in calls_under(fn) if call_name(c) == '_C.set_dict_insertion_ordered']
    inner_of = {id(c): (c, None) for c in direct}
    sets = list(direct)
    for q_, h_ in mod.funcs.items():
        if q_.startswith('dict_insertion_ordered.') and q_.count('.') == 1:
            inner = [c for c in calls_under(h_) if call_name(c) == '_C.set_dict_insertion_ordered']
            if len(inner) == 1:
                for c in calls_under(fn):
                    if call_name(c) == h_.name:
                        sets.append(c)
                        inner_of[id(c)] = (inner[0], h_)
    yields = [n for n in walk(fn) if isinstance(n, (ast.Yield, ast.YieldFrom))]
    ctx.require(len(reads) >= 1 and len(sets) >= 2,
                'dict_insertion_ordered: %d reads / %d sets of the mode' % (len(reads), len(sets)))
    ctx.check('dict_insertion_ordered/single-yield', len(yields) == 1,
              'exactly one yield', '%d yields' % len(yields), mod.loc(fn))
    # the read whose result is stored is the saved previous flag
    stored = [r for r in reads if any(isinstance(s_, ast.Assign) and s_.value is r for s_ in walk(fn))]
    ctx.require(len(stored) == 1, 'dict_insertion_ordered: %d stored reads of the mode' % len(stored))
    rd = stored[0]
    from ..bridge import engine_call_args
    rda = engine_call_args(ctx.cxx(), rd) or {}
    own = (is_name(rda.get('namespace'), 'namespace') and
           isinstance(rda.get('inherit_global_namespace'), ast.Constant) and
           rda['inherit_global_namespace'].value is False)
    ctx.check('dict_insertion_ordered/reads-own-flag', own,
              'the previous flag is read for the same namespace with inherit_global_namespace=False',
              'the previous flag is read as `%s`: with inheritance (or for another namespace) the '
              'restore writes the global mode into the namespace' % src(rd), mod.loc(rd))
    # which variable holds it
    prev = None
    for s in walk(fn):
        if isinstance(s, ast.Assign) and s.value is rd and isinstance(s.targets[0], ast.Name):
            prev = s.targets[0].id
    ctx.require(prev is not None, 'dict_insertion_ordered: result of the read is not stored')
    sets_sorted = sorted(sets, key=lambda c: c.lineno)
    enter = sets_sorted[0]
    restores = sets_sorted[1:]
    restore = restores[0]
    restore_inner, restore_helper = inner_of[id(restore)]
    enter_inner = inner_of[id(enter)][0]
    w_read = _enclosing_with(fn, rd)
    w_set = _enclosing_with(fn, enter)
    ctx.check('dict_insertion_ordered/read-and-set-atomic',
              w_read is not None and w_read is w_set and _with_lock(w_read) and
              cfg.dominates(cfg.node_of(rd), cfg.node_of(enter)) and cfg.node_of(rd) != cfg.node_of(enter),
              'read-previous and set-new happen in this order inside one `with %s` block' % LOCK,
              'read-previous and set-new are not in one locked block in that order', mod.loc(enter))
    def _ordered(c_):
        d_ = engine_call_args(ctx.cxx(), c_) or {}
        return [src(d_[k_]) for k_ in ('mode', 'namespace') if k_ in d_]
    ea = _ordered(enter_inner)
    # the requested mode: the function's positional parameter, possibly through bool(...) or a
    # local that holds bool(<mode>)
    mp = (fn.args.posonlyargs + fn.args.args)[0].arg if (fn.args.posonlyargs + fn.args.args) else 'mode'
    okmode = ea[:1] and ea[0] in ('bool(%s)' % mp, mp)
    if ea[:1] and not okmode and re.fullmatch(r'\w+', ea[0] or ''):
        ds = [s_ for s_ in walk(fn) if isinstance(s_, ast.Assign) and is_name(s_.targets[0], ea[0])]
        okmode = len(ds) == 1 and src(ds[0].value) in ('bool(%s)' % mp, mp)
    ctx.check('dict_insertion_ordered/sets-requested', len(ea) == 2 and ea[1] == 'namespace' and
              bool(okmode),
              'the new mode is set for the same namespace', 'enter sets %s' % ea, mod.loc(enter))
    ra = _ordered(restore_inner)
    ctx.check('dict_insertion_ordered/restores-saved', ra == [prev, 'namespace'],
              'the restore writes exactly the saved flag for the same namespace',
              'the restore writes %s (saved value is `%s`, namespace variable is `namespace`)'
              % (ra, prev), mod.loc(restore))
    # the exception of the with-body is never swallowed and the restore holds the lock
    trys = [s_ for s_ in walk(fn) if isinstance(s_, ast.Try)]
    ty = [t for t in trys if any(isinstance(x, (ast.Yield, ast.YieldFrom)) for b_ in t.body for x in ast.walk(b_))]
    swallowing = [h for t in ty for h in t.handlers if not any(isinstance(x, ast.Raise) for x in ast.walk(h))]
    wr = _enclosing_with(restore_helper if restore_helper is not None else fn, restore_inner)
    ok = bool(ty) and not swallowing and _with_lock(wr)
    why = ('the yield is not inside a try statement' if not ty else
           'an except clause swallows the exception of the with-body' if swallowing else
           'the restore is not under the lock')
    ctx.check('dict_insertion_ordered/finally', ok,
              'the yield is guarded by a try statement that swallows nothing, and the restore runs '
              'under the lock',
              why, mod.loc(fn))
    # every path from the set to any exit passes the restore; nothing between set and try
    en = cfg.node_of(enter)
    # the exceptional copy of the finally block has its own CFG node for the same AST: collect all
    rn = {n.idx for n in cfg.nodes if n.ast is not None and
          any(x is r_ for r_ in restores for x in ast.walk(n.ast))}
    # "nothing to do" edges: the outcome of a comparison of the saved flag with the requested mode
    # on which the two are equal.  Where the switch was skipped for that reason there is nothing
    # to restore, and after a switch that did happen the outcome is impossible - such edges are
    # not paths of the obligation.
    mode_exprs = {mp, 'bool(%s)' % mp}
    for s_ in walk(fn):
        if isinstance(s_, ast.Assign) and len(s_.targets) == 1 and isinstance(s_.targets[0], ast.Name) and \
                src(s_.value) in ('bool(%s)' % mp, mp):
            mode_exprs.add(s_.targets[0].id)

    def equal_edge(node, lab):
        a = node.ast
        if node.kind == 'cond' and lab == 'exc':
            # in the exceptional copy of a finally block the edge that leaves the block carries
            # the pending exception: it is the complement of the one labelled outcome
            labs = [l_ for (_, l_) in cfg.succ[node.idx]]
            if len(labs) == 2 and sorted(map(str, labs)) in (['True', 'exc'], ['False', 'exc']):
                lab = not [l_ for l_ in labs if l_ != 'exc'][0]
        if node.kind != 'cond' or lab not in (True, False) or not isinstance(a, ast.Compare) or len(a.ops) != 1:
            return False
        l, r = src(a.left), src(a.comparators[0])
        if not ((l == prev and r in mode_exprs) or (r == prev and l in mode_exprs)):
            return False
        eq = isinstance(a.ops[0], (ast.Eq, ast.Is))
        if not eq and not isinstance(a.ops[0], (ast.NotEq, ast.IsNot)):
            return False
        return lab is eq

    def reaches(start_succ_of, avoid, goal):
        seen = set()
        work = [w for (w, lab) in cfg.succ[start_succ_of] if not equal_edge(cfg.nodes[start_succ_of], lab)]
        while work:
            x = work.pop()
            if x in seen or x in avoid:
                continue
            seen.add(x)
            if x == goal:
                return True
            for (w, lab) in cfg.succ[x]:
                if not equal_edge(cfg.nodes[x], lab):
                    work.append(w)
        return False
    leak_normal = reaches(en, rn, cfg.exit.idx)
    leak_exc = reaches(en, rn, cfg.raise_exit.idx)
    # ... and the switch itself is skipped for no other reason
    yn = cfg.node_of(yields[0]) if yields else None
    skipped = yn is not None and reaches(cfg.node_of(rd), {en}, yn)
    ctx.check('dict_insertion_ordered/switch-on-every-path', not skipped,
              'every path from the read of the previous flag to the yield switches the mode (or finds it already as requested)',
              'the body of the block can be reached without the requested mode having been set', mod.loc(enter))
    ctx.check('dict_insertion_ordered/restore-on-every-path', not leak_normal and not leak_exc,
              'every path from the mode switch to any exit (return or exception) passes the restore',
              'the function can be left %s without restoring the mode'
              % ' and '.join((['normally'] if leak_normal else []) + (['by exception'] if leak_exc else [])),
              mod.loc(enter))
    idx = {id(s): i for i, s in enumerate(fn.body)}
    wi = [i for i, s in enumerate(fn.body) if s is w_set]
    ti = [i for i, s in enumerate(fn.body) if isinstance(s, ast.Try)]
    between = fn.body[wi[0] + 1:ti[0]] if (wi and ti and ti[0] > wi[0]) else None
    harmless = between is not None and all(isinstance(x, (ast.FunctionDef, ast.Pass)) for x in between)
    ctx.check('dict_insertion_ordered/nothing-between', bool(wi and ti and harmless),
              'the try statement directly follows the locked block that switches the mode',
              'statements between the mode switch and the try can raise and skip the restore',
              mod.loc(fn))


# ---------------------------------------------------------------------------------------------
def _kind_guard(func, call):
    """the call is reached only when the kind is known not to be OrderedDict"""
    from .traversal import kind_facts
    kf = kind_facts(func, call)
    if ('OrderedDict', False) in kf:
        return True
    if any(eq and en in ('Dict', 'DefaultDict') for en, eq in kf):
        return True
    return False


@rule('D2', floor=6, title='every traversal sorts dict keys exactly when the kind is not OrderedDict and the caller\'s namespace is in sorted mode')
def d2(ctx):
    prog = ctx.cxx()
    sites = 0
    for name in ('PyTreeSpec::FlattenIntoImpl', 'PyTreeSpec::FlattenIntoWithPathImpl',
                 'PyTreeIter::NextImpl', 'PyTreeSpec::MakeFromCollectionImpl'):
        fs = [f for f in prog.by_suffix(name) if not f.dependent]
        ctx.require(fs, 'no instantiation of %s' % name)
        for f in fs:
            sorts = [c for c in calls_in(f.body, {'TotalOrderSort', 'SortedDictKeys'})]
            tparam = f.targ('DictShouldBeSorted')
            site = short(f) + '/key-sort'
            # per kind, from the arm descriptors (helpers and local lambdas are looked through,
            # conditions on the kind are resolved): which dict kinds get their keys sorted
            d_ = arm_descriptors(prog, f)
            sorted_kinds = {k for k in ('Dict', 'OrderedDict', 'DefaultDict')
                            if k in d_ and any(e[0] == 'sort' for e in d_[k].events)}
            if tparam is not None:
                want = tparam in ('-1', '1', 'true')
                wk = {'Dict', 'DefaultDict'} if want else set()
                ctx.check(site + '/template', sorted_kinds == wk,
                          '%s: keys are sorted iff DictShouldBeSorted (%s)' % (inst(f), want),
                          '%s: DictShouldBeSorted=%s but the kinds whose keys are sorted are %s'
                          % (inst(f), want, sorted(sorted_kinds)), f.loc)
                sites += 1
            else:
                ctx.check(site + '/kinds', sorted_kinds == {'Dict', 'DefaultDict'},
                          '%s: dict and defaultdict keys can be sorted, OrderedDict keys never are' % inst(f),
                          '%s: the kinds whose keys can be sorted are %s' % (inst(f), sorted(sorted_kinds)),
                          f.loc)
                sites += 1
            if not sorts:
                if tparam is None and not sorted_kinds:
                    ctx.bad(site, '%s never sorts dict keys' % inst(f), f.loc)
                elif tparam is None:
                    # the sort lives in a helper: the mode guard is read off the arm's guards
                    gs = [g for k in sorted_kinds for e in d_[k].events if e[0] == 'sort' for g in e[2]]
                    okm = bool(gs) and all(re.search(r'!\(?\w*[Ii]nsertion_?[Oo]rdered', g) for g in gs)
                    ctx.check(site + '/mode', okm,
                              '%s: the sort is guarded by "insertion-ordered mode is off"' % inst(f),
                              '%s: the sort is not guarded by the dict-order mode (guards: %s)'
                              % (inst(f), gs), f.loc)
                    sites += 1
                continue
            parent = enclosing_map(f.body)
            inits = local_inits(f)
            for c in sorts:
                sites += 1
                kg = _kind_guard(f, c)
                ctx.check(site + '/not-ordereddict', kg,
                          '%s: the sort is guarded by kind != OrderedDict' % inst(f),
                          '%s: dict keys are sorted without excluding OrderedDict' % inst(f), c.loc)
                if tparam is None:
                    facts = _path_facts(f, c, parent, inits)
                    ok = facts.get('DIO') is False
                    ctx.check(site + '/mode', ok,
                              '%s: the sort is guarded by "insertion-ordered mode (with global '
                              'inheritance) is off"' % inst(f),
                              '%s: the sort is not guarded by the dict-order mode of the caller\'s '
                              'namespace with global inheritance (facts on the path: %s)'
                              % (inst(f), facts), c.loc)
    # the mode is a property of a traversal, fixed before its first node: the functions that run
    # once per node (recursive *Impl, the iterator's step) never read the live mode - a block
    # entered or left while a lazy traversal is in flight must not change its second half
    for name in ('PyTreeSpec::FlattenIntoImpl', 'PyTreeSpec::FlattenIntoWithPathImpl', 'PyTreeIter::NextImpl'):
        for f in [x for x in prog.by_suffix(name) if not x.dependent]:
            fam = [f] + prog.lambdas_of(f)
            live = [c for g in fam if g.body is not None for c in calls_in(g.body, {'IsDictInsertionOrdered'})]
            ctx.check(short(f) + '/mode-read-once', not live,
                      '%s: the per-node step uses the mode fixed at the start of the traversal' % inst(f),
                      '%s reads the live dict-order mode for every node (IsDictInsertionOrdered at %s): '
                      'a mode block entered or left between two steps of one traversal mixes both '
                      'orders in one result' % (inst(f), live[0].loc if live else ''),
                      live[0].loc if live else f.loc)
            sites += 1
    # the iterator captures the mode of its own namespace with inheritance at construction
    ctor = [f for f in live_funcs(prog) if f.record == 'optree::PyTreeIter' and f.name == 'PyTreeIter']
    ctx.require(ctor, 'PyTreeIter constructor not found')
    init = [i for i in ctor[0].inits if i.name == 'm_is_dict_insertion_ordered']
    ok = False
    if init:
        cs = calls_in(init[0], {'IsDictInsertionOrdered'})
        if cs:
            a = [x for x in cs[0].call_args() if x is not None and x.kind != 'CXXDefaultArgExpr']
            ok = len(a) == 1 and member_path(a[0]) == 'registry_namespace'
    ctx.check('PyTreeIter/mode-captured', ok,
              'PyTreeIter captures IsDictInsertionOrdered(registry_namespace) (inheriting the global mode)',
              'PyTreeIter does not capture the mode of its own namespace with inheritance',
              ctor[0].loc)
    # FlattenInto*: both flags under one lock acquisition, namespace recorded when own flag set
    for name in ('PyTreeSpec::FlattenInto', 'PyTreeSpec::FlattenIntoWithPath'):
        f = prog.one(name)
        cs = calls_in(f.body, {'IsDictInsertionOrdered'})
        flags = set()
        for c in cs:
            a = [x for x in c.call_args() if x is not None and x.kind != 'CXXDefaultArgExpr']
            flags.add('own' if (len(a) >= 2 and const_eval(a[1]) is False) else 'inherit')
        ctx.check(short(f) + '/reads-both-flags', flags == {'own', 'inherit'} and len(cs) == 2,
                  '%s reads the inherited mode (for sorting) and the namespace\'s own mode (for '
                  'recording the namespace)' % inst(f),
                  '%s reads flags %s' % (inst(f), sorted(flags)), f.loc)
        # both reads are about the namespace the caller passed, nothing else
        ns_params = {p_[0] for p_ in f.params if p_[0] and 'string' in (p_[1] or '')}
        ctx.require(len(ns_params) == 1, '%s: %d string parameters, expected the namespace alone'
                    % (inst(f), len(ns_params)))
        foreign = [c for c in cs if not c.call_args() or c.call_args()[0] is None or
                   member_path(strip_casts(c.call_args()[0])) not in ns_params]
        ctx.check(short(f) + '/reads-the-callers-namespace', not foreign,
                  '%s: every mode read is for the namespace parameter' % inst(f),
                  '%s reads the dict-order mode of something other than its namespace parameter at %s: '
                  'the mode used / the namespace recorded in the treespec is not the caller\'s'
                  % (inst(f), foreign[0].loc if foreign else ''), foreign[0].loc if foreign else f.loc)
        rets = [r for r in f.body.walk() if r.kind == 'ReturnStmt']
        ok = False
        if len(rets) == 1 and rets[0].kids and rets[0].kids[0].kind == 'BinaryOperator' and \
                rets[0].kids[0].op == '||':
            l, r = rets[0].kids[0].kids
            names = {member_path(l), member_path(r)}
            inits = local_inits(f)
            # one is found_custom (assigned from the Impl calls), the other the own-namespace flag
            own_var = None
            for n in f.body.walk():
                if n.kind == 'BinaryOperator' and n.op == '=' and n.kids[1] is not None:
                    for c in calls_in(n.kids[1], {'IsDictInsertionOrdered'}):
                        a = [x for x in c.call_args() if x is not None and x.kind != 'CXXDefaultArgExpr']
                        if len(a) >= 2 and const_eval(a[1]) is False and strip_casts(n.kids[1]) is c:
                            own_var = member_path(n.kids[0])
            ok = own_var in names and len(names) == 2
        ctx.check(short(f) + '/returns-custom-or-own-mode', ok,
                  '%s returns found_custom || (own-namespace insertion-ordered mode)' % inst(f),
                  '%s does not return found_custom || own-namespace-mode' % inst(f), f.loc)
    ctx.analysed['dict_sort_sites'] = sites


@rule('D3', floor=3, title='the mode switch touches exactly the given namespace; the query is own || (inherit && global)')
def d3(ctx):
    prog = ctx.cxx()
    f = prog.one('PyTreeSpec::SetDictInsertionOrdered')
    ins = calls_in(f.body, {'insert', 'emplace'})
    ers = calls_in(f.body, {'erase'})
    # parameters by position: (mode, namespace) for the setter, (namespace, inherit) for the query
    fps = [p_[0] for p_ in f.params]
    ctx.require(len(fps) == 2, 'SetDictInsertionOrdered: %d parameters' % len(fps))
    ok = len(ins) == 1 and len(ers) == 1 and \
        member_path(ins[0].call_args()[0]) == fps[1] and \
        member_path(ers[0].call_args()[0]) == fps[1]
    if ok:
        parent = enclosing_map(f.body)
        i_if = [a for a in ancestors(ins[0], parent) if a.kind == 'IfStmt']
        # `mode ? insert : erase`, whichever arm is written first
        ok = bool(i_if) and member_path(if_outcome(i_if[0], ins[0])[0]) == fps[0] and \
            if_outcome(i_if[0], ins[0])[1] is True and if_outcome(i_if[0], ers[0])[1] is False
    ctx.check('SetDictInsertionOrdered/shape', ok,
              'SetDictInsertionOrdered inserts the namespace when mode is true and erases it otherwise',
              'SetDictInsertionOrdered is not `mode ? insert(ns) : erase(ns)`', f.loc)
    g = prog.one('PyTreeSpec::IsDictInsertionOrdered')
    rets = [r for r in g.body.walk() if r.kind == 'ReturnStmt']
    ok = False
    why = ''
    if len(rets) == 1:
        e = rets[0].kids[0]
        if e.kind == 'BinaryOperator' and e.op == '||':
            l, r = e.kids

            def is_find(x, what):
                t = x.text(8)
                return 'find' in t and what in t and ('!' in t or '!=' in t)
            if r.kind == 'BinaryOperator' and r.op == '&&':
                a, b = r.kids
                gps = [p_[0] for p_ in g.params]
                ok = len(gps) == 2 and is_find(l, gps[0]) and member_path(a) == gps[1] \
                    and is_find(b, '""') and gps[0] not in b.text(8)
            why = e.text(6)
    ctx.check('IsDictInsertionOrdered/shape', ok,
              'IsDictInsertionOrdered(ns, inherit) == contains(ns) || (inherit && contains(""))',
              'IsDictInsertionOrdered is not own || (inherit && global): %s' % why, g.loc)
    regs = __import__('sa.rules.locks', fromlist=['regions']).regions
    for fn_, mode in ((f, 'exclusive'), (g, 'shared')):
        rr = [r for r in regs(fn_) if r[0] == 'sm_is_dict_insertion_ordered_mutex']
        ctx.check(short(fn_) + '/locked', bool(rr) and (rr[0][1] == mode or rr[0][1] == 'exclusive'),
                  '%s holds the mode mutex (%s)' % (short(fn_), mode),
                  '%s touches the mode set without its mutex' % short(fn_), fn_.loc)


# ---------------------------------------------------------------------------------------------
KIND_PY = {'Tuple': 'TUPLE', 'List': 'LIST', 'Dict': 'DICT', 'NamedTuple': 'NAMEDTUPLE',
           'OrderedDict': 'ORDEREDDICT', 'DefaultDict': 'DEFAULTDICT', 'Deque': 'DEQUE',
           'StructSequence': 'STRUCTSEQUENCE', 'None': 'NONE', 'Leaf': 'LEAF', 'Custom': 'CUSTOM'}


@rule('T5', floor=9, title='engine, Python registry and accessor module agree on the path entry class of every kind')
def t5(ctx):
    prog = ctx.cxx()
    pkg = ctx.py()
    from ..cfg import switch_arms
    f = prog.one('PyTreeSpec::GetPathEntryType')
    sws = kind_switches(f)
    ctx.require(len(sws) == 1, 'GetPathEntryType: %d kind switches' % len(sws))
    arms, _ = switch_arms(sws[0])
    engine = {}
    for kind, stmts in arms.items():
        names = set()
        for s in stmts:
            for l in s.find('LambdaExpr'):
                lf = prog.lambda_func(f, l)
                if lf is None:
                    continue
                for c in calls_in(lf.body, {'getattr'}):
                    for a in c.call_args()[1:]:
                        if a is not None and a.kind == 'StringLiteral':
                            names.add(str(a.value).strip('"'))
            for c in calls_in(s, {'getattr'}):
                for a in c.call_args()[1:]:
                    if a is not None and a.kind == 'StringLiteral':
                        names.add(str(a.value).strip('"'))
        engine[kind] = names
    # python registry literal
    reg = pkg.mod('optree.registry')
    lit = reg.top_assign(MIRROR)
    ctx.require(isinstance(lit, ast.Dict), '%s is not a dict literal' % MIRROR)
    py = {}
    for k, v in zip(lit.keys, lit.values):
        if isinstance(v, ast.Call):
            kw = {x.arg: x.value for x in v.keywords}
            kind = dotted(kw.get('kind')) or 'PyTreeKind.CUSTOM'
            pet = dotted(kw.get('path_entry_type')) or 'AutoEntry'
            py[kind.split('.')[-1]] = (pet, src(k))
    # accessor.py exports
    acc = pkg.mod('optree.accessor')
    exported = {}
    for n in acc.tree.body:
        if isinstance(n, ast.Expr) and isinstance(n.value, ast.Call) and call_name(n.value) == 'setattr' \
                and len(n.value.args) == 3 and isinstance(n.value.args[1], ast.Constant):
            exported[n.value.args[1].value] = src(n.value.args[2])
    for kind, pykind in KIND_PY.items():
        if kind in ('None', 'Leaf', 'Custom'):
            continue
        e = engine.get(kind, set())
        p = py.get(pykind)
        site = 'path-entry-type/' + kind
        ok = len(e) == 1 and p is not None and p[0] in e and exported.get(p[0]) == p[0]
        ctx.check(site, ok,
                  '%s: engine fetches _C.%s, the Python registry lists %s for %s, accessor.py '
                  'exports it under that name' % (kind, sorted(e), p[0] if p else None, p[1] if p else None),
                  '%s: engine uses %s, Python registry lists %s, accessor.py exports %s'
                  % (kind, sorted(e), p, exported.get(p[0]) if p else None), f.loc)
    need = {n for s in engine.values() for n in s} | {'PyTreeAccessor'}
    for n in sorted(need):
        ctx.check('accessor-export/' + n, exported.get(n) == n,
                  'accessor.py installs %s on the extension module under its own name' % n,
                  'the engine fetches _C.%s but accessor.py installs %s there' % (n, exported.get(n)),
                  acc.relpath + ':1')


# ---------------------------------------------------------------------------------------------
# How a positional entry is turned into an attribute name by the typed entry classes.  The
# position is the position of the child, so the name list must be the list the children follow:
N3_TABLE = {
    'NamedTupleEntry': ('NAMEDTUPLE_FIELDS', 'children of a namedtuple are its tuple items: one per _fields name'),
    'StructSequenceEntry': ('STRUCTSEQ_FIELDS', 'children of a struct sequence are its visible items'),
    'DataclassEntry': ('DATACLASS_INIT_FIELDS',
                       'a dataclass registered without explicit entries is rebuilt positionally, and the '
                       'positional parameters of the generated __init__ are the init=True fields, in order: '
                       'a field with init=False takes no position'),
}


def _name_source(mod, cls, expr, depth=0):
    """classify the list an entry index is applied to"""
    if depth > 3 or expr is None:
        return 'UNKNOWN'
    if isinstance(expr, ast.Attribute) and isinstance(expr.value, ast.Name) and expr.value.id == 'self':
        fn = mod.funcs.get('%s.%s' % (cls, expr.attr))
        if fn is not None:
            rets = [s_ for s_ in walk(fn) if isinstance(s_, ast.Return)]
            if len(rets) == 1:
                return _name_source(mod, cls, rets[0].value, depth + 1)
        return 'UNKNOWN'
    t = src(expr)
    if isinstance(expr, ast.Call) and call_name(expr) == 'namedtuple_fields':
        return 'NAMEDTUPLE_FIELDS'
    if isinstance(expr, ast.Call) and call_name(expr) == 'structseq_fields':
        return 'STRUCTSEQ_FIELDS'
    if 'dataclasses.fields(' in t:
        gens = [g for n_ in ast.walk(expr) if isinstance(n_, (ast.GeneratorExp, ast.ListComp)) for g in n_.generators]
        if any(isinstance(i_, ast.Attribute) and i_.attr == 'init' for g in gens for i_ in g.ifs):
            return 'DATACLASS_INIT_FIELDS'
        return 'DATACLASS_ALL_FIELDS'
    return 'UNKNOWN'


@rule('N3', floor=3, title='a positional entry of a typed entry class is resolved in the name list the children follow')
def n3(ctx):
    pkg = ctx.py()
    mod = pkg.mod('optree.accessor')
    for cls, (want, why) in N3_TABLE.items():
        fn = mod.funcs.get(cls + '.field')
        ctx.require(fn is not None, 'accessor.%s.field not found' % cls)
        subs = [n_ for n_ in walk(fn) if isinstance(n_, ast.Subscript) and src(n_.slice) == 'self.entry']
        ctx.require(len(subs) == 1, '%s.field: %d subscripts by self.entry' % (cls, len(subs)))
        got = _name_source(mod, cls, subs[0].value)
        if got == 'UNKNOWN':
            ctx.require(False, '%s.field: the indexed name list `%s` is not recognised' % (cls, src(subs[0].value)))
        ctx.check('accessor.%s/positional-name' % cls, got == want,
                  '%s.field resolves an integer entry in %s (%s)' % (cls, want, why),
                  '%s.field resolves an integer entry in %s, but %s: the accessor addresses another '
                  'attribute than the child it stands for' % (cls, got, why), mod.loc(fn))


# ---------------------------------------------------------------------------------------------
def _mro(mod, cls, seen=None):
    """linearised bases of a class defined in the module (left to right, depth first: enough for
    the single-inheritance chains of accessor.py)"""
    seen = seen if seen is not None else []
    if cls in seen or cls not in mod.classes:
        return seen
    seen.append(cls)
    for b in mod.classes[cls].bases:
        bn = b.value.id if isinstance(b, ast.Subscript) and isinstance(b.value, ast.Name) else \
            (b.id if isinstance(b, ast.Name) else None)
        if bn:
            _mro(mod, bn, seen)
    return seen


def _resolve_method(mod, cls, name):
    for c in _mro(mod, cls):
        fn = mod.funcs.get('%s.%s' % (c, name))
        if fn is not None:
            return c, fn
    return None, None


def _canon_attr(mod, cls, attr, depth=0):
    """follow property aliases `return self.<other>` to the attribute that carries the value"""
    if depth > 4:
        return attr
    c, fn = _resolve_method(mod, cls, attr)
    if fn is None:
        return attr
    rets = [s_ for s_ in walk(fn) if isinstance(s_, ast.Return)]
    if len(rets) == 1:
        m = pmatch(rets[0].value, 'self.?a') if False else None
        v = rets[0].value
        if isinstance(v, ast.Attribute) and is_name(v.value, 'self'):
            return _canon_attr(mod, cls, v.attr, depth + 1)
    return attr


def _call_form(mod, cls, fn):
    """('item'|'attr', canonical attribute) of `__call__`"""
    obj = [a.arg for a in fn.args.posonlyargs + fn.args.args][1:2]
    for s_ in walk(fn):
        if isinstance(s_, ast.Return) and obj:
            v = s_.value
            if isinstance(v, ast.Subscript) and is_name(v.value, obj[0]) and \
                    isinstance(v.slice, ast.Attribute) and is_name(v.slice.value, 'self'):
                return ('item', _canon_attr(mod, cls, v.slice.attr))
            if isinstance(v, ast.Call) and call_name(v) == 'getattr' and len(v.args) == 2 and \
                    is_name(v.args[0], obj[0]) and isinstance(v.args[1], ast.Attribute) and \
                    is_name(v.args[1].value, 'self'):
                return ('attr', _canon_attr(mod, cls, v.args[1].attr))
    return None


def _codify_form(mod, cls, fn):
    node = [a.arg for a in fn.args.posonlyargs + fn.args.args][1:2]
    for s_ in walk(fn):
        if isinstance(s_, ast.Return) and isinstance(s_.value, ast.JoinedStr) and node:
            parts = s_.value.values
            if len(parts) >= 3 and isinstance(parts[0], ast.FormattedValue) and is_name(parts[0].value, node[0]):
                lit = ''.join(p_.value for p_ in parts if isinstance(p_, ast.Constant) and isinstance(p_.value, str))
                fvs = [p_ for p_ in parts[1:] if isinstance(p_, ast.FormattedValue)]
                if len(fvs) == 1 and isinstance(fvs[0].value, ast.Attribute) and is_name(fvs[0].value.value, 'self'):
                    attr = _canon_attr(mod, cls, fvs[0].value.attr)
                    if lit == '[]' and fvs[0].conversion == ord('r'):
                        return ('item', attr)
                    if lit == '.' and fvs[0].conversion == -1:
                        return ('attr', attr)
                    return ('other:%s' % lit, attr)
    return None


@rule('N4', floor=5, title='codify() of an entry class is the source text of what __call__ does')
def n4(ctx):
    """`accessor(tree)` and `eval(accessor.codify('tree'))` must address the same object.  Per
    entry class (methods resolved through the bases): __call__ is `obj[self.x]` and codify
    `{node}[{self.x!r}]`, or __call__ is `getattr(obj, self.x)` and codify `{node}.{self.x}`, with
    the same attribute after following property aliases; the namedtuple / struct sequence classes
    index by position and print the field name of that position (N3 ties the two together)."""
    pkg = ctx.py()
    mod = pkg.mod('optree.accessor')
    n = 0
    for cls in sorted(mod.classes):
        if cls not in ('GetItemEntry', 'GetAttrEntry', 'SequenceEntry', 'MappingEntry', 'NamedTupleEntry',
                       'StructSequenceEntry', 'DataclassEntry'):
            continue
        c1, call = _resolve_method(mod, cls, '__call__')
        c2, cod = _resolve_method(mod, cls, 'codify')
        ctx.require(call is not None and cod is not None, 'accessor.%s: __call__ / codify not found' % cls)
        cf, df = _call_form(mod, cls, call), _codify_form(mod, cls, cod)
        ctx.require(cf is not None and df is not None,
                    'accessor.%s: shape of __call__ (%s) / codify (%s) not recognised' % (cls, cf, df))
        n += 1
        positional_name = cls in N3_TABLE and cf == ('item', 'entry') and df == ('attr', 'field')
        ctx.check('accessor.%s/call~codify' % cls, cf == df or positional_name,
                  '%s: __call__ is %s, codify prints %s%s' % (cls, cf, df, ' (field of that position, N3)'
                                                              if positional_name else ''),
                  '%s: __call__ addresses %s but codify() prints %s: the generated code string does '
                  'not evaluate to what the accessor returns' % (cls, cf, df), mod.loc(cod))
    # the accessor folds its entries in the same (forward) order for both
    for meth, pat in (('__call__', '?o = ?e(?o)'), ('codify', '?s = ?e.codify(?s)')):
        fn = mod.funcs.get('PyTreeAccessor.' + meth)
        ctx.require(fn is not None, 'PyTreeAccessor.%s not found' % meth)
        loops = [l for l in walk(fn) if isinstance(l, ast.For) and is_name(l.iter, 'self')]
        ok = len(loops) == 1 and isinstance(loops[0].target, ast.Name) and len(loops[0].body) == 1 and \
            pmatch(loops[0].body[0], pat, {'e': loops[0].target.id}) is not None
        n += 1
        ctx.check('accessor.PyTreeAccessor/%s-folds-forward' % meth, ok,
                  'PyTreeAccessor.%s applies the entries from the root downwards' % meth,
                  'PyTreeAccessor.%s does not fold over `for entry in self` one entry at a time' % meth,
                  mod.loc(fn))
    ctx.require(n >= 5, 'only %d entry classes checked' % n)


@rule('G8', floor=2, title='decorator factories hand every option on to the call that does the work')
def g8(ctx):
    """`f(option=...)` without the positional subject returns `functools.partial(f, ...)`, to be
    applied to the subject later.  The partial must carry every keyword-only option of `f`, each
    bound to the caller's value for that option (for the namespace: the namespace given, in
    whichever parameter the function accepts it) - a dropped keyword silently falls back to the
    default when the decorator is applied."""
    pkg = ctx.py()
    n = 0
    for mname in ('optree.registry', 'optree.dataclasses', 'optree.functools'):
        mod = pkg.mod(mname)
        for q, fn in sorted(mod.funcs.items()):
            if '.' in q:
                continue
            kwonly = [a.arg for a in fn.args.kwonlyargs]
            first = [a.arg for a in fn.args.posonlyargs + fn.args.args][:1]
            for c in calls_under(fn):
                if call_name(c) != 'functools.partial' or not c.args or not is_name(c.args[0], fn.name):
                    continue
                n += 1
                kws = {k.arg: k.value for k in c.keywords if k.arg}
                missing = [k for k in kwonly if k not in kws]
                wrong = []
                for k, v in kws.items():
                    if k not in kwonly:
                        continue
                    ok = is_name(v, k) or (k == 'namespace' and first and is_name(v, first[0]))
                    if not ok:
                        wrong.append('%s=%s' % (k, src(v)))
                ctx.check('%s/factory@%d-forwards-options' % (q, n), not missing and not wrong,
                          '%s: the deferred call carries %s' % (q, ', '.join(kwonly)),
                          '%s: the deferred call `%s` %s: when the decorator is applied the option '
                          'falls back to its default' % (
                              q, src(c)[:80],
                              ('drops ' + ', '.join(missing)) if missing else ('binds ' + ', '.join(wrong))),
                          mod.loc(c))
    ctx.require(n >= 2, 'only %d decorator-factory partials found' % n)


# test recognised in the dispatch chain -> (entry class it must select, why that class suits the family)
N5_TABLE = [
    ('is_structseq_class', 'StructSequenceEntry', 'struct sequence: fields by index, named through n_sequence_fields'),
    ('is_namedtuple_class', 'NamedTupleEntry', 'namedtuple: fields by index, named through _fields'),
    ('dataclasses.is_dataclass', 'DataclassEntry', 'dataclass: children are attributes named by init fields'),
    ('issubclass:Mapping', 'MappingEntry', 'a mapping is read with obj[key]'),
    ('issubclass:Sequence', 'SequenceEntry', 'a sequence is read with obj[index]'),
]
# the specific families are tuples (hence Sequences): their tests must come first
N5_BEFORE = [('is_structseq_class', 'issubclass:Sequence'), ('is_namedtuple_class', 'issubclass:Sequence'),
             ('dataclasses.is_dataclass', 'issubclass:Mapping'), ('dataclasses.is_dataclass', 'issubclass:Sequence')]


@rule('N5', floor=6, title='AutoEntry selects, for a custom node type, the entry class whose access method suits the type')
def n5(ctx):
    pkg = ctx.py()
    mod = pkg.mod('optree.accessor')
    fn = mod.funcs.get('AutoEntry.__new__')
    ctx.require(fn is not None, 'AutoEntry.__new__ not found')
    a = fn.args
    pnames = [x.arg for x in a.posonlyargs + a.args]
    ctx.require(len(pnames) >= 4, 'AutoEntry.__new__: parameters not recognised')
    tparam = pnames[2]          # (cls, entry, type, kind)
    # the dispatch: every assignment of an entry class to one local, each with the outcomes of the
    # tests it sits under (however the if / elif / else chain is written)
    parent = {}
    for n in ast.walk(fn):
        for c in ast.iter_child_nodes(n):
            parent[id(c)] = n

    def test_id(t):
        if isinstance(t, ast.Call) and len(t.args) >= 1 and is_name(t.args[0], tparam):
            cn = call_name(t)
            if cn == 'issubclass' and len(t.args) == 2:
                return 'issubclass:' + src(t.args[1])
            return cn
        return src(t)
    ENTRY = {w for _, w, _ in N5_TABLE} | {'FlattenedEntry'}
    assigns = [n for n in walk(fn) if isinstance(n, ast.Assign) and len(n.targets) == 1 and
               isinstance(n.targets[0], ast.Name) and isinstance(n.value, ast.Name) and n.value.id in ENTRY]
    tnames = {a.targets[0].id for a in assigns}
    ctx.require(len(assigns) >= 5 and len(tnames) == 1,
                'AutoEntry.__new__: dispatch not recognised (%d assignments to %s)' % (len(assigns), sorted(tnames)))
    got = []          # (class, tests that hold, tests that do not hold)
    for a in assigns:
        pos, neg = set(), set()
        cur = a
        while id(cur) in parent:
            p_ = parent[id(cur)]
            if isinstance(p_, ast.If):
                in_body = any(cur is x for x in p_.body)
                in_else = any(cur is x for x in p_.orelse)
                if in_body or in_else:
                    t = p_.test
                    outcome = in_body
                    while isinstance(t, ast.UnaryOp) and isinstance(t.op, ast.Not):
                        t = t.operand
                        outcome = not outcome
                    (pos if outcome else neg).add(test_id(t))
            cur = p_
        got.append((a.value.id, pos, neg))
    for tid, want, why in N5_TABLE:
        sel = sorted({c for c, pos, neg in got if tid in pos})
        ctx.check('AutoEntry/%s' % tid, sel == [want],
                  'AutoEntry: %s(type) selects %s (%s)' % (tid, want, why),
                  'AutoEntry: %s(type) selects %s, not %s (%s): the accessor of such a node reads the '
                  'child the wrong way' % (tid, sel or 'nothing', want, why), mod.loc(fn))
    fb = sorted({c for c, pos, neg in got if not pos})
    ctx.check('AutoEntry/fallback', fb == ['FlattenedEntry'],
              'AutoEntry: any other type gets FlattenedEntry (no access method is claimed)',
              'AutoEntry: when no test holds the entry class is %s' % (fb or 'not set'), mod.loc(fn))
    viol = []
    for a_, b_ in N5_BEFORE:
        # the generic arm is taken only when the specific test has failed
        for c, pos, neg in got:
            if b_ in pos and a_ not in neg and a_ not in pos:
                viol.append((a_, b_))
    ctx.check('AutoEntry/specific-first', not viol,
              'AutoEntry tests the specific families (struct sequence, namedtuple, dataclass) before '
              'the abstract Mapping / Sequence tests they also satisfy',
              'AutoEntry takes the %s arm without having excluded %s: a %s is a %s too and would get the '
              'generic entry class' % ((viol[0][1], viol[0][0], viol[0][0], viol[0][1]) if viol else ('', '', '', '')),
              mod.loc(fn))


@rule('D4', floor=3, title='the Python-visible registry shows dict / defaultdict as the current mode of the asked namespace flattens them')
def d4(ctx):
    pkg = ctx.py()
    mod = pkg.mod('optree.registry')
    fn = mod.func('pytree_node_registry_get')
    pos = [a.arg for a in fn.args.posonlyargs + fn.args.args + fn.args.kwonlyargs]
    ctx.require(len(pos) >= 2, 'pytree_node_registry_get: parameters not recognised')
    clsp, nsp = pos[0], pos[1]
    cfg = pycfg(fn)
    tests = [c for c in calls_under(fn) if (call_name(c) or '').endswith('is_dict_insertion_ordered')]
    ctx.require(len(tests) >= 2, 'pytree_node_registry_get: %d mode tests, expected one per lookup form' % len(tests))
    # (a) the mode asked about is the mode of the namespace asked about (the engine adds the
    # inheritance from the global namespace itself)
    from ..bridge import engine_call_args

    def asks_own(c_):
        d_ = engine_call_args(ctx.cxx(), c_)
        return d_ is not None and set(d_) == {'namespace'} and is_name(d_['namespace'], nsp)
    foreign = [c for c in tests if not asks_own(c)]
    ctx.check('registry.get/mode-of-the-asked-namespace', not foreign,
              'every dict-order test in registry.get asks about the namespace parameter',
              'registry.get tests the dict-order mode with `%s`, not with the namespace it was asked about: '
              'the listing disagrees with what flattening in that namespace does'
              % (src(foreign[0]) if foreign else ''), mod.loc(foreign[0]) if foreign else mod.loc(fn))
    # (b) both lookup forms: every normal return that can hand out a dict / defaultdict entry is
    # preceded by the mode test; on the mode's True edge both types get their insertion-ordered entry
    rets = [r for r in walk(fn) if isinstance(r, ast.Return) and r.value is not None and
            not (isinstance(r.value, ast.Constant) and r.value.value is None)]
    tnodes = {cfg.ast_to_node.get(id(c)) for c in tests}
    tnodes.discard(None)
    unguarded = []

    def outcome_if(cond, assumed):
        """value of a test of the class parameter when the class is `assumed` (dict / defaultdict);
        None when the test is about something else"""
        if isinstance(cond, ast.Compare) and len(cond.ops) == 1:
            l, r, op = cond.left, cond.comparators[0], cond.ops[0]
            if is_name(r, clsp) and isinstance(op, (ast.Is, ast.IsNot, ast.Eq, ast.NotEq)):
                l, r = r, l
            if is_name(l, clsp):
                if isinstance(op, (ast.Is, ast.Eq, ast.IsNot, ast.NotEq)) and isinstance(r, ast.Name) and \
                        r.id in ('dict', 'defaultdict'):
                    same = (r.id == assumed)
                    return same if isinstance(op, (ast.Is, ast.Eq)) else not same
                if isinstance(op, (ast.In, ast.NotIn)) and isinstance(r, (ast.Tuple, ast.List, ast.Set)) and \
                        all(isinstance(e, ast.Name) for e in r.elts):
                    names = {e.id for e in r.elts}
                    if names <= {'dict', 'defaultdict', 'OrderedDict'}:
                        inn = assumed in names
                        return inn if isinstance(op, ast.In) else not inn
        return None

    def reachable_untested(rn, assumed):
        """is the return reachable, for a class that is `assumed`, without passing a mode test?"""
        seen = {cfg.entry.idx}
        work = [cfg.entry.idx]
        while work:
            x = work.pop()
            if x == rn:
                return True
            node = cfg.nodes[x]
            for to, lab in cfg.succ[x]:
                if to in seen or to in tnodes and to != rn:
                    continue
                if node.kind == 'cond' and lab in (True, False) and node.ast is not None:
                    v = outcome_if(node.ast, assumed)
                    if v is not None and v != lab:
                        continue
                seen.add(to)
                work.append(to)
        return False
    for r in rets:
        rn = cfg.ast_to_node.get(id(r))
        v = src(r.value)
        # returns that are themselves the overlay, or the namespace-specific hit (dict and
        # defaultdict cannot be registered in a namespace: G4 / the engine's built-in guard), are exempt
        if 'INSERTION_ORDERED' in v:
            continue
        if rn in tnodes:
            continue
        if any(reachable_untested(rn, t) for t in ('dict', 'defaultdict')):
            # exempt only if reached before any global lookup: the namespace-specific hit
            g = [c for c in calls_under(fn) if pmatch(c, '_NODETYPE_REGISTRY.get((?n, ?c))', {'n': nsp, 'c': clsp}) is not None]
            if g and cfg.dominates(cfg.ast_to_node.get(id(g[0])), rn) and \
                    not any(cfg.dominates(cfg.ast_to_node.get(id(c2)), rn) for c2 in calls_under(fn)
                            if pmatch(c2, '_NODETYPE_REGISTRY.get(?c)', {'c': clsp}) is not None):
                continue
            unguarded.append(r)
    ctx.check('registry.get/mode-test-before-every-answer', not unguarded,
              'registry.get consults the mode before every answer that could be the sorted dict / defaultdict entry',
              'registry.get can return `%s` without having consulted the dict-order mode'
              % (src(unguarded[0].value) if unguarded else ''), mod.loc(unguarded[0]) if unguarded else mod.loc(fn))
    # each overlay entry is handed out for its own class only
    def reachable_for(rn, assumed):
        seen = {cfg.entry.idx}
        work = [cfg.entry.idx]
        while work:
            x = work.pop()
            if x == rn:
                return True
            node = cfg.nodes[x]
            for to, lab in cfg.succ[x]:
                if to in seen:
                    continue
                if node.kind == 'cond' and lab in (True, False) and node.ast is not None:
                    v = outcome_if(node.ast, assumed)
                    if v is not None and v != lab:
                        continue
                seen.add(to)
                work.append(to)
        return False
    for r in rets:
        v = src(r.value)
        if 'INSERTION_ORDERED' not in v:
            continue
        own = 'defaultdict' if 'DEFAULTDICT' in v else 'dict'
        other = 'dict' if own == 'defaultdict' else 'defaultdict'
        rn = cfg.ast_to_node.get(id(r))
        ctx.check('registry.get/overlay-for-its-own-class/%s' % own,
                  reachable_for(rn, own) and not reachable_for(rn, other) and not reachable_for(rn, 'list'),
                  'the insertion-ordered %s entry is returned for %s and for no other class' % (own, own),
                  '`return %s` is reachable for a class other than %s (or not for %s): the registry shows '
                  'the wrong entry for that class' % (v, own, own), mod.loc(r))
    kinds = {}
    for n in walk(fn):
        if isinstance(n, ast.Assign) and isinstance(n.targets[0], ast.Subscript) and 'INSERTION_ORDERED' in src(n.value):
            kinds.setdefault('listing', set()).add(src(n.targets[0].slice))
        if isinstance(n, ast.Return) and n.value is not None and 'INSERTION_ORDERED' in src(n.value):
            kinds.setdefault('by-class', set()).add(src(n.value))
    ok = kinds.get('listing') == {'dict', 'defaultdict'} and len(kinds.get('by-class', ())) == 2
    ctx.check('registry.get/both-dict-types', ok,
              'both lookup forms substitute the insertion-ordered entry for dict and for defaultdict',
              'registry.get substitutes insertion-ordered entries for %s (listing) and %s (by class)'
              % (sorted(kinds.get('listing', ())), sorted(kinds.get('by-class', ()))), mod.loc(fn))


@rule('D5', floor=4, title='a treespec records its namespace exactly when a custom node was met (or its own dict-order mode is on)')
def d5(ctx):
    """The flatten steps return "a custom node was found below": false to begin with, set to true
    only in the Custom arm, and otherwise only OR-ed with the answers of the recursive calls.  A
    step that starts from true, or sets the flag for another kind, makes every treespec carry the
    namespace - `tree_flatten` and `tree_flatten_with_path` (or two trees of the same shape) then
    give treespecs with different `namespace` / repr although they compare equal."""
    prog = ctx.cxx()
    from .common import strip_casts
    from ..cfg import const_eval as ce
    for name in ('PyTreeSpec::FlattenIntoImpl', 'PyTreeSpec::FlattenIntoWithPathImpl'):
        for f in [x for x in prog.by_suffix(name) if not x.dependent]:
            rets = [r for r in f.body.walk() if r.kind == 'ReturnStmt' and r.kids]
            flags = {member_path(strip_casts(r.kids[0])) for r in rets}
            ctx.require(len(flags) == 1 and None not in flags, '%s: the returned flag is not one local' % inst(f))
            flag = flags.pop()
            decl = [v for v in f.body.find('VarDecl') if v.name == flag]
            problems = []
            if not (len(decl) == 1 and decl[0].kids and ce(decl[0].kids[-1]) is False):
                problems.append('the flag does not start as false')
            sws = kind_switches(f)
            parent = enclosing_map(f.body)
            fam = [f] + list(prog.lambdas_of(f))
            for g in fam:
                if g.body is None:
                    continue
                for n in g.body.walk():
                    tgt = val = None
                    if n.kind == 'BinaryOperator' and n.op == '=' and len(n.kids) == 2:
                        tgt, val, op = n.kids[0], n.kids[1], '='
                    elif n.kind == 'CompoundAssignOperator' and len(n.kids) == 2:
                        tgt, val, op = n.kids[0], n.kids[1], n.op
                    if tgt is None or member_path(strip_casts(tgt)) != flag:
                        continue
                    if op == '=' and ce(val) is True:
                        # only inside the Custom arm
                        arm_ok = False
                        for a in ancestors(n, parent) if g is f else ():
                            if a.kind == 'CaseStmt' and 'Custom' in a.text(3):
                                arm_ok = True
                        if not arm_ok and g is f:
                            # the arm may be reached through fall-through labels: use the arms table
                            from .common import kind_switches as _ks
                            from ..cfg import switch_arms
                            for sw in sws:
                                arms, _ = switch_arms(sw)
                                for k_, stmts in arms.items():
                                    if any(x is n for s_ in stmts for x in s_.walk()):
                                        arm_ok = (k_ == 'Custom') and all(
                                            kk == 'Custom' for kk, ss in arms.items() if ss is stmts)
                        if not arm_ok:
                            problems.append('the flag is set to true outside the Custom arm (%s)' % n.loc)
                    elif op == '|=':
                        t = callee_func(prog, g, strip_casts(val)) if strip_casts(val).kind in CALL_KINDS else None
                        if t is None or t.qualname != f.qualname:
                            problems.append('the flag is OR-ed with `%s`, not with the answer of the recursive call' % val.text(3))
                    else:
                        problems.append('the flag is written as `%s`' % n.text(3)[:60])
            ctx.check('%s/found-custom' % short(f), not problems,
                      '%s: "custom node found" starts false, is set in the Custom arm, and is OR-ed with '
                      'the recursive answers' % inst(f),
                      '%s: %s' % (inst(f), '; '.join(problems)), f.loc)


@rule('N6', floor=4, title='joining and slicing accessors composes access: own entries first, then the other\'s')
def n6(ctx):
    """An accessor is the tuple of its entries applied left to right.  `a + b` must therefore be the
    entries of a followed by those of b (or by the single entry b), and `a[i:j]` an accessor over
    that slice of the entries; anything else makes `(a + b)(tree) != b(a(tree))`."""
    pkg = ctx.py()
    mod = pkg.mod('optree.accessor')
    add = mod.funcs.get('PyTreeAccessor.__add__')
    gi = mod.funcs.get('PyTreeAccessor.__getitem__')
    ctx.require(add is not None and gi is not None, 'PyTreeAccessor.__add__ / __getitem__ not found')

    def params(fn):
        return [a.arg for a in fn.args.posonlyargs + fn.args.args]
    s_, o_ = params(add)[:2]
    rets = [r for r in walk(add) if isinstance(r, ast.Return) and r.value is not None]
    cfg = pycfg(add)
    shapes = {}
    for r in rets:
        # the class test this return sits under
        cls_ = None
        cur = r
        parent = {}
        for n in ast.walk(add):
            for c in ast.iter_child_nodes(n):
                parent[id(c)] = n
        while id(cur) in parent:
            p_ = parent[id(cur)]
            if isinstance(p_, ast.If) and any(cur is x for x in p_.body):
                m = pmatch(p_.test, 'isinstance(?o, ?c)', {'o': o_})
                if m is not None:
                    cls_ = m['c'] if isinstance(m['c'], str) else src(p_.test.args[1])
            cur = p_
        shapes[cls_] = r.value
    env = {'s': s_, 'o': o_}
    ok_entry = 'PyTreeEntry' in shapes and pmatch(shapes['PyTreeEntry'], '?s.__class__((*?s, ?o))', env) is not None
    ok_acc = 'PyTreeAccessor' in shapes and pmatch(shapes['PyTreeAccessor'], '?s.__class__((*?s, *?o))', env) is not None
    ok_other = None in shapes and src(shapes[None]) == 'NotImplemented'
    ctx.check('PyTreeAccessor.__add__/entry', ok_entry,
              'accessor + entry appends the entry after the accessor\'s own entries',
              'accessor + entry builds `%s`' % (src(shapes.get('PyTreeEntry')) if shapes.get('PyTreeEntry') is not None else 'nothing'),
              mod.loc(add))
    ctx.check('PyTreeAccessor.__add__/accessor', ok_acc,
              'accessor + accessor is the left operand\'s entries followed by the right operand\'s',
              'accessor + accessor builds `%s`: the joined accessor does not apply the left one first'
              % (src(shapes.get('PyTreeAccessor')) if shapes.get('PyTreeAccessor') is not None else 'nothing'), mod.loc(add))
    ctx.check('PyTreeAccessor.__add__/other', ok_other,
              'anything else is NotImplemented', 'accessor + <other> returns `%s`'
              % (src(shapes.get(None)) if shapes.get(None) is not None else 'nothing'), mod.loc(add))
    s2, i2 = params(gi)[:2]
    env2 = {'s': s2, 'i': i2}
    rets = [r for r in walk(gi) if isinstance(r, ast.Return) and r.value is not None]
    sl = [r for r in rets if pmatch(r.value, '?s.__class__(super().__getitem__(?i))', env2) is not None]
    pl = [r for r in rets if pmatch(r.value, 'super().__getitem__(?i)', env2) is not None]
    guard = [n for n in walk(gi) if isinstance(n, ast.If) and pmatch(n.test, 'isinstance(?i, slice)', env2) is not None]
    ok = len(sl) == 1 and len(pl) == 1 and len(guard) == 1 and any(sl[0] is x for x in guard[0].body)
    ctx.check('PyTreeAccessor.__getitem__/slice', ok,
              'a slice of an accessor is an accessor over that slice of its entries; an index is the entry',
              'PyTreeAccessor.__getitem__ does not return self.__class__(<tuple slice>) for slices and the '
              'entry for indices', mod.loc(gi))
    # entry + entry / entry + accessor: the entry itself comes first
    eadd = mod.funcs.get('PyTreeEntry.__add__')
    ctx.require(eadd is not None, 'PyTreeEntry.__add__ not found')
    s3, o3 = params(eadd)[:2]
    shapes3 = {}
    par3 = {}
    for n in ast.walk(eadd):
        for c in ast.iter_child_nodes(n):
            par3[id(c)] = n
    for r in [r for r in walk(eadd) if isinstance(r, ast.Return) and r.value is not None]:
        cls_, cur = None, r
        while id(cur) in par3:
            p_ = par3[id(cur)]
            if isinstance(p_, ast.If) and any(cur is x for x in p_.body):
                m = pmatch(p_.test, 'isinstance(?o, ?c)', {'o': o3})
                if m is not None:
                    cls_ = m['c'] if isinstance(m['c'], str) else src(p_.test.args[1])
            cur = p_
        shapes3[cls_] = r.value
    env3 = {'s': s3, 'o': o3}
    ctx.check('PyTreeEntry.__add__/entry', 'PyTreeEntry' in shapes3 and
              pmatch(shapes3['PyTreeEntry'], 'PyTreeAccessor((?s, ?o))', env3) is not None,
              'entry + entry is the accessor (left, right)',
              'entry + entry builds `%s`' % (src(shapes3['PyTreeEntry']) if 'PyTreeEntry' in shapes3 else 'nothing'),
              mod.loc(eadd))
    ctx.check('PyTreeEntry.__add__/accessor', 'PyTreeAccessor' in shapes3 and
              pmatch(shapes3['PyTreeAccessor'], 'PyTreeAccessor((?s, *?o))', env3) is not None,
              'entry + accessor is the entry followed by the accessor\'s entries',
              'entry + accessor builds `%s`: the joined accessor does not apply the entry first'
              % (src(shapes3['PyTreeAccessor']) if 'PyTreeAccessor' in shapes3 else 'nothing'), mod.loc(eadd))


G9_MUTATORS = {'append', 'extend', 'pop', 'update', 'insert', 'clear', 'setdefault', 'remove', 'popitem',
               'add', 'discard', 'appendleft', 'popleft', '__setitem__', '__delitem__', 'move_to_end'}
G9_CONTAINER_CALLS = {'dict', 'list', 'set', 'OrderedDict', 'collections.OrderedDict', 'defaultdict',
                      'collections.defaultdict', 'WeakKeyDictionary', 'weakref.WeakKeyDictionary',
                      'WeakValueDictionary', 'weakref.WeakValueDictionary', 'deque', 'collections.deque'}
G9_CXX_MUTATORS = {'emplace', 'insert', 'try_emplace', 'erase', 'clear', 'operator[]', 'insert_or_assign',
                   'extract', 'push_back', 'emplace_back', 'assign', 'swap', 'merge', 'operator='}


@rule('G9', floor=4, title='registry lookups answer from the live tables: no memo of answers survives a registration')
def g9(ctx):
    """What `register_pytree_node.get` / the engine's `Lookup` answer for (class, namespace) depends
    on several table entries (the namespace's own, the global one, the named-tuple / struct-sequence
    fallback), so an answer remembered under one key goes stale when *another* key is registered or
    unregistered.  Python half: a module-level container of optree/registry.py that a function
    without an engine registration call writes is a memo of answers; every function that changes
    the tables must then drop it wholesale (`.clear()`, a rebinding, a loop over its keys) - a
    removal of one key is not an invalidation.  C++ half: `Lookup` and `GetKind` (and what they
    call inside the registry class) write no data member of the registry."""
    pkg = ctx.py()
    mod = pkg.mod('optree.registry')
    containers = {}
    for s_ in mod.tree.body:
        tg, v = None, None
        if isinstance(s_, ast.Assign) and len(s_.targets) == 1 and isinstance(s_.targets[0], ast.Name):
            tg, v = s_.targets[0].id, s_.value
        elif isinstance(s_, ast.AnnAssign) and isinstance(s_.target, ast.Name) and s_.value is not None:
            tg, v = s_.target.id, s_.value
        if tg is None:
            continue
        if isinstance(v, (ast.Dict, ast.List, ast.Set, ast.DictComp, ast.ListComp, ast.SetComp)) or \
                (isinstance(v, ast.Call) and (call_name(v) or '') in G9_CONTAINER_CALLS):
            containers[tg] = s_
    ctx.require('_NODETYPE_REGISTRY' in containers, 'optree.registry: the table _NODETYPE_REGISTRY was not recognised')

    def writes(fn):
        """module-level containers the function writes -> list of (how, node); how is 'one-key',
        'wholesale' or 'other'"""
        out = {}
        local = {a.arg for a in fn.args.posonlyargs + fn.args.args + fn.args.kwonlyargs}
        for n in walk(fn):
            if isinstance(n, ast.Name) and isinstance(n.ctx, ast.Store):
                local.add(n.id)
        glob = set()
        for n in walk(fn):
            if isinstance(n, ast.Global):
                glob |= set(n.names)
        for n in walk(fn):
            name, how = None, None
            if isinstance(n, ast.Subscript) and isinstance(n.ctx, (ast.Store, ast.Del)) and isinstance(n.value, ast.Name):
                name, how = n.value.id, ('one-key' if isinstance(n.ctx, ast.Del) else 'store')
            elif isinstance(n, ast.Call) and isinstance(n.func, ast.Attribute) and isinstance(n.func.value, ast.Name) \
                    and n.func.attr in G9_MUTATORS:
                name = n.func.value.id
                how = 'wholesale' if n.func.attr == 'clear' else \
                    ('one-key' if n.func.attr in ('pop', 'remove', 'discard', '__delitem__') else 'store')
            elif isinstance(n, ast.Name) and isinstance(n.ctx, ast.Store) and n.id in glob:
                name, how = n.id, 'wholesale'
            if name in containers and (name not in local or name in glob):
                out.setdefault(name, []).append((how, n))
        return out
    funcs = [f for f in ast.walk(mod.tree) if isinstance(f, (ast.FunctionDef, ast.AsyncFunctionDef))]
    table_writers, per_fn = [], {}
    for f in funcs:
        w = writes(f)
        per_fn[f] = w
        engine = [c for c in calls_under(f) if (call_name(c) or '') in ('_C.register_node', '_C.unregister_node')]
        if engine:
            table_writers.append(f)
    ctx.require(len(table_writers) >= 2, 'optree.registry: %d functions with an engine registration call' % len(table_writers))
    ctx.ok('registry/table-writers', 'the registry tables are changed by: %s'
           % ', '.join(sorted(f.name for f in table_writers)), mod.loc(table_writers[0]))
    memos = {}
    for f in funcs:
        if f in table_writers:
            continue
        for name, ws in per_fn[f].items():
            if any(how == 'store' for how, _ in ws):
                memos.setdefault(name, []).append(f)
    bad = []
    for name, fs in sorted(memos.items()):
        for tw in table_writers:
            ws = per_fn[tw].get(name, [])
            in_loop = False
            for how, n in ws:
                # a removal inside a loop / comprehension over the memo is a sweep, not one key
                for anc in walk(tw):
                    if isinstance(anc, (ast.For, ast.While, ast.ListComp, ast.DictComp, ast.SetComp, ast.GeneratorExp)) and \
                            any(x is n for x in ast.walk(anc)):
                        in_loop = True
            if any(how == 'wholesale' for how, _ in ws) or in_loop:
                continue
            bad.append((name, fs[0], tw, ws))
    ctx.check('registry/no-stale-memo', not bad,
              'optree.registry keeps no memo of lookup answers beside the tables (module-level containers: %s; '
              'written outside the registration functions: %s)' % (sorted(containers), sorted(memos) or 'none'),
              '%s' % '; '.join(
                  '`%s` remembers answers of %s() and %s() %s: an answer that came from the global table or '
                  'from the named-tuple / struct-sequence fallback stays in it under every other namespace key '
                  'after the class is registered or unregistered' % (
                      name, f0.name, tw.name,
                      'removes only one key of it' if ws else 'does not invalidate it')
                  for name, f0, tw, ws in bad[:3]),
              mod.loc(bad[0][1]) if bad else mod.loc(table_writers[0]))
    # C++ half
    prog = ctx.cxx()
    rec = prog.records.get('optree::PyTreeTypeRegistry')
    ctx.require(rec is not None, 'record PyTreeTypeRegistry not found')
    members = {n for n, t, h in rec.fields} | {n for n, t in rec.static_vars}
    ctx.require(len(members) >= 3, 'PyTreeTypeRegistry: %d data members recognised' % len(members))
    roots = [f for nm in ('PyTreeTypeRegistry::Lookup', 'PyTreeTypeRegistry::GetKind')
             for f in prog.by_suffix(nm) if not f.dependent]
    ctx.require(len(roots) >= 4, 'Lookup / GetKind: %d instantiations' % len(roots))
    seen, work = {}, list(roots)
    while work:
        f = work.pop()
        if f.key in seen or f.body is None:
            continue
        seen[f.key] = f
        for k in prog.callees(f):
            g = prog.funcs.get(k)
            if g is not None and g.record == 'optree::PyTreeTypeRegistry' and g.key not in seen and not g.dependent:
                work.append(g)
    for f in sorted(seen.values(), key=lambda x: (x.file or '', x.line or 0, x.targs)):
        hits = []
        for c in calls_in(f.body, G9_CXX_MUTATORS, into_lambdas=True):
            b = c.call_base() if c.callee_name() != 'operator=' else (c.kids[1] if len(c.kids) > 1 else None)
            p = member_path(b) or ''
            if p.split('.')[-1] in members or (p.split('.')[0] in members):
                hits.append((c, p))
        for n in f.body.walk(True):
            if n.kind in ('BinaryOperator', 'CompoundAssignOperator') and (n.op == '=' or n.kind == 'CompoundAssignOperator') \
                    and n.kids:
                p = member_path(n.kids[0]) or ''
                if p.split('.')[-1] in members or p.split('.')[0] in members:
                    hits.append((n, p))
        ctx.check('%s/reads-only' % short(f), not hits,
                  '%s: the lookup path writes no data member of the registry' % inst(f),
                  '%s writes the registry member `%s` (%s): an answer kept there is not dropped when another '
                  'key of the tables changes' % (inst(f), hits[0][1] if hits else '',
                                               hits[0][0].callee_name() if hits and hits[0][0].kind != 'BinaryOperator' else '='),
                  hits[0][0].loc if hits else f.loc)
