"""Remaining small rules: E2 raw owned references, E3 steal sinks, E4 partially built containers,
L2 lock order, W2 traverse/walk callback placement, F10 accessor/treespec from one flatten."""
from __future__ import annotations

import ast
import re

from ..engine import rule
from ..descriptors import _is_object_vector, _container_type
from ..cxx_ir import CALL_KINDS, CTOR_KINDS, LOOP_KINDS
from ..cfg import cfg_of, switch_arms
from ..effects import PY, NEWREF, STEALS, external_effects
from ..py_frontend import call_name, calls_under, walk, is_name, src, param_names
from .common import (short, inst, live_funcs, calls_in, callee_func, member_path, enclosing_map,
                     ancestors, kind_switches, strip_casts)
from .locks import regions, _callers_hold


@rule('E2', floor=3, title='a raw owned PyObject* is released on every path and never held across user code')
def e2(ctx):
    prog = ctx.cxx()
    eff = ctx.effects()
    n = 0
    for f in live_funcs(prog):
        if f.body is None:
            continue
        cfg = None
        for v in f.body.find('VarDecl'):
            t = (v.type or '')
            if not re.search(r'PyObject \*|_object \*', t) or not v.kids or v.kids[-1] is None:
                continue
            src_calls = [c for c in calls_in(v.kids[-1]) if c.kind in CALL_KINDS and
                         callee_func(prog, f, c) is None and NEWREF in external_effects(c)[0]]
            # `obj.release()` hands the reference to the raw pointer (or array slot) as well
            src_calls += [c for c in calls_in(v.kids[-1]) if c.kind == 'CXXMemberCallExpr' and
                          c.callee_name() == 'release' and callee_func(prog, f, c) is None]
            if not src_calls:
                continue
            # interned-id leak (Py_Declare_ID) is deliberate: INCREF + returned
            if any(c.callee_name() == 'PyUnicode_InternFromString' for c in src_calls):
                ctx.ok('%s/%s' % (short(f), 'interned-id'),
                       '%s: interned identifier is leaked on purpose (returned and kept forever)' % inst(f),
                       v.loc)
                n += 1
                continue
            if cfg is None:
                cfg = cfg_of(f)
            n += 1
            owner = f if not f.is_lambda else prog.funcs.get(f.parent, f)
            site = '%s/%s' % (short(owner), v.name)
            dn = cfg.cnode_of(v)
            if dn is None:
                n -= 1
                continue
            releases = set()
            for c in calls_in(f.body, {'Py_DECREF', 'Py_XDECREF', 'reinterpret_steal'}):
                a = c.call_args()
                x = strip_casts(a[0]) if a else None
                if x is not None and x.kind == 'ArraySubscriptExpr' and x.kids:
                    x = strip_casts(x.kids[0])      # args[k] of a raw array
                if x is not None and member_path(x) == v.name:
                    releases.add(cfg.cnode_of(c))
            # the non-null edge of `if (PyObject* x = ...)`
            starts = []
            for (w, lab) in cfg.succ[dn]:
                wn = cfg.nodes[w]
                if wn.kind == 'cond' and wn.ast is not None and member_path(strip_casts(wn.ast)) == v.name:
                    starts += [x for (x, l2) in cfg.succ[w] if l2 is True]
                else:
                    starts.append(w)
            def null_edge(v_, w_, lab, name=v.name):
                # edges on which the pointer is known to be null carry no reference
                cn = cfg.nodes[v_]
                if cn.kind != 'cond' or cn.ast is None or lab not in (True, False):
                    return False
                a = cn.ast
                neg = False
                while a is not None and a.kind == 'UnaryOperator' and a.op == '!':
                    neg = not neg
                    a = a.kids[0]
                if a is not None and a.kind == 'BinaryOperator' and a.op in ('==', '!=') and \
                        member_path(strip_casts(a.kids[0])) == name and a.kids[1] is not None and \
                        a.kids[1].kind in ('CXXNullPtrLiteralExpr', 'GNUNullExpr', 'IntegerLiteral'):
                    is_null_when_true = (a.op == '==') != neg
                    return lab is is_null_when_true
                if a is not None and member_path(strip_casts(a)) == name:
                    return lab is neg       # `if (x)`: the False edge is the null edge
                return False
            reach = cfg.reachable_from(starts, null_edge, releases)
            # a `throw` leaves the function as surely as a `return` does
            leak = cfg.exit.idx in reach or cfg.throwexit.idx in reach
            py_between = []
            for x in reach:
                a = cfg.nodes[x].ast
                if a is None or x in releases:
                    continue
                for cn, e, why, tgt in eff.effects_in(f, a):
                    if PY in e and not _is_probe(cn):
                        py_between.append(cn)
            ctx.check(site, bool(releases) and not leak and not py_between,
                      '%s: owned reference `%s` is released on every path and no user code runs '
                      'while it is held raw' % (inst(f), v.name),
                      '%s: owned reference `%s` %s' % (
                          inst(f), v.name,
                          'can reach a return or a throw without Py_DECREF' if leak or not releases else
                          'is held as a raw pointer across %s (an exception there leaks it)'
                          % (py_between[0].callee_name() if py_between else '?')), v.loc)
    ctx.require(n >= 3, 'only %d raw owned references found' % n)


def _is_probe(call):
    """attribute probes on the class object are the purpose of the recognisers"""
    return call.callee_name() in ('PyObject_GetAttr',)


@rule('E3', floor=2, title='reference-stealing sinks receive an owned reference')
def e3(ctx):
    prog = ctx.cxx()
    n = 0
    for f in live_funcs(prog):
        if f.body is None:
            continue
        for c in calls_in(f.body, {'PyTuple_SET_ITEM', 'PyList_SET_ITEM'}):
            n += 1
            a = c.call_args()
            v = a[2] if len(a) > 2 else None
            txt = v.text(6) if v is not None else ''
            owned = False
            if v is not None:
                for x in v.walk():
                    if x.kind == 'CXXMemberCallExpr' and x.callee_name() in ('inc_ref', 'release'):
                        owned = True
            ctx.check('%s/%s' % (short(f), c.callee_name()), owned,
                      '%s: %s receives `%s` (a new/own reference)' % (inst(f), c.callee_name(), txt),
                      '%s: %s steals a reference but receives the borrowed `%s`: the container and '
                      'the original owner both believe they own it (double free / use after free)'
                      % (inst(f), c.callee_name(), txt), c.loc)
    ctx.require(n >= 2, 'only %d stealing sinks found' % n)
    # inventory of manual reference counting (evidence only)
    inv = {}
    for f in live_funcs(prog):
        if f.body is None:
            continue
        for c in calls_in(f.body, {'inc_ref', 'dec_ref', 'release', 'Py_INCREF', 'Py_DECREF'}):
            owner = f if not f.is_lambda else prog.funcs.get(f.parent, f)
            inv.setdefault(short(owner), {}).setdefault(c.callee_name(), 0)
            inv[short(owner)][c.callee_name()] += 1
    ctx.analysed['manual_refcount_sites'] = inv


E4_EXCEPTIONS = {
    'PyTreeSpec::FlattenUpTo': 'the result list is filled from the back while custom flatten '
                               'functions run; it is a local that is destroyed on unwind and its '
                               'unfilled slots are NULL, which list deallocation tolerates',
}


@rule('E4', floor=8, title='a freshly allocated tuple/list is filled before any user code can see or interrupt it')
def e4(ctx):
    prog = ctx.cxx()
    eff = ctx.effects()
    n = 0
    for f in live_funcs(prog):
        if f.body is None:
            continue
        owner = f if not f.is_lambda else prog.funcs.get(f.parent, f)
        for v in f.body.find('VarDecl'):
            t = (v.type or '').replace('const ', '').replace('pybind11::', 'py::').strip()
            if t not in ('py::tuple', 'py::list') or not v.kids or v.kids[-1] is None:
                continue
            init = v.kids[-1]
            if init.kind not in CTOR_KINDS or not re.search(r'\((long|ssize_t|py::ssize_t|const long &)',
                                                             (init.x or {}).get('ctorType', '') or ''):
                continue
            if init.kids and init.kids[0] is not None and init.kids[0].kind == 'CXXDefaultArgExpr':
                continue     # py::list x;  (size 0)
            fills = [c for c in calls_in(f.body, {'TupleSetItem', 'ListSetItem', 'PyTuple_SET_ITEM',
                                                  'PyList_SET_ITEM'})
                     if member_path(strip_casts(c.call_args()[0])) == v.name]
            if not fills:
                continue
            n += 1
            site = '%s/%s' % (short(owner), v.name)
            cfg = cfg_of(f)
            parent = enclosing_map(f.body)
            loops = []
            for c in fills:
                ls = [a for a in ancestors(c, parent) if a.kind in LOOP_KINDS]
                if ls:
                    loops.append(ls[0])
            pys = []
            for l in loops:
                body = l.kids[-1]
                pys += [x for x, e, why, tg in eff.effects_in(f, body) if PY in e]
            # between allocation and the first fill
            dn = cfg.cnode_of(v)
            if dn is None or any(cfg.cnode_of(c) is None for c in fills):
                n -= 1
                continue     # statically discarded branch (if constexpr)
            firstfill = min(cfg.cnode_of(c) for c in fills)
            between = cfg.forward_reachable([w for (w, _) in cfg.succ[dn]], {firstfill})
            for x in between:
                a = cfg.nodes[x].ast
                if a is None or x == firstfill:
                    continue
                if firstfill in cfg.forward_reachable([x]):
                    pys += [y for y, e, why, tg in eff.effects_in(f, a) if PY in e]
            if pys and short(owner) in E4_EXCEPTIONS:
                ctx.ok(site, '%s: accepted exception - %s' % (inst(f), E4_EXCEPTIONS[short(owner)]), v.loc)
                continue
            ctx.check(site, not pys,
                      '%s: `%s` is allocated and filled without any call into Python in between'
                      % (inst(f), v.name),
                      '%s: `%s` has unfilled (NULL) slots while %s runs user code: the garbage '
                      'collector or a re-entrant call can observe a half-built container'
                      % (inst(f), v.name, pys[0].callee_name() if pys else ''), v.loc)
    ctx.require(n >= 8, 'only %d sized tuple/list allocations with fills found' % n)


@rule('L2', floor=5, title='the lock acquisition graph is acyclic')
def l2(ctx):
    prog = ctx.cxx()
    pkg = ctx.py()
    acquires = {}
    for f in live_funcs(prog):
        ms = {m for m, mode, g, st in regions(f)}
        if ms:
            acquires[f.key] = ms
    # transitive: function -> mutexes it may take
    g = prog.callgraph()
    trans = {k: set(v) for k, v in acquires.items()}
    changed = True
    while changed:
        changed = False
        for k, cs in g.items():
            for c in cs:
                add = trans.get(c, set()) - trans.get(k, set())
                if add:
                    trans.setdefault(k, set()).update(add)
                    changed = True
    edges = set()
    infos = []
    for f in live_funcs(prog):
        for mutex, mode, guard, stmts in regions(f):
            for s in stmts:
                for c in calls_in(s):
                    t = callee_func(prog, f, c)
                    if t is None:
                        continue
                    for m2 in trans.get(t.key, set()):
                        if m2 == mutex:
                            infos.append((f, mutex, t, c))
                        else:
                            edges.add((mutex, m2))
    # Python lock -> engine mutexes through the binding table
    reg = pkg.mod('optree.registry')
    from ..bridge import binding_table
    tab = binding_table(prog)
    for qual, fn in reg.funcs.items():
        for w in walk(fn):
            if isinstance(w, ast.With) and any('__REGISTRY_LOCK' in src(i.context_expr) for i in w.items):
                for c in [x for b in w.body for x in calls_under(b)]:
                    nm = call_name(c) or ''
                    if nm.startswith('_C.'):
                        b = tab.get(('module', nm[3:]))
                        if b is not None and b.target_key in trans:
                            for m2 in trans[b.target_key]:
                                edges.add(('__REGISTRY_LOCK', m2))
    ctx.require(len(edges) >= 1, 'no lock-order edges found')
    nodes = {a for a, b in edges} | {b for a, b in edges}
    # cycle detection
    adj = {}
    for a, b in edges:
        adj.setdefault(a, set()).add(b)
    state = {}
    cyc = []

    def dfs(v, path):
        state[v] = 1
        for w in sorted(adj.get(v, ())):
            if state.get(w) == 1:
                cyc.append(path + [v, w])
            elif w not in state:
                dfs(w, path + [v])
        state[v] = 2
    for v in sorted(nodes):
        if v not in state:
            dfs(v, [])
    for a, b in sorted(edges):
        ctx.ok('order/%s->%s' % (a, b), '`%s` is held while `%s` is taken' % (a, b))
    ctx.check('acyclic', not cyc,
              'lock order over %d locks and %d edges is acyclic' % (len(nodes), len(edges)),
              'lock-order cycle: %s' % (cyc[:1],), None)
    for f, m, t, c in infos[:6]:
        ctx.info('reacquire/%s/%s' % (short(f), m),
                 'informational: %s takes `%s` again through %s while holding it (shared mode; the '
                 'dict-order mode switch is documented as not thread-safe)' % (inst(f), m, short(t)),
                 c.loc)


@rule('W2', floor=4, title='traverse/walk call the leaf function in the leaf arm and the node function once per node after its children were popped')
def w2(ctx):
    prog = ctx.cxx()
    for f in sorted([x for x in prog.by_suffix('PyTreeSpec::WalkImpl') if not x.dependent],
                    key=lambda x: x.targs):
        sws = kind_switches(f)
        ctx.require(len(sws) == 1, '%s: %d kind switches' % (inst(f), len(sws)))
        arms, groups = switch_arms(sws[0])
        cfg = cfg_of(f)

        def calls_through(stmts, name):
            out = []
            for s in stmts:
                for c in s.find('CXXOperatorCallExpr'):
                    if c.callee_name() == 'operator()' and len(c.kids) > 1:
                        obj = c.kids[1]
                        if obj is not None and name in obj.text(4) and 'operator*' in obj.text(4):
                            out.append(c)
            return out
        leaf = arms.get('Leaf', [])
        lf = calls_through(leaf, 'f_leaf')
        ln = calls_through(leaf, 'f_node')
        ctx.check('%s/leaf-arm' % short(f), len(lf) == 1 and not ln,
                  '%s: the leaf arm calls f_leaf once and never f_node' % inst(f),
                  '%s: leaf arm calls f_leaf %d time(s) and f_node %d time(s)' % (inst(f), len(lf), len(ln)),
                  f.loc)
        node = arms.get('Tuple', [])
        nf = [c for c in calls_through(node, 'f_node') if cfg.cnode_of(c) is not None]
        nl = [c for c in calls_through(node, 'f_leaf') if cfg.cnode_of(c) is not None]
        ok = bool(nf) and not nl
        detail = []
        for c in nf:
            cn = cfg.cnode_of(c)
            # the agenda is cut back (pop_back loop or resize) before the callback runs
            shrinks = [x for x in calls_in(node, {'pop_back', 'resize'})
                       if _is_object_vector(_container_type(prog, f, x.call_base())) and
                       cfg.cnode_of(x) is not None]
            if not any(cfg.dominates(cfg.cnode_of(x), cn) or
                       (cn in cfg.reachable_from([cfg.cnode_of(x)]) and
                        cfg.cnode_of(x) not in cfg.forward_reachable([cn])) for x in shrinks):
                ok = False
                detail.append('f_node call at %s is not preceded by popping the children' % c.loc)
        same_group = all(k in arms and arms[k] is arms['Tuple'] for k in
                         ('None', 'List', 'Dict', 'NamedTuple', 'OrderedDict', 'DefaultDict', 'Deque',
                          'StructSequence', 'Custom'))
        ctx.check('%s/node-arm' % short(f), ok and same_group,
                  '%s: every non-leaf kind shares one arm that pops `arity` children and then calls '
                  'f_node once' % inst(f),
                  '%s: %s' % (inst(f), '; '.join(detail) or 'non-leaf kinds do not share one arm / '
                              'f_node missing or f_leaf called for a node'), f.loc)
        # ... on every path: with the kind fixed to any non-leaf kind, no way from the switch to
        # the next node gets round the f_node call except the one on which f_node is absent
        from ..descriptors import kind_edge_filter
        sw_cond = None
        for k_ in sws[0].kids[:-1]:
            if k_ is not None:
                sw_cond = k_
        subj = member_path(strip_casts(sw_cond))
        swn = cfg.cnode_of(sw_cond)
        callnodes = {cfg.cnode_of(c) for c in nf}
        heads = {w for (v, w) in cfg.back_edges if cfg.dominates(w, swn)} if swn is not None else set()

        def absent(v, w, lab):
            # the edge on which `f_node` tested false: nothing to call
            cn = cfg.nodes[v]
            if cn.kind != 'cond' or cn.ast is None or lab is not False:
                return False
            t = cn.ast.text(4)
            return 'f_node' in t and 'f_leaf' not in t and not any(
                x.kind == 'CXXOperatorCallExpr' and x.callee_name() == 'operator()' for x in cn.ast.walk())
        skipped = []
        if subj and swn is not None and heads:
            for kind in ('None', 'Tuple', 'List', 'Dict', 'NamedTuple', 'OrderedDict', 'DefaultDict', 'Deque',
                         'StructSequence', 'Custom'):
                kf = kind_edge_filter(cfg, kind, subj)
                reach = cfg.reachable_from([swn],
                                           lambda v, w, lab: kf(v, w, lab) or absent(v, w, lab),
                                           callnodes | heads)
                if any(w in heads for v in reach for (w, lab) in cfg.succ[v]
                       if not kf(v, w, lab) and not absent(v, w, lab)):
                    skipped.append(kind)
        ctx.check('%s/node-function-on-every-path' % short(f), not skipped,
                  '%s: whatever the kind of a non-leaf node, the way to the next node passes the '
                  'f_node call (unless f_node is absent)' % inst(f),
                  '%s: a %s node can be finished without calling f_node although it is present: the '
                  'node function is not called exactly once per internal node' % (inst(f), ', '.join(skipped)),
                  f.loc)
        # leaves are consumed in traversal order: one iterator, advanced once per leaf arm
        incs = [n for s in leaf for n in s.walk() if n.kind == 'CXXOperatorCallExpr' and
                n.callee_name() == 'operator++']
        ctx.check('%s/leaf-order' % short(f), len(incs) == 1,
                  '%s: the leaf iterator advances exactly once per leaf node' % inst(f),
                  '%s: leaf iterator advanced %d times in the leaf arm' % (inst(f), len(incs)), f.loc)


@rule('F10', floor=4, title='paths/accessors handed out with leaves come from the same flatten call / the same treespec')
def f10(ctx):
    pkg = ctx.py()
    mod = pkg.mod('optree.ops')
    fn = mod.func('tree_flatten_with_accessor')
    fl = [c for c in calls_under(fn) if call_name(c) == '_C.flatten']
    ret = [s for s in walk(fn) if isinstance(s, ast.Return)]
    ok = False
    if len(fl) == 1 and len(ret) == 1:
        asg = [s for s in fn.body if isinstance(s, ast.Assign) and s.value is fl[0]]
        if asg and isinstance(asg[0].targets[0], ast.Tuple):
            lv, tv = [e.id for e in asg[0].targets[0].elts]
            ok = src(ret[0].value) == '(%s.accessors(), %s, %s)' % (tv, lv, tv)
    ctx.check('tree_flatten_with_accessor', ok,
              'accessors, leaves and treespec all come from one _C.flatten call',
              'tree_flatten_with_accessor does not return (treespec.accessors(), leaves, treespec) '
              'of a single flatten', mod.loc(fn))
    table = {'tree_paths': ('flatten_with_path', 0, None), 'tree_leaves': ('flatten', 0, None),
             'tree_structure': ('flatten', 1, None), 'tree_accessors': ('flatten', 1, 'accessors'),
             'tree_flatten': ('flatten', None, None),
             'tree_flatten_with_path': ('flatten_with_path', None, None),
             'tree_iter': ('PyTreeIter', None, None), 'tree_is_leaf': ('is_leaf', None, None),
             'all_leaves': ('all_leaves', None, None)}
    for name, (entry, index, method) in table.items():
        fn = mod.func(name)
        ret = [s_ for s_ in walk(fn) if isinstance(s_, ast.Return)]
        ctx.require(len(ret) == 1 and ret[0].value is not None, '%s: not a single-return wrapper' % name)
        e = ret[0].value
        got_method = None
        if isinstance(e, ast.Call) and isinstance(e.func, ast.Attribute) and \
                isinstance(e.func.value, (ast.Subscript, ast.Call)):
            got_method = e.func.attr
            ctx.require(not e.args and not e.keywords, '%s: unexpected arguments to .%s()' % (name, got_method))
            e = e.func.value
        got_index = None
        if isinstance(e, ast.Subscript):
            ctx.require(isinstance(e.slice, ast.Constant), '%s: non-constant result index' % name)
            got_index = e.slice.value
            e = e.value
        ctx.require(isinstance(e, ast.Call) and (call_name(e) or '').startswith('_C.'),
                    '%s: does not return (part of) a _C.* call: %s' % (name, src(ret[0].value)))
        got_entry = call_name(e)[3:]
        first = src(e.args[0]) if e.args else None
        pos, _, _, _ = param_names(fn)
        ok = (got_entry, got_index, got_method) == (entry, index, method) and first == pos[0]

        def show(en, fi, ix, me):
            return '_C.%s(%s, ...)%s%s' % (en, fi, '' if ix is None else '[%s]' % ix,
                                           '' if me is None else '.%s()' % me)
        ctx.check(name + '/thin', ok,
                  '%s returns %s' % (name, show(entry, pos[0], index, method)),
                  '%s returns %s, expected %s' % (name, show(got_entry, first, got_index, got_method),
                                                  show(entry, pos[0], index, method)), mod.loc(fn))
    # flatten_with_path result order (paths, leaves, treespec) agrees with the engine's tuple
    prog = ctx.cxx()
    f = prog.one('PyTreeSpec::FlattenWithPath')
    mt = calls_in(f.body, {'make_tuple'})
    def role(a):
        # by type, not by spelling: vector<py::tuple> are the paths, vector<py::object> the leaves
        a = strip_casts(a.call_args()[0] if a.kind in CALL_KINDS and a.callee_name() == 'move' else a)
        t = ((a.type or '') + ' ' + ((a.ref or {}).get('type') or '')) if a is not None else ''
        if 'PyTreeSpec' in t:
            return 'treespec'
        if re.search(r'vector<.*tuple', t):
            return 'paths'
        if re.search(r'vector<.*(object|handle)', t):
            return 'leaves'
        return '?'
    ok = bool(mt) and [role(a) for a in mt[-1].call_args()] == ['paths', 'leaves', 'treespec']
    ctx.check('FlattenWithPath/result-order', ok,
              'the engine returns (paths, leaves, treespec), the order ops.py unpacks',
              'FlattenWithPath returns its results in another order than ops.py unpacks', f.loc)


@rule('W3', floor=4, title='transform applies f_leaf to leaves and f_node to nodes and accepts only a one-level replacement with the same flags')
def w3(ctx):
    prog = ctx.cxx()
    f = prog.one('PyTreeSpec::Transform')
    cfg = cfg_of(f)
    fam = [f] + prog.lambdas_of(f)
    # (a) the callback is chosen by `kind == Leaf ? f_leaf : f_node`
    from ..descriptors import _kind_test
    sel = []
    for g in fam:
        if g.body is None:
            continue
        for co in g.body.find('ConditionalOperator'):
            kt = _kind_test(strip_casts(co.kids[0])) if co.kids else None
            names = [member_path(strip_casts(x)) for x in co.kids[1:3]]
            if kt is not None and all(names):
                sel.append((kt, names, co))
    pnames = [p_[0] for p_ in f.params]
    ctx.require(len(pnames) == 2, 'Transform: %d parameters' % len(pnames))
    oka = False
    for (en, eq), names, co in sel:
        if en == 'Leaf' and set(names) == set(pnames):
            # (f_node, f_leaf) by position: leaf callback is the second parameter
            leaf_cb = names[0] if eq else names[1]
            oka = leaf_cb == pnames[1]
    ctx.check('Transform/callback-by-kind', oka,
              'Transform calls its second callback (f_leaf) for leaves and its first (f_node) for nodes',
              'Transform does not select f_leaf for `kind == Leaf` and f_node otherwise (selections: %s)'
              % [(k, n) for k, n, _ in sel], f.loc)
    # (b) a replacement for a non-leaf node must be one level with the same arity, (c) same flags
    emps = [c for c in calls_in(f.body, {'emplace_back'})
            if any(m.kind == 'MemberExpr' and m.name == 'm_traversal' for m in c.walk()) and
            any(x.kind == 'CXXMemberCallExpr' and x.callee_name() == 'back' for x in c.walk())]
    ctx.require(len(emps) == 1, 'Transform: %d sites that take the replacement root' % len(emps))
    en = cfg.cnode_of(emps[0])

    def guarded(pred, what):
        for cn in cfg.nodes:
            if cn.kind != 'cond' or cn.ast is None or not pred(cn.ast.text(6)):
                continue
            t = cfg.forward_reachable([w for (w, lab) in cfg.succ[cn.idx] if lab is True])
            if cfg.dominates(cn.idx, en) and en not in t and any(cfg.nodes[x].kind == 'throw' for x in t):
                return True
        return False
    checks = (
        ('same-arity', lambda t: 'GetNumLeaves' in t and 'arity' in t and '!=' in t,
         'the replacement has as many leaves as the node has children'),
        ('one-level', lambda t: 'GetNumNodes' in t and 'arity' in t and '!=' in t,
         'the replacement has exactly arity + 1 nodes (it is one level deep)'),
        ('same-none_is_leaf', lambda t: 'm_none_is_leaf' in t and '!=' in t,
         'the replacement has the treespec\'s none_is_leaf'),
    )
    for key, pred, what in checks:
        ctx.check('Transform/' + key, guarded(pred, what),
                  'Transform rejects a replacement unless %s, before it is spliced in' % what,
                  'Transform splices a replacement in without checking that %s' % what, emps[0].loc)


@rule('U1', floor=3, title='a wrong number of leaves is reported: too few inside the leaf arm, too many after the last node')
def u1(ctx):
    """Unflatten and traverse / walk consume the leaves through a hand-driven iterator.  In the
    leaf arm the exhausted outcome of the end test throws ValueError (too few leaves); after the
    loop over the nodes the NOT exhausted outcome throws ValueError (too many) and the exhausted
    one returns the result.  The polarity matters: turned round, every exact call fails, or a
    surplus is silently dropped."""
    prog = ctx.cxx()
    from .common import unnegate, thrown_type
    n = 0
    for name in ('PyTreeSpec::UnflattenImpl', 'PyTreeSpec::WalkImpl'):
        for f in [x for x in prog.by_suffix(name) if not x.dependent]:
            cfg = cfg_of(f)
            heads = sorted({w for (v, w) in cfg.back_edges})
            ctx.require(heads, '%s: no loop over the nodes' % inst(f))
            head = heads[0]
            loop_nodes = cfg.reachable_from([w for (w, lab) in cfg.succ[head] if lab is True]) \
                if any(lab is True for (w, lab) in cfg.succ[head]) else set()
            tests = []
            for cn in cfg.nodes:
                if cn.kind != 'cond' or cn.ast is None:
                    continue
                base, pos = unnegate(cn.ast)
                if base is None:
                    continue
                op = base.op if base.kind == 'BinaryOperator' else (
                    base.callee_name()[-2:] if base.kind == 'CXXOperatorCallExpr' and
                    base.callee_name() in ('operator==', 'operator!=') else None)
                t = base.text(5)
                if op not in ('==', '!=') or 'end()' not in t or '__' in t:
                    continue
                at_end = ((op == '==') == pos)          # the outcome (label) on which the iterator is exhausted
                tests.append((cn, at_end))
            # which tests sit in the loop over the nodes, which after it
            body = cfg.reachable_from([w for (w, lab) in cfg.succ[head] if lab is not False], None, {head})
            tail = cfg.reachable_from([w for (w, lab) in cfg.succ[head] if lab is False], None, {head})
            problems = []
            if not any(cn.idx in body for cn, _ in tests):
                problems.append('no end-of-leaves test in the leaf arm (too few leaves are not reported)')
            if not any(cn.idx in tail and cn.idx not in body for cn, _ in tests):
                problems.append('no end-of-leaves test after the last node (too many leaves are not reported)')
            for i, (cn, at_end) in enumerate(tests):
                after_loop = cn.idx in tail and cn.idx not in body
                end_reach = cfg.reachable_from([w for (w, lab) in cfg.succ[cn.idx] if lab is at_end])
                more_reach = cfg.reachable_from([w for (w, lab) in cfg.succ[cn.idx] if lab is (not at_end)])

                def only_throws(reach):
                    th = [x for x in reach if cfg.nodes[x].kind == 'throw' and
                          thrown_type(cfg.nodes[x].ast) == 'value_error']
                    return bool(th) and cfg.exit.idx not in reach
                if after_loop:
                    if not only_throws(more_reach):
                        problems.append('after the last node, leaves that are left over do not raise ValueError')
                    if cfg.exit.idx not in end_reach:
                        problems.append('after the last node, an exhausted leaf iterator does not return the result')
                else:
                    if not only_throws(end_reach):
                        problems.append('in the leaf arm, an exhausted leaf iterator does not raise ValueError')
                    if cfg.exit.idx not in more_reach:
                        problems.append('in the leaf arm, a remaining leaf cannot be consumed')
            n += 1
            ctx.check('%s/leaf-count' % short(f), not problems,
                      '%s: too few leaves raise ValueError in the leaf arm, too many after the last node' % inst(f),
                      '%s: %s' % (inst(f), '; '.join(problems)), f.loc)
    ctx.analysed['leaf_count_checks'] = n
