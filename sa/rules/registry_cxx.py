"""Registry rules on the C++ side: G1 commit discipline, G2 C-API result checked, G5 reference
pairing, K6 lookup order / exact type (engine half)."""
from __future__ import annotations

import re

from ..engine import rule
from ..cxx_ir import CALL_KINDS, CTOR_KINDS
from ..cfg import cfg_of, const_eval
from ..effects import PY, RC_FAIL, external_effects
from .common import (short, inst, live_funcs, calls_in, callee_func, member_path, enclosing_map,
                     ancestors, thrown_type, relation)
from .locks import regions

REG_MAPS = ('m_registrations', 'm_named_registrations')


def _map_calls(f, names):
    out = []
    for c in calls_in(f.body, names):
        b = c.call_base()
        p = member_path(b) or ''
        if p.split('.')[-1] in REG_MAPS:
            out.append((c, p.split('.')[-1]))
    return out


def discarded(call, parent):
    """the value of `call` is thrown away (expression statement or cast to void)"""
    p = parent.get(id(call))
    while p is not None and p.kind in ('CStyleCastExpr', 'CXXStaticCastExpr',
                                       'CXXFunctionalCastExpr') and 'void' in (p.type or ''):
        p = parent.get(id(p))
        if p is None or p.kind == 'CompoundStmt':
            return True
    if p is None:
        return True
    if p.kind == 'CompoundStmt':
        return True
    if p.kind in ('IfStmt', 'ForStmt', 'WhileStmt', 'CXXForRangeStmt', 'CaseStmt',
                  'DefaultStmt', 'DoStmt', 'SwitchStmt'):
        # statement position as a branch/loop body: IfStmt(cond, then, else)
        idx = [i for i, k in enumerate(p.kids) if k is call]
        if p.kind == 'IfStmt':
            return bool(idx) and idx[0] >= 1 and not ((p.x or {}).get('hasVar') and idx[0] == 0)
        if p.kind in ('CaseStmt', 'DefaultStmt'):
            return bool(idx) and idx[0] == len(p.kids) - 1
        return bool(idx) and idx[0] == len(p.kids) - 1
    return False


@rule('G2', floor=9, title='a C-API call that reports failure through its return value is never ignored')
def g2(ctx):
    prog = ctx.cxx()
    seen = {}
    for f in live_funcs(prog):
        if f.body is None:
            continue
        parent = None
        for c in calls_in(f.body):
            if c.kind not in CALL_KINDS or callee_func(prog, f, c) is not None:
                continue
            e, why = external_effects(c)
            if RC_FAIL not in e:
                continue
            if parent is None:
                parent = enclosing_map(f.body)
            nm = c.callee_name()
            base = '%s/%s' % (short(f if not f.is_lambda else prog.funcs.get(f.parent, f)), nm)
            k = seen.setdefault((base, f.targs), 0)
            seen[(base, f.targs)] = k + 1
            site = '%s#%d' % (base, k)
            d = discarded(c, parent)
            in_registry = (f.file or '').endswith('registry.cpp')
            if d and not in_registry and nm == 'PyErr_WarnEx':
                ctx.info(site, 'cross-reference: %s ignores the result of %s (no listed property '
                         'depends on this call site)' % (inst(f), nm), c.loc)
                continue
            ctx.check(site, not d,
                      '%s: the result of %s is tested' % (inst(f), nm),
                      '%s: the result of %s is ignored - %s; when it fails the function carries '
                      'on and returns normally with a Python error set (SystemError at the '
                      'caller), after its side effects' % (inst(f), nm, why), c.loc)


def _is_fallible(ctx, prog, eff, f, cn, parent):
    """(bool, what) - does CFG atom cn contain an operation that can fail/raise user errors"""
    a = cn.ast
    if a is None:
        return False, ''
    if cn.kind == 'throw':
        t = thrown_type(a) if a.kind == 'CXXThrowExpr' else 'rethrow'
        if t == 'InternalError':
            return False, ''
        return True, 'throw ' + t
    for n, e, why, tgt in eff.effects_in(f, a):
        if PY in e:
            return True, (n.callee_name() or '?')
        if RC_FAIL in e:
            return True, (n.callee_name() or '?')
    return False, ''


@rule('G1', floor=8, title='register/unregister validate first and do nothing fallible after the first mutation')
def g1(ctx):
    prog = ctx.cxx()
    eff = ctx.effects()
    for name, mut_names in (('PyTreeTypeRegistry::RegisterImpl', {'emplace', 'insert', 'try_emplace'}),
                            ('PyTreeTypeRegistry::UnregisterImpl', {'erase'})):
        fs = [f for f in prog.by_suffix(name) if not f.dependent]
        ctx.require(len(fs) in (1, 2), '%s: %d instantiations' % (name, len(fs)))   # G7 decides that both are used
        for f in fs:
            cfg = cfg_of(f)
            parent = enclosing_map(f.body)
            muts = _map_calls(f, mut_names)
            ctx.require(muts, '%s: no mutation of the registry maps found' % inst(f))
            # built-in check: a cond reading sm_builtins_types whose taken edge throws, dominating
            # every mutation
            bchecks = [cn for cn in cfg.nodes if cn.kind == 'cond' and cn.ast is not None and
                       any(m.kind in ('MemberExpr', 'DeclRefExpr') and
                           ((m.name == 'sm_builtins_types') or
                            (m.ref or {}).get('name') == 'sm_builtins_types')
                           for m in cn.ast.walk())]
            site = short(f)
            okb = bool(bchecks) and all(cfg.dominates(bchecks[0].idx, cfg.cnode_of(c))
                                        for c, _ in muts)
            # ... and it is the "is a built-in" outcome that is rejected: `find(cls) != end()`
            # true (or `== end()` false, or `count(cls)` non-zero) cannot reach a mutation, the
            # other outcome can
            if okb:
                from .common import unnegate
                b0 = bchecks[0]
                base_, pos_ = unnegate(b0.ast)
                found_when_true = None
                if base_ is not None:
                    opn = base_.op if base_.kind == 'BinaryOperator' else (
                        base_.callee_name()[-2:] if base_.kind == 'CXXOperatorCallExpr' and
                        (base_.callee_name() or '').startswith('operator') else None)
                    t_ = base_.text(6)
                    if opn in ('==', '!=') and 'end()' in t_:
                        found_when_true = (opn == '!=')
                    elif base_.kind == 'CXXMemberCallExpr' and base_.callee_name() in ('count', 'contains'):
                        found_when_true = True
                    elif opn in ('==', '!=') and 'count(' in t_:
                        found_when_true = (opn == '!=')
                if found_when_true is None:
                    ctx.fail('%s: the built-in type test `%s` is not a membership test this rule can read'
                             % (inst(f), b0.ast.text(4)))
                builtin_edge = found_when_true if pos_ else (not found_when_true)
                mn = {cfg.cnode_of(c) for c, _ in muts}
                r_b = cfg.forward_reachable([w for (w, lab) in cfg.succ[b0.idx] if lab is builtin_edge])
                r_o = cfg.forward_reachable([w for (w, lab) in cfg.succ[b0.idx] if lab is (not builtin_edge)])
                ctx.check(site + '/builtin-rejected', not (mn & r_b) and bool(mn & r_o),
                          '%s: a built-in type cannot reach a mutation of the maps, any other type can' % inst(f),
                          '%s: the outcome of `%s` on which the type IS a built-in reaches a mutation '
                          '(or the other one does not): built-in node types can be re-registered / '
                          'unregistered, or nothing else can' % (inst(f), b0.ast.text(4)), b0.ast.loc)
            ctx.check(site + '/builtin-check-first', okb,
                      '%s: the built-in type test dominates every mutation of the maps' % inst(f),
                      '%s: a registry map can be mutated without the built-in type test having '
                      'passed' % inst(f), f.loc)
            for c, mp in muts:
                cn = cfg.cnode_of(c)
                node = cfg.nodes[cn]
                # edges on which the mutation took place: for `if (!map.emplace(..).second)` the
                # mutation happened on the edge where `.second` is true; a plain statement
                # mutates on every outgoing edge
                starts = []
                if node.kind == 'cond' and _is_second_of(node.ast, c):
                    starts = [w for (w, lab) in cfg.succ[cn] if lab is True]
                else:
                    starts = [w for (w, lab) in cfg.succ[cn] if lab != 'exc']
                after = cfg.forward_reachable(starts)
                bad = {}
                for x in sorted(after):
                    fl, what = _is_fallible(ctx, prog, eff, f, cfg.nodes[x], parent)
                    if fl:
                        bad.setdefault(what, cfg.nodes[x])
                if not bad:
                    ctx.ok('%s/%s/after-mutation' % (site, mp),
                           '%s: nothing that can fail follows the %s of %s' % (inst(f), c.callee_name(), mp),
                           c.loc)
                for what, x in sorted(bad.items()):
                    ctx.bad('%s/%s/after-mutation/%s' % (site, mp, what),
                            '%s: after %s.%s() has changed the registry, `%s` can still fail or '
                            'run user code; nothing undoes the mutation, so a raising call leaves '
                            'the type registered (engine and Python mirror disagree)'
                            % (inst(f), mp, c.callee_name(), what),
                            x.ast.loc if x.ast is not None else c.loc)
    # the public entry points: nothing but the two *Impl calls and refcount bookkeeping
    for name in ('PyTreeTypeRegistry::Register', 'PyTreeTypeRegistry::Unregister'):
        f = prog.one(name)
        cfg = cfg_of(f)
        parent = enclosing_map(f.body)
        impl = [c for c in calls_in(f.body) if callee_func(prog, f, c) is not None and
                callee_func(prog, f, c).qualname.endswith('Impl')]
        ctx.require(len(impl) == 2, '%s: %d *Impl calls' % (name, len(impl)))
        last = cfg.cnode_of(impl[-1])
        after = cfg.forward_reachable([w for (w, lab) in cfg.succ[last] if lab != 'exc'])
        bad = {}
        for x in after:
            fl, what = _is_fallible(ctx, prog, eff, f, cfg.nodes[x], parent)
            if fl:
                bad[what] = cfg.nodes[x]
        ctx.check('%s/after-both-variants' % short(f), not bad,
                  '%s: after both variants are updated only reference counting and internal '
                  'assertions follow' % inst(f),
                  '%s: fallible operations after both maps were changed: %s' % (inst(f), sorted(bad)),
                  f.loc)


def _is_second_of(cond_ast, call):
    """cond atom is `<call>.second`"""
    a = cond_ast
    if a is not None and a.kind == 'MemberExpr' and a.name == 'second':
        return any(x is call for x in a.walk())
    return False


@rule('G5', floor=3, title='references taken at registration are released field for field at unregistration and at exit')
def g5(ctx):
    prog = ctx.cxx()
    reg = prog.one('PyTreeTypeRegistry::Register')
    impl = [f for f in prog.by_suffix('PyTreeTypeRegistry::RegisterImpl') if not f.dependent][0]
    # parameter -> Registration field, from the assignments in RegisterImpl
    p2f = {}
    for n in impl.body.walk():
        if n.kind == 'CXXOperatorCallExpr' and n.callee_name() == 'operator=' and len(n.kids) == 3:
            lhs, rhs = n.kids[1], n.kids[2]
            if lhs.kind == 'MemberExpr' and 'Registration' in ' '.join(
                    (x.type or '') for x in lhs.kids[0].walk()):
                for d in rhs.walk():
                    if d.kind == 'DeclRefExpr' and d.ref and d.ref.get('kind') == 'ParmVarDecl':
                        p2f[d.ref.get('name')] = lhs.name
    ctx.require(len(p2f) >= 4, 'RegisterImpl: parameter->field map has %d entries' % len(p2f))
    inc = set()
    for c in calls_in(reg.body, {'inc_ref'}):
        p = member_path(c.call_base())
        if p in p2f:
            inc.add(p2f[p])
    ctx.require(inc, 'Register: no inc_ref on its parameters found')

    def decs(f, root):
        out = set()
        for c in calls_in(root, {'dec_ref'}):
            b = c.call_base()
            if b is not None and b.kind == 'MemberExpr':
                out.add(b.name)
        return out
    un = prog.one('PyTreeTypeRegistry::Unregister')
    du = decs(un, un.body)
    ctx.check('Unregister/dec_ref', du == inc,
              'Unregister releases exactly the references Register took: %s' % sorted(inc),
              'Register takes references on %s, Unregister releases %s' % (sorted(inc), sorted(du)),
              un.loc)
    cl = prog.one('PyTreeTypeRegistry::Clear')
    loops = [l for l in cl.body.find('CXXForRangeStmt')
             if any(c for c in calls_in(l, {'dec_ref'}))]
    maps = {}
    for l in loops:
        rng = l.kids[1]
        mp = None
        for m in rng.walk():
            if m.kind == 'MemberExpr' and m.name in REG_MAPS:
                mp = m.name
        if mp:
            maps[mp] = decs(cl, l)
    for mp in REG_MAPS:
        got = maps.get(mp, set())
        ctx.check('Clear/%s/dec_ref' % mp, got == inc,
                  'Clear releases %s for every entry of %s' % (sorted(inc), mp),
                  'Clear releases %s for entries of %s, Register took %s'
                  % (sorted(got), mp, sorted(inc)), cl.loc)


@rule('K6', floor=6, title='lookup order: namespace map, then global map, then heuristics; exact type only')
def k6(ctx):
    prog = ctx.cxx()
    for f in [x for x in prog.by_suffix('PyTreeTypeRegistry::Lookup') if not x.dependent]:
        cfg = cfg_of(f)
        finds = [(c, member_path(c.call_base()).split('.')[-1]) for c in calls_in(f.body, {'find'})
                 if (member_path(c.call_base()) or '').split('.')[-1] in REG_MAPS]
        named = [c for c, m in finds if m == 'm_named_registrations']
        glob = [c for c, m in finds if m == 'm_registrations']
        ctx.require(named and glob, '%s: expected one find on each map' % inst(f))
        nn, gn = cfg.cnode_of(named[0]), cfg.cnode_of(glob[0])
        # named consulted first: global find not before named find, and named hit returns
        # without reaching the global find
        reach_from_g = cfg.forward_reachable([gn])
        ctx.check('Lookup/named-first', nn not in reach_from_g,
                  '%s: the namespace map is consulted before the global map' % inst(f),
                  '%s: the global map is consulted before the namespace map: a global '
                  'registration shadows the namespace one' % inst(f), named[0].loc)
        # named lookup only when namespace non-empty
        guards = [cn for cn in cfg.nodes if cn.kind == 'cond' and cn.ast is not None and
                  _ns_empty_test(cn.ast) is not None]
        # the edge on which the namespace is empty / non-empty, however the test is spelt
        e_lab = (_ns_empty_test(guards[0].ast)[0] > 0) if guards else True
        okg = bool(guards) and cfg.dominates(guards[0].idx, nn) and \
            nn not in cfg.forward_reachable([w for (w, lab) in cfg.succ[guards[0].idx] if lab is e_lab])
        # ... and for *every* non-empty namespace: from the non-empty edge each path to a return
        # passes the namespace-map lookup (no extra condition may skip it)
        if guards:
            ne = [w for (w, lab) in cfg.succ[guards[0].idx] if lab is (not e_lab)]
            skipped = cfg.exit.idx in cfg.reachable_from(ne, None, {nn})
            ctx.check('Lookup/named-always-with-namespace', not skipped,
                      '%s: with a non-empty namespace the namespace map is always consulted' % inst(f),
                      '%s: with a non-empty namespace a path returns without consulting the '
                      'namespace map (an additional condition short-cuts it): a type registered in '
                      'that namespace can be treated as unregistered' % inst(f), named[0].loc)
        ctx.check('Lookup/named-only-with-namespace', okg,
                  '%s: the namespace map is consulted only for a non-empty namespace' % inst(f),
                  '%s: the namespace map is consulted for the empty (global) namespace too' % inst(f),
                  named[0].loc)
        # hit in named map returns it: the cond `named_it != end` true edge reaches a return
        # without passing the global find
        hit = [cn for cn in cfg.nodes if cn.kind == 'cond' and cn.ast is not None and
               'named' in cn.ast.text(5) and 'end' in cn.ast.text(5)]
        okh = False
        for h in hit:
            for (w, lab) in cfg.succ[h.idx]:
                r = cfg.forward_reachable([w])
                if gn not in r and cfg.exit.idx in r:
                    okh = True
        ctx.check('Lookup/named-hit-wins', okh,
                  '%s: a hit in the namespace map is returned without consulting the global map' % inst(f),
                  '%s: a hit in the namespace map does not short-circuit the global lookup' % inst(f),
                  f.loc)
    for f in [x for x in prog.by_suffix('PyTreeTypeRegistry::GetKind') if not x.dependent]:
        cfg = cfg_of(f)
        lk = [c for c in calls_in(f.body, {'Lookup'})]
        ctx.require(len(lk) == 1, '%s: %d Lookup calls' % (inst(f), len(lk)))
        a0 = lk[0].call_args()[0]
        exact = a0 is not None and any(c.callee_name() in ('of', 'handle_of') for c in calls_in(a0))
        ctx.check('GetKind/exact-type', exact,
                  '%s keys the registry lookup with the exact type of the object' % inst(f),
                  '%s does not key the lookup with py::type::of(handle): %s' % (inst(f), a0.text(4)),
                  lk[0].loc)
        ss = calls_in(f.body, {'IsStructSequenceInstance', 'IsStructSequence'})
        nt = calls_in(f.body, {'IsNamedTupleInstance', 'IsNamedTuple'})
        ctx.require(ss and nt, '%s: heuristic recognisers not found' % inst(f))
        ln, sn, tn = cfg.cnode_of(lk[0]), cfg.cnode_of(ss[0]), cfg.cnode_of(nt[0])
        order_ok = sn in cfg.forward_reachable([ln]) and tn in cfg.forward_reachable([sn]) and \
            sn not in cfg.forward_reachable([tn])
        ctx.check('GetKind/order', order_ok,
                  '%s: registry first, then struct sequence, then namedtuple' % inst(f),
                  '%s: heuristics are not consulted in the order registry -> struct sequence -> '
                  'namedtuple' % inst(f), f.loc)
        # heuristics only after the registry missed: the recogniser is not reachable from the
        # edge on which the registration was found
        reg_cond = [cn for cn in cfg.nodes if cn.kind == 'cond' and cn.ast is not None and
                    'registration' in cn.ast.text(4) and 'kind' not in cn.ast.text(4)]
        okm = False
        if reg_cond:
            t = [w for (w, lab) in cfg.succ[reg_cond[0].idx] if lab is True]
            okm = sn not in cfg.forward_reachable(t)
        ctx.check('GetKind/heuristics-after-miss', okm,
                  '%s: a registry hit never reaches the namedtuple / struct-sequence heuristics' % inst(f),
                  '%s: the heuristics can override a registry hit' % inst(f), f.loc)
        sub = calls_in(f.body, {'PyObject_IsInstance', 'PyObject_IsSubclass', 'PyType_IsSubtype',
                                'isinstance'})
        ctx.check('GetKind/no-subtype-test', not sub,
                  '%s performs no subtype test of its own' % inst(f),
                  '%s uses a subtype test (%s): subclasses of registered containers would become '
                  'nodes' % (inst(f), [c.callee_name() for c in sub]), f.loc)


def _ns_empty_test(e):
    """+1 if the atom is `registry_namespace.empty()`, -1 for its negation, None otherwise"""
    sign = 1
    while e is not None and e.kind == 'UnaryOperator' and e.op == '!' and e.kids:
        sign = -sign
        e = e.kids[0]
    def ns_param(b):
        if b is not None and b.kind == 'DeclRefExpr' and (b.ref or {}).get('kind') == 'ParmVarDecl' and \
                'string' in (b.type or ''):
            return (b.ref or {}).get('name')
        return None

    def size_of(x):
        if x is not None and x.kind == 'CXXMemberCallExpr' and x.callee_name() in ('size', 'length'):
            return ns_param(x.call_base())
        return None
    if e is None:
        return None
    if e.kind == 'CXXMemberCallExpr' and e.callee_name() == 'empty':
        n = ns_param(e.call_base())
        return (sign, n) if n else None
    # the same test spelt through the length: size() == 0, size() != 0, size() > 0, 0 < size()
    if e.kind == 'BinaryOperator' and e.op in ('==', '!=') and len(e.kids) == 2 and const_eval(e.kids[1]) == 0:
        n = size_of(e.kids[0])
        return ((sign if e.op == '==' else -sign), n) if n else None
    rel = relation(e)
    if rel is not None:
        small, big, strict = rel
        if const_eval(small) == 0 and strict and size_of(big):
            return -sign, size_of(big)          # 0 < size(): non-empty
        if const_eval(big) == 0 and not strict and size_of(small):
            return sign, size_of(small)         # size() <= 0: empty
        if const_eval(small) == 1 and not strict and size_of(big):
            return -sign, size_of(big)          # 1 <= size()
        if const_eval(big) == 1 and strict and size_of(small):
            return sign, size_of(small)         # size() < 1
    return None


def namespace_facts(cfg, target):
    """what is known about `<namespace parameter>.empty()` at CFG node `target`: the set of truth
    values under which `target` can be reached ({True}, {False} or {True, False})"""
    tests = [cn for cn in cfg.nodes if cn.kind == 'cond' and cn.ast is not None and
             _ns_empty_test(cn.ast) is not None]
    vals = set()
    for want in (True, False):
        def skip(v, w, lab, want=want):
            cn = cfg.nodes[v]
            if cn.kind != 'cond' or cn.ast is None or lab not in (True, False):
                return False
            t = _ns_empty_test(cn.ast)
            if t is None:
                return False
            truth = lab if t[0] > 0 else (not lab)      # value of empty() on this edge
            return truth != want
        if target in cfg.reachable_from([cfg.entry.idx], skip):
            vals.add(want)
    return vals, len(tests)


@rule('G6', floor=6, title='a registry mutation addressed to a namespace touches only that namespace\'s map')
def g6(ctx):
    """Namespace isolation, mutation half: the global map is written only when the namespace
    argument is empty, the named map only when it is not, and the named key carries the
    namespace argument.  (The lookup may fall back from the named to the global map - K6; a
    mutation may not.)"""
    prog = ctx.cxx()
    n = 0
    for name in ('PyTreeTypeRegistry::RegisterImpl', 'PyTreeTypeRegistry::UnregisterImpl'):
        fs = [f for f in prog.by_suffix(name) if not f.dependent]
        ctx.require(len(fs) in (1, 2), '%s: %d instantiations' % (name, len(fs)))   # G7 decides that both are used
        for f in fs:
            cfg = cfg_of(f)
            muts = _map_calls(f, {'emplace', 'insert', 'try_emplace', 'erase', 'clear', 'operator[]',
                                  'insert_or_assign', 'extract'})
            ctx.require(muts, '%s: no mutation of the registry maps found' % inst(f))
            for c, mp in muts:
                cn = cfg.cnode_of(c)
                if cn is None:
                    continue
                vals, ntests = namespace_facts(cfg, cn)
                ctx.require(ntests >= 1, '%s: no test of the namespace argument found' % inst(f))
                n += 1
                want = {True} if mp == 'm_registrations' else {False}
                ctx.check('%s/%s/%s' % (short(f), mp, c.callee_name()), vals == want,
                          '%s: %s.%s() is reached only when the namespace argument is %s'
                          % (inst(f), mp, c.callee_name(), 'empty' if mp == 'm_registrations' else 'non-empty'),
                          '%s: %s.%s() can be reached with %s namespace argument: an operation '
                          'addressed to one namespace changes what another namespace sees'
                          % (inst(f), mp, c.callee_name(),
                             'a non-empty' if mp == 'm_registrations' else 'an empty'), c.loc)
            # the named key is (namespace argument, cls)
            for c in calls_in(f.body, {'make_pair'}):
                a = c.call_args()
                ok = len(a) == 2 and a[0] is not None and a[0].kind == 'DeclRefExpr' and \
                    (a[0].ref or {}).get('kind') == 'ParmVarDecl' and 'string' in (a[0].type or '') and \
                    a[1] is not None and a[1].kind == 'DeclRefExpr' and \
                    (a[1].ref or {}).get('kind') == 'ParmVarDecl' and \
                    f.params and member_path(a[1]) == f.params[0][0]
                n += 1
                ctx.check('%s/named-key' % short(f), ok,
                          '%s: the named map is keyed by (namespace argument, class argument)' % inst(f),
                          '%s: named-map key is %s' % (inst(f), c.text(4)), c.loc)
    ctx.require(n >= 6, 'only %d registry mutation sites' % n)


def _ns_param(f):
    """position of the namespace parameter of an engine function: the one named parameter of plain
    std::string type of a PyTreeSpec / PyTreeTypeRegistry / PyTreeIter member or of a free function
    of src/treespec (exceptions, hashing and repr helpers take strings that are not namespaces)"""
    if f.record not in ('optree::PyTreeSpec', 'optree::PyTreeTypeRegistry', 'optree::PyTreeIter') and \
            not (f.file or '').startswith('src/treespec/'):
        return None
    ps = [i for i, p in enumerate(f.params) if p[0] and
          (p[1] or '').replace('const ', '').replace(' &', '').strip() in
          ('std::string', 'std::basic_string<char>')]
    return ps[0] if len(ps) == 1 else None


def _static_member(prog, g):
    """`static` is written on the declaration inside the class, not on the out-of-line definition"""
    rec = prog.records.get(g.record)
    return g.is_static or (rec is not None and any(n == g.name and iss for n, sig, isc, iss, acc in rec.methods))


@rule('NS1', floor=40, title='the namespace a caller asked for is the namespace every callee is asked about')
def ns1(ctx):
    """Namespace threading: every call of an engine function that takes a namespace passes the
    caller's own namespace parameter (through lambdas: the enclosing function's), or - in a
    method of a class that carries one - `this->m_namespace`; never a constant or another value."""
    prog = ctx.cxx()
    from .common import strip_casts
    takers = {}
    for f in prog.funcs.values():
        if f.is_lambda or not f.file:
            continue
        i = _ns_param(f)
        if i is not None:
            takers[id(f)] = i
    ctx.require(len(takers) >= 20, 'only %d namespace-taking engine functions found' % len(takers))

    def own_ns(g):
        """names a caller may pass: its namespace parameter, or that of the function its lambda sits in"""
        seen = set()
        while g is not None and id(g) not in seen:
            seen.add(id(g))
            if not g.is_lambda:
                i = _ns_param(g)
                return ({g.params[i][0]} if i is not None else set()), g
            g = prog.funcs.get(g.parent)
        return set(), None
    sites = 0
    for g in live_funcs(prog):
        if g.body is None or not g.file or g.is_lambda:
            continue
        fam = [g]
        stack = [g]
        while stack:
            for l in prog.lambdas_of(stack.pop()):
                fam.append(l)
                stack.append(l)
        names, outer = own_ns(g)
        # local lambdas that take a namespace themselves and hand it on to an engine function
        # (`const auto lookup = [&](const std::string& ns) { return Lookup<...>(cls, ns); }`)
        lam_param = {}
        for l in fam[1:]:
            ps = [i_ for i_, p_ in enumerate(l.params) if p_[0] and
                  (p_[1] or '').replace('const ', '').replace(' &', '').replace('&', '').strip() in
                  ('std::string', 'std::basic_string<char>')]
            if len(ps) == 1 and l.body is not None:
                pn = l.params[ps[0]][0]
                hands_on = False
                for c in l.body.walk():
                    if c.kind in CALL_KINDS or c.kind in CTOR_KINDS:
                        t = callee_func(prog, l, c)
                        if t is not None and id(t) in takers:
                            a = c.call_args()
                            if takers[id(t)] < len(a) and a[takers[id(t)]] is not None and \
                                    member_path(strip_casts(a[takers[id(t)]])) == pn:
                                hands_on = True
                if hands_on:
                    lam_param[id(l)] = (ps[0], pn)
        lam_vars = {}
        if lam_param:
            for h in fam:
                if h.body is None:
                    continue
                for v in h.body.walk(into_lambdas=False):
                    if v.kind == 'VarDecl' and v.name and v.kids and v.kids[-1] is not None:
                        for le in v.kids[-1].walk(into_lambdas=False):
                            if le.kind == 'LambdaExpr':
                                lf = prog.lambda_func(h, le)
                                if lf is not None and id(lf) in lam_param:
                                    lam_vars[v.name] = lf

        def judge(h, c, arg, tname):
            nonlocal sites
            e = strip_casts(arg)
            # a copy `std::string{ns}` of the namespace is the namespace
            while e is not None and e.kind in CTOR_KINDS and len([k for k in e.kids if k is not None]) == 1:
                e = strip_casts([k for k in e.kids if k is not None][0])
            mp = member_path(e) if e is not None else None
            sites += 1
            own_lambda = {lam_param[id(h)][1]} if id(h) in lam_param else set()
            if names:
                ok = mp in names or mp in own_lambda
                why = 'its own namespace parameter'
            elif g.record in ('optree::PyTreeSpec', 'optree::PyTreeIter') and not _static_member(prog, g):
                ok = mp in ('this.m_namespace', 'm_namespace') or mp in own_lambda
                why = 'this->m_namespace'
            else:
                # no namespace of its own (unpickling, bindings): anything but a constant
                ok = e is not None and e.kind in ('DeclRefExpr', 'MemberExpr') and mp is not None
                why = 'a namespace value it was given'
            ctx.check('%s/%s' % (short(g), tname), ok,
                      '%s asks %s about %s' % (inst(g), tname, why),
                      '%s calls %s with the namespace `%s` instead of %s: the registrations / '
                      'dict-order mode consulted are those of another namespace'
                      % (inst(g), tname, arg.text(5), why), c.loc)
        for h in fam:
            if h.body is None:
                continue
            for c in h.body.walk():
                if c.kind not in CALL_KINDS and c.kind not in CTOR_KINDS:
                    continue
                if c.kind == 'CXXOperatorCallExpr' and c.callee_name() == 'operator()' and len(c.kids) >= 2:
                    lf = lam_vars.get(member_path(strip_casts(c.kids[1])) or '')
                    if lf is not None:
                        i = lam_param[id(lf)][0]
                        args = c.kids[2:]
                        if i < len(args) and args[i] is not None:
                            judge(h, c, args[i], 'lambda `%s`' % member_path(strip_casts(c.kids[1])))
                        continue
                t = callee_func(prog, h, c)
                if t is None or id(t) not in takers:
                    continue
                a = c.call_args()
                i = takers[id(t)]
                arg = a[i] if i < len(a) else None
                if arg is None:
                    continue
                judge(h, c, arg, t.name)
    ctx.analysed['namespace_call_sites'] = sites
    # the same for everything else a recursive step receives by reference (output vectors, the
    # path stack, the leaf predicate): the recursive call hands on exactly what it was given
    rec_sites = 0
    for g in live_funcs(prog):
        if g.body is None or not g.file or g.is_lambda or g.record != 'optree::PyTreeSpec':
            continue
        fam = [g]
        stack = [g]
        while stack:
            for l in prog.lambdas_of(stack.pop()):
                fam.append(l)
                stack.append(l)
        for h in fam:
            if h.body is None:
                continue
            for c in h.body.walk():
                if c.kind not in CALL_KINDS:
                    continue
                t = callee_func(prog, h, c)
                if t is None or t.name != g.name or t.record != g.record or len(t.params) != len(g.params):
                    continue
                a = c.call_args()
                bad = []
                for (pn, pt), x in zip([p_[:2] for p_ in g.params], a):
                    if not pn or x is None or not (pt or '').rstrip().endswith('&') or 'handle' in pt or \
                            re.search(r'\b(ssize_t|size_t|int|bool|long)\b', pt):
                        continue     # the cursor, the depth: these change by design (N2, K8)
                    if member_path(strip_casts(x)) != pn:
                        bad.append('%s <- %s' % (pn, x.text(4)))
                rec_sites += 1
                ctx.check('%s/recursion-hands-on-its-references' % short(g), not bad,
                          '%s: the recursive call passes every by-reference parameter (outputs, stack, '
                          'predicate, namespace) on unchanged' % inst(g),
                          '%s: the recursive call replaces a by-reference parameter (%s): the subtree is '
                          'traversed with other options / into other outputs than the root'
                          % (inst(g), '; '.join(bad)), c.loc)
    ctx.require(rec_sites >= 5, 'only %d self-recursive engine calls found' % rec_sites)
    ctx.analysed['recursive_call_sites'] = rec_sites


@rule('G7', floor=4, title='a registration lives in both registries: Register / Unregister call their Impl once per NoneIsLeaf variant')
def g7(ctx):
    """The engine keeps two registries (None-is-node and None-is-leaf).  A type is registered or
    unregistered in both by the same call, unconditionally, and each Impl instantiation works on
    the singleton of its own flag - otherwise flattening with one none_is_leaf value sees a
    registry the other does not."""
    prog = ctx.cxx()
    for outer, impl in (('PyTreeTypeRegistry::Register', 'RegisterImpl'),
                        ('PyTreeTypeRegistry::Unregister', 'UnregisterImpl')):
        f = prog.one(outer)
        cfg = cfg_of(f)
        calls = [c for c in calls_in(f.body, {impl})]
        variants = []
        for c in calls:
            t = callee_func(prog, f, c)
            variants.append(tuple(t.targs) if t is not None else None)
        ok = len(calls) == 2 and None not in variants and len(set(variants)) == 2
        ctx.check('%s/both-variants' % short(f), ok,
                  '%s calls %s once for each of the two registries' % (inst(f), impl),
                  '%s calls %s for the variants %s: one of the two registries (None-is-node / '
                  'None-is-leaf) is not updated, or one is updated twice'
                  % (inst(f), impl, [('<%s>' % ','.join(v)) if v else '?' for v in variants]), f.loc)
        # unconditionally: each call is on every path from entry to the normal exit
        skipped = []
        for c in calls:
            cn = cfg.cnode_of(c)
            if cn is None or cfg.exit.idx in cfg.reachable_from([cfg.entry.idx], None, {cn}):
                skipped.append(c)
        ctx.check('%s/unconditional' % short(f), not skipped,
                  '%s: both %s calls are on every path to the normal exit' % (inst(f), impl),
                  '%s can return without the %s call at %s' % (inst(f), impl, skipped[0].loc if skipped else ''),
                  skipped[0].loc if skipped else f.loc)
        # each instantiation works on the singleton of its own flag
        for g in [x for x in prog.by_suffix('PyTreeTypeRegistry::' + impl) if not x.dependent]:
            sing = [c for c in calls_in(g.body, {'Singleton'})]
            own = []
            for c in sing:
                t = callee_func(prog, g, c)
                own.append(t is not None and tuple(t.targs) == tuple(g.targs))
            ctx.check('%s/own-singleton' % short(g), bool(sing) and all(own),
                      '%s works on Singleton<its own NoneIsLeaf>' % inst(g),
                      '%s reaches for the registry of the other NoneIsLeaf value (or none)' % inst(g), g.loc)
