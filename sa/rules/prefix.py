"""Prefix-matching rules: P1 prefix cell table (four matchers), P2cxx mismatch exception
discipline of flatten_up_to, W1 working-copy discipline of IsPrefix."""
from __future__ import annotations

import ast
import re

from ..engine import rule
from ..cxx_ir import CALL_KINDS, CTOR_KINDS, LOOP_KINDS
from ..descriptors import arm_descriptors
from ..cfg import cfg_of, const_eval
from ..py_frontend import call_name, calls_under, walk, is_name, src, pmatch
from .common import (ALL_KINDS, short, inst, calls_in, callee_func, member_path, enclosing_map, ancestors,
                     thrown_type, local_inits, strip_casts, kind_switches)

# what the property statement says is compared, per kind
REFERENCE = {
    'None': ({'kind'}, {'metadata'}),                       # a None node matches a None node only
    'Tuple': ({'kind', 'arity'}, {'metadata'}),
    'List': ({'kind', 'arity'}, {'metadata'}),
    'Deque': ({'kind', 'arity'}, {'metadata'}),             # maxlen is NOT compared
    'Dict': ({'family', 'keyset'}, {'metadata', 'kind'}),   # factory / exact dict kind NOT compared
    'OrderedDict': ({'family', 'keyset'}, {'metadata', 'kind'}),
    'DefaultDict': ({'family', 'keyset'}, {'metadata', 'kind'}),
    'NamedTuple': ({'kind', 'arity', 'metadata'}, set()),   # metadata = the class
    'StructSequence': ({'kind', 'arity', 'metadata'}, set()),
    'Custom': ({'registration', 'arity', 'metadata'}, {'custom-type-identity'}),
}


def atoms_of(validations):
    """comparison atoms of a list of (condition text, outcome) validations"""
    out = set()
    for txt, exc in validations:
        if exc == 'InternalError':
            continue
        # (the text is that of the outcome on which the validation rejects, negations pushed
        # inward - descriptors.norm_cond - so each atom is matched in its rejecting form only:
        # a guard that rejects on the opposite outcome does not count as the comparison)
        for part in re.split(r'\|\|', txt):
            p = part.strip()
            if re.search(r'kind != (Dict|OrderedDict|DefaultDict)\b', p):
                out.add('family')
            elif re.search(r'\(kind != kind\)|kind != None', p) or p.startswith('type-is-') and 'StandardDict' not in p:
                out.add('kind')
            if 'type-is-StandardDict' in p:
                out.add('family')
            if re.search(r'arity != arity|len\(\w+\) != arity|COUNTED != arity|arity != COUNTED', p):
                out.add('arity')
            if re.search(r'!is_none\(SELF', p):
                out.add('kind')                # the object met where the treespec has a None node is not None
            if re.search(r'!DictKeysEqual', p):
                out.add('keyset')
            if re.search(r'(?<!!)not_equal\(|!equal\(', p):
                out.add('metadata')
            if re.search(r'custom != custom|!= custom\)|custom != ', p):
                out.add('registration')
            if re.search(r'!is\(.*custom\.type.*custom\.type', p):
                out.add('custom-type-identity')
            if 'bool(SPEC.node_data) != bool(SPEC.node_data)' in p:
                out.add('metadata-presence')
    return out


def _conjuncts(e):
    if isinstance(e, ast.BoolOp) and isinstance(e.op, ast.And):
        out = []
        for v in e.values:
            out += _conjuncts(v)
        return out
    return [e]


def _py_prefix_facts(mod):
    """What prefix_errors compares, read structurally (py_frontend.pmatch: local names are
    metavariables, so the facts survive renaming; the roles are found by what flows where)."""
    fn = mod.func('prefix_errors.helper')
    ps_ = [a.arg for a in fn.args.posonlyargs + fn.args.args]
    facts = {'fn': fn, 'type': False, 'keys': False, 'arity': False, 'metadata': False,
             'both_deque': False, 'std': None, 'reorder': False, 'why': {}}
    stmts = [x for x in walk(fn) if isinstance(x, ast.stmt)]
    # the two subtree parameters: the ones whose type() is taken, in parameter order
    typed = [e['x'] for e in (pmatch(x, '?t = type(?x)') for x in stmts) if e is not None]
    sub = [a for a in ps_ if a in typed]
    if len(sub) != 2:
        return facts
    env = {'ps': sub[0], 'fs': sub[1]}

    def first(pattern, env, nodes=stmts):
        for x in nodes:
            e = pmatch(x, pattern, env)
            if e is not None:
                return e
        return None
    e = first('?pt = type(?ps)', env)
    e = first('?ft = type(?fs)', e) if e else None
    if e is None:
        return facts
    env = e
    e = first('?bsd = ?pt in ??S and ?ft in ??S', env)
    if e is not None:
        env = e
        for x in stmts:
            if pmatch(x, '?bsd = ?pt in ??S and ?ft in ??S', env) is not None:
                S = x.value.values[0].comparators[0]
                facts['std'] = mod.top_assign(S.id) if isinstance(S, ast.Name) else S
    e = first('?bdq = ?pt is deque and ?ft is deque', env)
    if e is not None:
        env = e
        facts['both_deque'] = True
    # one-level outputs: children and metadata of both sides
    for side, who in (('p', 'ps'), ('f', 'fs')):
        for x in stmts:
            if isinstance(x, ast.Assign) and call_name(x.value) == 'tree_flatten_one_level' and \
                    x.value.args and is_name(x.value.args[0], env[who]):
                for t in x.targets:
                    if isinstance(t, ast.Tuple) and len(t.elts) >= 3 and \
                            all(isinstance(z, ast.Name) for z in t.elts[:3]):
                        env[side + 'c'], env[side + 'm'] = t.elts[0].id, t.elts[1].id
    if not all(k in env for k in ('pc', 'pm', 'fc', 'fm', 'bsd')):
        return facts
    guards = [x for x in stmts if isinstance(x, ast.If) and
              any(isinstance(y, ast.Expr) and isinstance(y.value, ast.Yield) for y in x.body)]
    # a guard counts only if it is evaluated on every path to the recursion into the children
    from ..py_frontend import pycfg as _pycfg
    _cfg = _pycfg(fn)
    _rec = [_cfg.ast_to_node.get(id(c)) for c in calls_under(fn) if call_name(c) == fn.name]
    _rec = [r for r in _rec if r is not None]

    def on_every_path(g):
        first_atom = _conjuncts(g.test)[0]
        while isinstance(first_atom, ast.UnaryOp) and isinstance(first_atom.op, ast.Not):
            first_atom = first_atom.operand
        gn = _cfg.ast_to_node.get(id(first_atom))
        return gn is not None and bool(_rec) and all(_cfg.dominates(gn, r) for r in _rec)
    for g in guards:
        cj = _conjuncts(g.test)
        if not pmatch(g.test, '?pks != ?fks', env) and not on_every_path(g):
            facts['why'][src(g.test)[:40]] = 'not evaluated on every path to the recursion'
            continue
        if any(pmatch(c, '?pt is not ?ft', env) for c in cj):
            facts['type'] = any(pmatch(c, 'not ?bsd', env) for c in cj) and len(cj) == 2
            facts['why']['type'] = src(g.test)
        elif any(pmatch(c, '?pm != ?fm', env) for c in cj):
            facts['metadata'] = 'bdq' in env and any(pmatch(c, 'not ?bdq', env) for c in cj) and \
                any(pmatch(c, 'not ?bsd', env) for c in cj) and len(cj) == 3
            facts['why']['metadata'] = src(g.test)
        elif pmatch(g.test, 'len(?pc) != len(?fc)', env):
            facts['arity'] = True
        else:
            m = pmatch(g.test, '?pks != ?fks', env)
            if m is not None:
                a = first('?pks = set(?pk)', m)
                b = first('?fks = set(?fk)', a) if a else None
                if b is not None:
                    facts['keys'] = True
                    env = dict(env, pk=b['pk'], fk=b['fk'])
    if 'pk' in env:
        for x in stmts:
            if isinstance(x, ast.If) and pmatch(x.test, '?bsd', env):
                inner = [y for b in x.body for y in ast.walk(b) if isinstance(y, ast.stmt)]
                if first('?fc = [?fs[?k] for ?k in ?pk]', env, inner):
                    # ... on every path that leaves the branch normally: no condition (such as
                    # "only when an OrderedDict is involved") may let a pair of dict nodes through
                    # with the children in the full tree's own order
                    from ..py_frontend import pycfg
                    cfg = pycfg(fn)
                    rr = [y for y in inner if pmatch(y, '?fc = [?fs[?k] for ?k in ?pk]', env) is not None]
                    rn = {cfg.ast_to_node.get(id(y)) for y in rr}
                    cn = cfg.ast_to_node.get(id(x.test))
                    inside = {id(z) for b in x.body for z in ast.walk(b)}
                    ok = cn is not None and None not in rn
                    if ok:
                        starts = [w for (w, lab) in cfg.succ[cn] if lab is True]
                        reach = cfg.reachable(starts, skip_nodes=rn, skip_back=False)
                        for v in reach:
                            nd = cfg.nodes[v]
                            if nd.ast is not None and id(nd.ast) not in inside and nd.kind not in ('exit', 'raise'):
                                ok = False
                    facts['reorder'] = ok
                    if not ok:
                        facts['why']['reorder'] = 'the re-read by the prefix keys is skipped on some path'
    return facts


@rule('P1', floor=30, title='the four prefix matchers compare exactly the attributes the prefix relation is defined on')
def p1(ctx):
    prog = ctx.cxx()
    pkg = ctx.py()
    matchers = {}
    f = prog.one('PyTreeSpec::IsPrefix')
    matchers['IsPrefix'] = (f, arm_descriptors(prog, f, with_prelude=True))
    f = prog.one('PyTreeSpec::FlattenUpTo')
    matchers['FlattenUpTo'] = (f, arm_descriptors(prog, f))
    f = prog.one('PyTreeSpec::BroadcastToCommonSuffixImpl')
    matchers['BroadcastToCommonSuffixImpl'] = (f, arm_descriptors(prog, f, with_prelude=True))
    for name, (f, d) in matchers.items():
        ctx.require(len(d) >= 10, '%s: only %d arms' % (name, len(d)))
        for kind, (need, forbid) in REFERENCE.items():
            got = atoms_of(d[kind].validations)
            if name == 'FlattenUpTo' and kind in ('NamedTuple', 'StructSequence', 'Tuple', 'List', 'Deque'):
                pass
            missing = need - got
            # registration equality implies type identity; presence test is part of equality
            extra = forbid & got
            site = '%s/%s' % (name, kind)
            ctx.check(site, not missing and not extra,
                      '%s: %s nodes match on %s' % (name, kind, sorted(got - {'metadata-presence'})),
                      '%s: %s nodes %s%s%s - it accepts or rejects pairs the other matchers treat '
                      'differently' % (
                          name, kind,
                          ('do not compare %s' % sorted(missing)) if missing else '',
                          ' and ' if missing and extra else '',
                          ('compare %s, which the prefix relation does not depend on / which the '
                           'sibling matchers replace by %s' % (sorted(extra), sorted(need))) if extra else ''),
                      f.loc, {'atoms': sorted(got)})
    # no pair of container nodes gets round the per-kind comparison: with both kinds fixed to
    # container kinds, every normal return of the merge walker lies behind its kind switch
    from ..descriptors import kind_edge_filter
    f, _d = matchers['BroadcastToCommonSuffixImpl']
    cfg = cfg_of(f)
    sws = kind_switches(f)
    ctx.require(sws, 'BroadcastToCommonSuffixImpl: no kind switch')
    sw_cond = None
    for k in sws[0].kids[:-1]:
        if k is not None:
            sw_cond = k
    subj = member_path(strip_casts(sw_cond))
    swn = cfg.cnode_of(sw_cond)
    # the other operand's node: the Node reference whose kind is compared with Leaf before the switch
    others = sorted({member_path(strip_casts(x.kids[0]))[:-len('.kind')] for cn in cfg.nodes
                     if cn.kind == 'cond' and cn.ast is not None and cn.ast.kind == 'BinaryOperator'
                     for x in [cn.ast] if (member_path(strip_casts(x.kids[0])) or '').endswith('.kind')
                     and member_path(strip_casts(x.kids[0])) != subj})
    ctx.require(subj is not None and swn is not None and len(others) == 1,
                'BroadcastToCommonSuffixImpl: switch subject / other node not recognised (%s, %s)' % (subj, others))
    containers = [k for k in ALL_KINDS if k not in ('Leaf', 'None')]
    short_cuts = []
    for k1 in containers:
        f1 = kind_edge_filter(cfg, k1, subj)
        f2 = kind_edge_filter(cfg, k1, others[0] + '.kind')
        reach = cfg.reachable_from([cfg.entry.idx], lambda v, w, lab: f1(v, w, lab) or f2(v, w, lab), {swn})
        rets = [x for x in reach if cfg.nodes[x].kind == 'return']
        if rets:
            short_cuts.append((k1, cfg.nodes[rets[0]]))
    ctx.check('BroadcastToCommonSuffixImpl/no-shortcut-round-the-kind-switch', not short_cuts,
              'two container nodes of the same kind always reach the per-kind comparison of the merge walker',
              'two %s nodes can return at %s before the per-kind comparison (registration, metadata, '
              'arity, type): conflicting trees are merged silently and the result depends on the '
              'argument order' % (short_cuts[0][0] if short_cuts else '',
                                  short_cuts[0][1].ast.loc if short_cuts and short_cuts[0][1].ast is not None else '?'),
              short_cuts[0][1].ast.loc if short_cuts and short_cuts[0][1].ast is not None else f.loc)
    # Python diagnostic walker
    mod = pkg.mod('optree.ops')
    pf = _py_prefix_facts(mod)
    fn = pf['fn']
    ctx.check('prefix_errors/type', pf['type'],
              'prefix_errors: node types must be identical, except that the three standard dict kinds match each other',
              'prefix_errors type test is `%s`' % pf['why'].get('type'), mod.loc(fn))
    ctx.check('prefix_errors/keyset', pf['keys'],
              'prefix_errors: dict nodes compare key *sets*', 'no key-set comparison found', mod.loc(fn))
    ctx.check('prefix_errors/arity', pf['arity'],
              'prefix_errors: number of children compared', 'no arity test', mod.loc(fn))
    ctx.check('prefix_errors/metadata', pf['metadata'],
              'prefix_errors: metadata compared except deque maxlen and dict keys/factory',
              'prefix_errors metadata test is `%s`: deque maxlen / defaultdict factory would be '
              'reported as a mismatch although flatten_up_to accepts them (or a real mismatch is '
              'ignored)' % pf['why'].get('metadata'), mod.loc(fn))
    sd = pf['std']
    if isinstance(sd, ast.Call) and call_name(sd) in ('frozenset', 'set', 'tuple') and len(sd.args) == 1:
        sd = sd.args[0]
    ctx.check('prefix_errors/standard-dicts', sd is not None and isinstance(sd, (ast.Tuple, ast.List, ast.Set)) and
              {src(x) for x in sd.elts} == {'dict', 'OrderedDict', 'defaultdict'},
              'the standard dict family is {dict, OrderedDict, defaultdict}',
              'the standard dict family is %s' % (src(sd) if sd is not None else None), mod.relpath + ':1')
    ctx.check('prefix_errors/both-deque', pf['both_deque'],
              'both_deque is "both are exactly deque"', 'no `<prefix type> is deque and <full type> is deque` flag', mod.loc(fn))
    # dict children are taken in the prefix's key order
    ctx.check('prefix_errors/dict-children-by-prefix-keys', pf['reorder'],
              'prefix_errors pairs dict children by the prefix\'s keys',
              'prefix_errors does not re-read the full dict by the prefix\'s keys', mod.loc(fn))
    # FlattenUpTo iterates the treespec's keys and checks key-set equality first
    f, d = matchers['FlattenUpTo']
    for kind in ('Dict', 'OrderedDict', 'DefaultDict'):
        ev = d[kind].events
        ks = [i for i, e in enumerate(ev) if e[0] == 'keyset' or (e[0] == 'validate' and 'DictKeysEqual' in e[1])]
        loops = [i for i, e in enumerate(ev) if e[0] == 'loop' and e[1] == 'ITER' and
                 str(e[2]).startswith('SPEC.node_data')]
        ctx.check('FlattenUpTo/%s/spec-key-order' % kind, bool(ks) and bool(loops) and min(ks) < min(loops),
                  'flatten_up_to checks key-set equality, then reads children in the treespec\'s key order',
                  'flatten_up_to does not iterate the treespec\'s own keys after a key-set check', f.loc)


@rule('P2cxx', floor=12, title='structural mismatch in flatten_up_to raises ValueError only')
def p2cxx(ctx):
    prog = ctx.cxx()
    f = prog.one('PyTreeSpec::FlattenUpTo')
    d = arm_descriptors(prog, f)
    n = 0
    for kind, desc in d.items():
        for txt, exc in desc.validations:
            n += 1
            if exc == 'InternalError':
                continue
            malformed = bool(re.search(r'len\(OUT\) != 2', txt))
            want = 'runtime_error' if malformed else 'value_error'
            ctx.check('FlattenUpTo/%s/%s' % (kind, re.sub(r'[^A-Za-z0-9!=<>_.\[\]() ]', '', txt)[:50]),
                      exc == want,
                      'flatten_up_to: %s mismatch `%s` raises %s' % (kind, txt[:60], want),
                      'flatten_up_to: %s mismatch `%s` raises %s, documented is %s'
                      % (kind, txt[:60], exc, want), f.loc)
    # throws outside the arms (extra / missing nodes)
    for t in f.body.find('CXXThrowExpr'):
        tt = thrown_type(t)
        if tt in ('InternalError',):
            continue
        ctx.check('FlattenUpTo/throw-types', tt in ('value_error', 'runtime_error', 'error_already_set'),
                  'flatten_up_to throws %s' % tt, 'flatten_up_to throws %s' % tt, t.loc)


# ---------------------------------------------------------------------------------------------
BEGINS = {'begin', 'cbegin', 'rbegin', 'crbegin', 'end', 'cend', 'rend', 'crend'}


def _container_of_begin(e):
    e = strip_casts(e)
    while e is not None and e.kind in CTOR_KINDS and len(e.kids) == 1:
        e = strip_casts(e.kids[0])
    if e is not None and e.kind == 'CXXMemberCallExpr' and e.callee_name() in BEGINS:
        return member_path(e.call_base())
    return None


def _plus_minus(e):
    """(base container, iterator expr, subtracted container) for  A.begin() + (it - B.begin())"""
    e = strip_casts(e)
    while e is not None and e.kind in CTOR_KINDS and len(e.kids) == 1:
        e = strip_casts(e.kids[0])
    if e is None:
        return None
    args = None
    if e.kind == 'CXXOperatorCallExpr' and e.callee_name() == 'operator+' and len(e.kids) == 3:
        args = e.kids[1], e.kids[2]
    elif e.kind == 'BinaryOperator' and e.op == '+':
        args = e.kids[0], e.kids[1]
    if not args:
        return None
    for a, b in (args, args[::-1]):
        ca = _container_of_begin(a)
        bb = strip_casts(b)
        while bb is not None and bb.kind in CTOR_KINDS and len(bb.kids) == 1:
            bb = strip_casts(bb.kids[0])
        if ca and bb is not None:
            sub = None
            if bb.kind == 'CXXOperatorCallExpr' and bb.callee_name() == 'operator-' and len(bb.kids) == 3:
                sub = bb.kids[1], bb.kids[2]
            elif bb.kind == 'BinaryOperator' and bb.op == '-':
                sub = bb.kids[0], bb.kids[1]
            if sub:
                cb = _container_of_begin(sub[1])
                if cb:
                    return ca, member_path(strip_casts(sub[0])), cb
    return None


@rule('W1', floor=1, title='positions computed in a mutated working copy are not used to address the original')
def w1(ctx):
    prog = ctx.cxx()
    f = prog.one('PyTreeSpec::IsPrefix')
    inits = local_inits(f)
    # working copies: local vectors copy-constructed from an operand's node array
    copies = {}
    for v in f.body.find('VarDecl'):
        if 'vector' in (v.type or '') and v.kids and v.kids[-1] is not None:
            srcs = [m for m in v.kids[-1].walk() if m.kind == 'MemberExpr' and m.name == 'm_traversal']
            if srcs and '&' not in (v.type or '').split('>')[-1]:
                copies[v.name] = member_path(srcs[0])
    ctx.require(copies, 'IsPrefix: no working copy of an operand\'s node array found')
    # iterators into the copy, and writes through them
    its = {n: init for n, init in inits.items() if _container_of_begin(init) in copies}
    writes = []
    for c in calls_in(f.body, {'copy', 'move', 'swap_ranges', 'rotate', 'reverse'}):
        a = c.call_args()
        if len(a) >= 3:
            dst = a[2]
            names = {member_path(strip_casts(x)) for x in dst.walk() if x.kind == 'DeclRefExpr'}
            if names & set(its):
                writes.append(c)
    # every child is re-placed: a child that keeps its *index* does not keep its *offset* when
    # siblings of another size move, so the placing copy may not be skipped by a test on indices
    cfg = cfg_of(f)
    parent = enclosing_map(f.body)
    ctx.require(writes, 'IsPrefix: no write into the working copy found')
    for wi, c in enumerate(writes):
        ls = [a for a in ancestors(c, parent) if a.kind in LOOP_KINDS]
        if not ls:
            continue
        body = ls[0].kids[-1]
        inside = {cfg.cnode_of(x) for x in body.walk() if cfg.cnode_of(x) is not None}
        wn = cfg.cnode_of(c)
        cands = {w for (v, w) in cfg.back_edges if v in inside}
        heads = {w for w in cands if all(cfg.dominates(w, x) for x in cands)}
        ctx.require(inside and heads and wn is not None, 'IsPrefix: re-ordering loop not recognised')

        reach = cfg.reachable_from([min(inside)], None, {wn} | heads)
        skips = sorted(v for v in reach if any(w in heads for (w, lab) in cfg.succ[v]))
        guards = [cfg.nodes[v] for v in reach if cfg.nodes[v].kind == 'cond' and cfg.nodes[v].ast is not None
                  and const_eval(cfg.nodes[v].ast) is None]
        by_offsets = bool(guards) and all('offsets' in g.ast.text(6) for g in guards)
        ctx.check('IsPrefix/reorder-places-every-child#%d' % wi, not skips or by_offsets,
                  'IsPrefix: every entry of the index map is copied to its new offset',
                  'IsPrefix: the placing copy is skipped when `%s`: a child that keeps its index '
                  'still moves when the siblings before it have another size; the working copy keeps '
                  'stale nodes (wrong False / InternalError)'
                  % (guards[0].ast.text(4) if guards else '?'), c.loc)
    # the re-ordering happens whenever the two key lists differ: from the "differ" outcome of the
    # comparison of the key lists every path on to the rest of the arm passes a placing copy - no
    # further test ("the siblings all have the same size") can skip it, because siblings that keep
    # their offsets still differ in content
    from .common import unnegate as _un
    key_cmp = []
    for cn in cfg.nodes:
        if cn.kind != 'cond' or cn.ast is None:
            continue
        a, pos = _un(cn.ast)
        if a is not None and a.kind in CALL_KINDS and a.callee_name() in ('not_equal', 'equal') and \
                'keys' in a.text(5):
            differ_edge = (a.callee_name() == 'not_equal') == pos
            key_cmp.append((cn, differ_edge))
    ctx.require(key_cmp, 'IsPrefix: comparison of the two key lists not found')
    # (the loop that holds the placing copy counts: it runs once per entry of the index map)
    wn_all = set()
    for c in writes:
        ls_ = [a for a in ancestors(c, parent) if a.kind in LOOP_KINDS]
        if not ls_:
            if cfg.cnode_of(c) is not None:
                wn_all.add(cfg.cnode_of(c))
            continue
        inside_ = {cfg.cnode_of(x) for x in ls_[0].walk() if cfg.cnode_of(x) is not None}
        cands_ = {w for (v, w) in cfg.back_edges if v in inside_}
        wn_all |= {w for w in cands_ if all(cfg.dominates(w, x) for x in cands_)} or inside_
    for cn, differ_edge in key_cmp[:1]:
        starts = [w for (w, lab) in cfg.succ[cn.idx] if lab is differ_edge]
        # where the arm goes on after the dict handling: the node-count comparison of the loop tail
        tails = [x.idx for x in cfg.nodes if x.kind == 'cond' and x.ast is not None and
                 'num_nodes' in x.ast.text(4) and x.ast.kind == 'BinaryOperator' and x.ast.op in ('>', '<', '<=', '>=')
                 and cfg.dominates(cn.idx, x.idx) is False]
        reach = cfg.forward_reachable(starts, skip_nodes=wn_all)
        escapes = [t for t in tails if t in reach]
        ctx.check('IsPrefix/reorder-whenever-the-key-orders-differ', not escapes,
                  'IsPrefix: key lists that differ always lead to the re-ordering of the children',
                  'IsPrefix: with differing key orders the re-ordering of the children can be skipped by a '
                  'further test: children are then compared position by position under the wrong keys '
                  '(wrong True and wrong False)', cn.ast.loc)
    n = 0
    for v in f.body.find('VarDecl'):
        if not v.kids or v.kids[-1] is None:
            continue
        pm = _plus_minus(v.kids[-1])
        if pm is None:
            continue
        base, it, sub = pm
        n += 1
        site = 'IsPrefix/%s' % v.name
        crossed = base != sub and sub in copies and base == copies[sub]
        bad = crossed and bool(writes)
        ctx.check(site, not bad,
                  'IsPrefix: `%s` addresses %s with an offset computed in %s' % (v.name, base, sub),
                  'IsPrefix: `%s` = %s.begin() + (%s - %s.begin()) addresses the *original* node '
                  'array with a position computed in the working copy `%s`, which the same loop '
                  'rewrites (std::copy into it): after an outer dict was permuted, the subtrees of '
                  'an inner dict are copied from where they used to be - wrong False or '
                  'InternalError for nested dicts whose key orders differ'
                  % (v.name, base, it, sub, sub), v.loc)
    if n == 0:
        # no cross-container iterator arithmetic at all: discharged with the sources it uses
        srcs = sorted({member_path(strip_casts(x)) or '?' for c in calls_in(f.body, {'copy'})
                       for x in c.call_args()[0].walk() if x.kind == 'DeclRefExpr'})
        ctx.ok('IsPrefix/reorder-source', 'IsPrefix: the re-ordering copies take their sources '
               'from %s (no position of the working copy is applied to the original)' % srcs, f.loc)


@rule('P3', floor=3, title='strict prefix means: some leaf of the prefix meets a non-leaf of the other treespec')
def p3(ctx):
    """a < b iff a <= b and b has a non-leaf node where a has a leaf.  Structurally: IsPrefix
    returns `!strict || !acc`, where acc starts true and is only ever and-ed with
    `b.kind == Leaf` in the branch taken when a's node is a leaf."""
    prog = ctx.cxx()
    f = prog.one('PyTreeSpec::IsPrefix')
    cfg = cfg_of(f)
    # the strictness flag is IsPrefix's second parameter (whatever it is called)
    ctx.require(len(f.params) == 2, 'IsPrefix: %d parameters' % len(f.params))
    sname = f.params[1][0]
    rets = [r for r in f.body.walk() if r.kind == 'ReturnStmt' and r.kids and
            re.search(r'\b%s\b' % re.escape(sname), r.kids[0].text(4))]
    ctx.require(len(rets) == 1, 'IsPrefix: %d return statements mention the strictness flag' % len(rets))
    e = rets[0].kids[0]
    ok = e.kind == 'BinaryOperator' and e.op == '||'
    acc = None
    if ok:
        l, r = e.kids
        ok = l.kind == 'UnaryOperator' and l.op == '!' and member_path(l.kids[0]) == sname and \
            r.kind == 'UnaryOperator' and r.op == '!' and member_path(r.kids[0]) is not None
        acc = member_path(r.kids[0]) if ok else None
    ctx.check('IsPrefix/strict-return', ok,
              'IsPrefix returns !strict || !%s' % acc,
              'IsPrefix decides strictness by `%s`: strictness must depend only on whether a leaf of '
              'this treespec met a non-leaf of the other (equivalent-but-unequal treespecs - dict '
              'kinds, key order, deque maxlen - must not count as strict prefixes of each other)'
              % e.text(5), rets[0].loc)
    if not ok:
        return
    inits = local_inits(f)
    init_true = const_eval(inits.get(acc)) is True if acc in inits else False
    updates = []
    for n in f.body.walk():
        if n.kind == 'CompoundAssignOperator' and member_path(n.kids[0]) == acc:
            updates.append(n)
        elif n.kind == 'BinaryOperator' and n.op == '=' and member_path(n.kids[0]) == acc:
            updates.append(n)
    good = bool(updates) and init_true
    why = []
    from ..descriptors import _kind_test
    for u in updates:
        rhs = u.kids[1]
        kt = _kind_test(rhs)
        if not (u.kind == 'CompoundAssignOperator' and u.op == '&=' and kt == ('Leaf', True)):
            good = False
            why.append('update `%s` is not `&= (other.kind == Leaf)`' % u.text(4))
            continue
        # reached only when this treespec's node is a leaf
        from .traversal import kind_facts
        kf = kind_facts(f, u)
        if ('Leaf', True) not in kf:
            good = False
            why.append('update is not confined to the branch where this node is a leaf')
    ctx.check('IsPrefix/strict-accumulator', good,
              'the accumulator starts true and is and-ed with (other.kind == Leaf) exactly where '
              'this treespec has a leaf',
              'strictness accumulator: %s' % ('; '.join(why) or 'not initialised to true / never updated'),
              f.loc)
    ctx.check('IsPrefix/no-equality-shortcut', not calls_in(f.body, {'EqualTo', 'operator=='} - {'operator=='})
              or not any(c.callee_name() == 'EqualTo' for c in calls_in(f.body)),
              'IsPrefix does not consult EqualTo', 'IsPrefix calls EqualTo', f.loc)


@rule('P4', floor=2, title='the two-treespec matchers pair dict children by key, never by position')
def p4(ctx):
    prog = ctx.cxx()
    # broadcast: other_cur = other_curs[ cast<ssize_t>(DictGetItem(dict, key)) ], key = expected_keys[i]
    f = prog.one('PyTreeSpec::BroadcastToCommonSuffixImpl')
    inits = local_inits(f)
    # the per-child cursor table: a local vector of positions that is subscripted to give the
    # other operand's cursor for the recursive call (found by role: an element of it is assigned
    # to a variable that the recursive call receives)
    rec_args = set()
    for c in calls_in(f.body):
        t = callee_func(prog, f, c)
        if t is not None and t.qualname == f.qualname:
            rec_args |= {member_path(strip_casts(a)) for a in c.call_args() if a is not None}
    idx_uses = []
    for n in f.body.walk():
        if n.kind == 'BinaryOperator' and n.op == '=' and member_path(n.kids[0]) in rec_args:
            r = strip_casts(n.kids[1])
            if r is not None and r.kind == 'CXXOperatorCallExpr' and r.callee_name() == 'operator[]' \
                    and len(r.kids) == 3 and 'vector<' in (r.kids[1].type or ''):
                idx_uses.append(r)
    ctx.require(idx_uses, 'BroadcastToCommonSuffixImpl: no use of the per-child cursor table')
    fkeys = _key_lists(f)
    ctx.require(fkeys is not None, 'BroadcastToCommonSuffixImpl: the two key lists not recognised')
    for i, n in enumerate(idx_uses):
        ix = strip_casts(n.kids[2])
        ok, why = _index_by_key(f, ix, inits, fkeys[0])
        ctx.check('BroadcastToCommonSuffixImpl/dict-children-by-key#%d' % i, ok,
                  'broadcast: the other operand\'s child for a key is found through the key -> '
                  'position map built from its own key list',
                  'broadcast pairs dict children %s: keys of equal sets in a different order '
                  '(unsortable keys keep insertion order) get the wrong partner' % why, n.loc)
    # ... and no dict x dict path gets round the keyed pairing: from the dict arms of the kind
    # switch, the only recursive calls that can be reached are the keyed ones (a `break` into
    # the positional tail shared by the sequence kinds pairs children by position)
    from ..descriptors import kind_edge_filter
    cfg = cfg_of(f)
    sws = kind_switches(f)
    ctx.require(len(sws) >= 1, 'BroadcastToCommonSuffixImpl: no kind switch')
    subj = None
    for k in sws[0].kids[:-1]:
        if k is not None:
            subj = member_path(strip_casts(k))
    ctx.require(subj is not None and subj.endswith('.kind'), 'BroadcastToCommonSuffixImpl: switch subject not recognised')
    parent = enclosing_map(f.body)
    keyed_loops = set()
    for n in idx_uses:
        ls = [a for a in ancestors(n, parent) if a.kind in LOOP_KINDS]
        if ls:
            keyed_loops.add(id(ls[0]))
    rec = [c for c in calls_in(f.body) if callee_func(prog, f, c) is not None and
           callee_func(prog, f, c).qualname == f.qualname]
    ctx.require(len(rec) >= 2, 'BroadcastToCommonSuffixImpl: %d recursive calls' % len(rec))
    for kind in ('Dict', 'OrderedDict', 'DefaultDict'):
        reach = cfg.reachable_from([cfg.entry.idx], kind_edge_filter(cfg, kind, subj))
        pos = [c for c in rec if cfg.cnode_of(c) in reach and
               not any(id(a) in keyed_loops for a in ancestors(c, parent) if a.kind in LOOP_KINDS)]
        ctx.check('BroadcastToCommonSuffixImpl/%s/only-keyed-recursion' % kind, not pos,
                  'broadcast: a %s node reaches only the recursive call inside the keyed loop' % kind,
                  'broadcast: a %s node can reach the positional recursive call at %s without '
                  'going through the key -> position map: children of equal key sets stored in a '
                  'different order are paired with the wrong partner'
                  % (kind, pos[0].loc if pos else '?'), pos[0].loc if pos else f.loc)
    g = prog.one('PyTreeSpec::IsPrefix')
    ginits = local_inits(g)
    emps = [c for c in calls_in(g.body, {'emplace'}) if
            re.search(r'unordered_map<(long|ssize_t|optree::ssize_t), ?(long|ssize_t|optree::ssize_t)',
                      (c.call_base().type if c.call_base() is not None else '') or '')]
    ctx.require(emps, 'IsPrefix: re-ordering index map not found')
    gkeys = _key_lists(g)
    ctx.require(gkeys is not None, 'IsPrefix: the two key lists not recognised')
    for i, c in enumerate(emps):
        a = c.call_args()
        ok, why = _index_by_key(g, strip_casts(a[1]), ginits, gkeys[0])
        ctx.check('IsPrefix/dict-children-by-key#%d' % i, ok,
                  'IsPrefix: the re-ordering maps each of this treespec\'s keys to the position '
                  'of the same key in the other treespec',
                  'IsPrefix re-orders dict children %s' % why, c.loc)
    # the position map itself: dict[other_keys[i]] = i
    for fn_, keys_ in ((f, fkeys), (g, gkeys)):
        sets = [c for c in calls_in(fn_.body, {'DictSetItem'})]
        okm = any(len(c.call_args()) == 3 and
                  re.search(r'\b%s\b' % re.escape(keys_[1]), c.call_args()[1].text(5)) and
                  'int_' in c.call_args()[2].text(4) for c in sets)
        ctx.check('%s/position-map' % short(fn_).split('::')[-1], okm,
                  '%s builds the key -> position map from the other node\'s key list' % short(fn_),
                  '%s: key -> position map not recognised' % short(fn_), fn_.loc)


def _key_lists(f):
    """(this node's key list, the other node's key list): the two locals that read a key list out
    of `node_data`; the other node's list is the one the key -> position map is built from"""
    lists = [v.name for v in f.body.find('VarDecl') if v.kids and v.kids[-1] is not None and
             'node_data' in v.kids[-1].text(8) and 'list' in (v.type or '')]
    lists = list(dict.fromkeys(lists))
    if len(lists) != 2:
        return None
    other = [l for l in lists
             if any(len(c.call_args()) == 3 and re.search(r'\b%s\b' % re.escape(l), c.call_args()[1].text(5))
                    for c in calls_in(f.body, {'DictSetItem'}))]
    if len(other) != 1:
        return None
    return [l for l in lists if l != other[0]][0], other[0]


def _index_by_key(f, ix, inits, expected='expected_keys', depth=0):
    """ix is cast<ssize_t>(DictGetItem(dict, key)) with key read from the expected key list"""
    if ix is None or depth > 3:
        return False, 'by an unrecognised index'
    if ix.kind == 'ConditionalOperator':
        return False, 'by position on one branch of `%s`' % ix.text(4)
    if ix.kind in CALL_KINDS and ix.callee_name() in ('cast', 'thread_safe_cast'):
        inner = strip_casts(ix.call_args()[0])
        if inner is not None and inner.kind in CALL_KINDS and inner.callee_name() in ('DictGetItem', 'DictGetItemAs'):
            key = strip_casts(inner.call_args()[1])
            kp = member_path(key)
            src = inits.get(kp) if kp else key
            txt = (src.text(6) if src is not None else '')
            if re.search(r'\b%s\b' % re.escape(expected), txt) and ('ListGetItem' in txt or 'operator*' in txt):
                return True, ''
            return False, 'through a key that is not read from this node\'s key list (%s)' % txt[:60]
        return False, 'by `%s`' % ix.text(4)
    p = member_path(ix)
    if p and p in inits:
        return _index_by_key(f, strip_casts(inits[p]), inits, expected, depth + 1)
    return False, 'by `%s` (a position, not a key lookup)' % ix.text(4)


P5_FUNCS = ('PyTreeSpec::EqualTo', 'PyTreeSpec::IsPrefix', 'PyTreeSpec::BroadcastToCommonSuffix',
            'PyTreeSpec::Compose')


@rule('P5', floor=4, title='operations on two treespecs reject differing none_is_leaf and conflicting namespaces - and nothing else')
def p5(ctx):
    """A treespec pair is compatible when the none_is_leaf flags agree and the namespaces agree or
    one of them is empty.  In every binary operation the incompatible outcome of each test leads
    to the rejection (return false / throw) without reaching the node-by-node work, and the
    compatible outcomes (equal flags; an empty namespace; equal namespaces) all reach it."""
    prog = ctx.cxx()
    from .common import strip_casts, unnegate, emptiness_test
    for name in P5_FUNCS:
        f = prog.one(name)
        cfg = cfg_of(f)
        others = [p[0] for p in f.params if 'PyTreeSpec' in (p[1] or '')]
        ctx.require(len(others) == 1, '%s: the other treespec parameter not recognised' % inst(f))
        o = others[0]
        # the work: the first loop over nodes (all four walk the node arrays); for a function
        # without a loop of its own, the call that does the walking
        heads = sorted({w for (v, w) in cfg.back_edges})
        work = heads[:1]
        if not work:
            for c in calls_in(f.body):
                t = callee_func(prog, f, c)
                if t is not None and t.record == f.record and t.name.endswith('Impl'):
                    work = [cfg.cnode_of(c)]
                    break
        ctx.require(work and work[0] is not None, '%s: the node-by-node work not located' % inst(f))
        work = work[0]

        def paths(e):
            return member_path(strip_casts(e)) if e is not None else None

        def classify(e):
            """('flag'|'ns', differ-outcome) or ('empty', which, empty-outcome) or None"""
            base, pos = unnegate(e)
            if base is None:
                return None
            ops = None
            if base.kind == 'BinaryOperator' and base.op in ('==', '!=') and len(base.kids) == 2:
                ops = (base.op, base.kids[0], base.kids[1])
            elif base.kind == 'CXXOperatorCallExpr' and base.callee_name() in ('operator==', 'operator!=') and \
                    len(base.kids) == 3:
                ops = (base.callee_name()[-2:], base.kids[1], base.kids[2])
            if ops:
                a, b = paths(ops[1]), paths(ops[2])
                for fld, tag in (('m_none_is_leaf', 'flag'), ('m_namespace', 'ns')):
                    if {a, b} == {fld, '%s.%s' % (o, fld)} or {a, b} == {'this.' + fld, '%s.%s' % (o, fld)}:
                        differ = (ops[0] == '!=')
                        return tag, (differ if pos else not differ)
            et = emptiness_test(e, lambda b: paths(b) in ('m_namespace', 'this.m_namespace',
                                                          '%s.m_namespace' % o))
            if et is not None:
                return 'empty', et[0], ('other' if (paths(et[1]) or '').startswith(o + '.') else 'this')
            return None
        found = {'flag': [], 'ns': [], 'empty': []}
        empties = []
        for cn in cfg.nodes:
            if cn.kind != 'cond' or cn.ast is None:
                continue
            c = classify(cn.ast)
            if c is not None:
                found[c[0]].append((cn, c[1]))
                if c[0] == 'empty':
                    empties.append((cn, c[1], c[2]))
        problems = []
        for tag, label in (('flag', 'none_is_leaf'), ('ns', 'namespace')):
            if not found[tag]:
                problems.append('no comparison of the two %s values' % label)
            for cn, differ in found[tag]:
                bad = cfg.reachable_from([w for (w, lab) in cfg.succ[cn.idx] if lab is differ])
                good = cfg.reachable_from([w for (w, lab) in cfg.succ[cn.idx] if lab is (not differ)])
                if work in bad:
                    problems.append('differing %s values reach the node-by-node work (`%s`)' % (label, cn.ast.text(4)))
                if work not in good:
                    problems.append('equal %s values are rejected (`%s`)' % (label, cn.ast.text(4)))
                if not cfg.dominates(cn.idx, work) and tag == 'flag':
                    problems.append('the %s comparison is not made on every path to the work' % label)
        for cn, empty_outcome in found['empty']:
            good = cfg.reachable_from([w for (w, lab) in cfg.succ[cn.idx] if lab is empty_outcome])
            if work not in good:
                problems.append('an empty namespace is rejected (`%s`)' % cn.ast.text(4))
        # an empty namespace on either side is a wildcard: the comparison is reached only when
        # both are non-empty
        for which in ('this', 'other'):
            def nonempty_edge(v, w, lab, which=which):
                for cn_, empty_outcome, wh in empties:
                    if cn_.idx == v and wh == which and lab is (not empty_outcome) and lab in (True, False):
                        return True
                return False
            r = cfg.reachable_from([cfg.entry.idx], nonempty_edge)
            hit = [cn for cn, _ in found['ns'] if cn.idx in r]
            if hit:
                problems.append('the namespaces are compared although %s namespace may be empty (a wildcard)'
                                % ('this treespec\'s' if which == 'this' else 'the other treespec\'s'))
        # with both namespaces non-empty the comparison cannot be skipped
        if found['ns']:
            nsn = {cn.idx for cn, _ in found['ns']}

            def skip(v, w, lab):
                cnv = cfg.nodes[v]
                if cnv.kind != 'cond' or cnv.ast is None:
                    return False
                c = classify(cnv.ast)
                return c is not None and c[0] == 'empty' and lab is c[1]      # drop the "is empty" edges
            r = cfg.reachable_from([cfg.entry.idx], skip, nsn)
            if work in r:
                problems.append('two non-empty namespaces can reach the work without being compared')
        ctx.check('%s/compatibility' % short(f), not problems,
                  '%s rejects exactly differing none_is_leaf and two different non-empty namespaces' % inst(f),
                  '%s: %s' % (inst(f), '; '.join(problems)), f.loc)
