"""Rules over the per-kind arm matrix: K3 arm-descriptor agreement, K4 order parity, K7 validation
parity, M1 metadata writers agree, M2 reader is the inverse, M3 original key order, M6 subtree
slice idiom, M7 ordered-dict enumeration, T4 one-level twin."""
from __future__ import annotations

import ast
import re

from ..engine import rule
from ..cxx_ir import CALL_KINDS, CTOR_KINDS
from ..cfg import cfg_of, const_eval, switch_arms
from ..descriptors import arm_descriptors, ArmWalker, Descriptor, self_names_of, loop_direction
from ..effects import external_effects
from ..py_frontend import dotted, call_name, calls_under, walk, is_name, src, pmatch
from .common import (short, inst, live_funcs, calls_in, callee_func, member_path, enclosing_map,
                     ancestors, kind_switches, local_inits, strip_casts, ALL_KINDS, if_outcome, unnegate)

CONTAINER_KINDS = ['Tuple', 'List', 'Dict', 'NamedTuple', 'OrderedDict', 'DefaultDict', 'Deque',
                   'StructSequence', 'Custom']
FORWARD = ['PyTreeSpec::FlattenIntoImpl', 'PyTreeSpec::FlattenIntoWithPathImpl',
           'PyTreeIter::NextImpl', 'PyTreeSpec::MakeFromCollectionImpl']
SPEC_DRIVEN = ['PyTreeSpec::FlattenUpTo']
WRITERS = ['PyTreeSpec::FlattenIntoImpl', 'PyTreeSpec::FlattenIntoWithPathImpl',
           'PyTreeSpec::MakeFromCollectionImpl']


def _insts(prog, name):
    return sorted([f for f in prog.by_suffix(name) if not f.dependent], key=lambda f: f.targs)


def _matrix(ctx, prog, names):
    out = {}
    for name in names:
        fs = _insts(prog, name)
        ctx.require(fs, 'no definition of %s' % name)
        for f in fs:
            d = arm_descriptors(prog, f)
            ctx.require(len(d) >= 8, '%s: kind switch with %d arms' % (inst(f), len(d)))
            out[f.key] = (f, d)
    return out


def _norm_reads(desc):
    """set of (accessor, container class) through which children are obtained"""
    out = set()
    for acc, cont, idx in desc.child_reads:
        if cont.startswith('SPEC.node_entries') or cont == 'OUT2':
            continue        # path entries, not children
        out.add((acc, cont))
    loop = desc.child_loop
    if loop and loop[0] == 'ITER' and loop[1] and not out:
        out.add(('ITER', loop[1]))
    return out


def _child_equiv(a):
    """ITER over OUT0 is the same enumeration as indexing tuple(OUT0)"""
    out = set()
    for acc, cont in a:
        if cont == 'OUT0':
            out.add(('ENUM', 'OUT0'))
        else:
            out.add((acc, cont))
    return out


def _keys_norm(pipeline, builds_node):
    p = [x for x in pipeline if x != 'REVERSE']
    p = [x for x in p if not x.startswith('ORIG=')]
    return p


@rule('K3', floor=60, title='sibling traversals enumerate the children of every kind the same way')
def k3(ctx):
    prog = ctx.cxx()
    mats = _matrix(ctx, prog, FORWARD + SPEC_DRIVEN)
    ref_name = 'PyTreeSpec::FlattenIntoImpl'
    for kind in CONTAINER_KINDS:
        # reference cells: all instantiations of the plain flatten
        for key, (f, d) in sorted(mats.items(), key=lambda kv: str(kv[0])):
            if short(f) != ref_name:
                continue
            if kind not in d:
                continue        # K1 reports the missing arm
            ref = d[kind]
            ref_variant = f
            for key2, (g, d2) in sorted(mats.items(), key=lambda kv: str(kv[0])):
                if short(g) == ref_name:
                    continue
                # compare like with like: same NoneIsLeaf where both are templated on it, and
                # the sorted-mode variant of flatten with the runtime-guarded siblings
                if f.targ('NoneIsLeaf') is not None and g.targ('NoneIsLeaf') is not None and \
                        f.targ('NoneIsLeaf') != g.targ('NoneIsLeaf'):
                    continue
                if g.targ('DictShouldBeSorted') is not None and \
                        g.targ('DictShouldBeSorted') != f.targ('DictShouldBeSorted'):
                    continue
                if g.targ('DictShouldBeSorted') is None and f.targ('DictShouldBeSorted') not in ('-1', '1'):
                    continue
                if kind not in d2:
                    continue
                other = d2[kind]
                site = '%s~%s/%s' % (ref_name.split('::')[-1], short(g).split('::')[-1], kind)
                diffs = []
                ra, rb = _child_equiv(_norm_reads(ref)), _child_equiv(_norm_reads(other))
                spec_driven = short(g) in SPEC_DRIVEN
                if spec_driven:
                    # the spec-driven matcher reads the same container class with the same
                    # accessor; keys come from the treespec instead of the object
                    ra2 = {(a, c) for a, c in ra}
                    rb2 = {(a, c) for a, c in rb}
                    if {a for a, _ in ra2} != {a for a, _ in rb2} or \
                            {c for _, c in ra2} != {c for _, c in rb2}:
                        diffs.append('children read via %s vs %s' % (sorted(ra), sorted(rb)))
                else:
                    if ra != rb:
                        diffs.append('children read via %s vs %s' % (sorted(ra), sorted(rb)))
                    ka = _keys_norm(ref.key_pipeline, True)
                    kb = _keys_norm(other.key_pipeline, False)
                    if ka != kb:
                        diffs.append('key pipeline %s vs %s' % (ref.key_pipeline, other.key_pipeline))
                    if g.targ('DictShouldBeSorted') is None:
                        for e in other.all('sort'):
                            if not any(re.search(r'insertion_ordered|IsDictInsertionOrdered', x)
                                       for x in e[2]):
                                diffs.append('the key sort is not guarded by the dict-order mode '
                                             '(guards: %s)' % (e[2],))
                    aa, ab = ref.arity, other.arity
                    if aa and ab and _arity_class(aa) != _arity_class(ab):
                        diffs.append('arity from %s vs %s' % (aa, ab))
                ctx.check(site, not diffs,
                          '%s and %s agree on the %s arm (%s)' % (inst(f), inst(g), kind, sorted(ra)),
                          '%s vs %s, %s arm: %s' % (inst(f), inst(g), kind, '; '.join(diffs)),
                          g.loc)


def _arity_class(a):
    if a == 'COUNTED':
        return 'OUT0'
    m = re.match(r'\w+\((.*)\)$', a)
    c = m.group(1) if m else a
    # entries (OUT2) and children (OUT0) have equal length once K7's entries-count test passed
    return {'OUT0': 'OUT0', 'OUT2': 'OUT0'}.get(c, c)


# ---------------------------------------------------------------------------------------------
def _discipline(prog, f):
    """how the function walks: 'recursive' | 'lifo' | 'lifo-reverse-spec' | 'reverse-recursive' |
    'collect'"""
    fam = [f] + prog.lambdas_of(f)
    recursive = any(callee_func(prog, g, c) is not None and
                    callee_func(prog, g, c).qualname == f.qualname
                    for g in fam for c in calls_in(g.body))
    body_txt_calls = {c.callee_name() for c in calls_in(f.body)}
    uses_cr = 'crbegin' in body_txt_calls
    pops = [c for c in calls_in(f.body, {'pop_back'})]
    backs = [c for c in calls_in(f.body, {'back'})]
    agenda_pop = any((member_path(c.call_base()) or '').split('.')[-1] in ('m_agenda', 'agenda') for c in pops)
    if recursive:
        # reverse recursion walks `cur` downwards from pos - 1
        if any(p[0] == 'pos' for p in f.params):
            return 'reverse-recursive'
        return 'recursive'
    if agenda_pop and uses_cr:
        return 'lifo-reverse-spec'
    if agenda_pop:
        return 'lifo'
    return 'collect'


EXPECTED_DIR = {
    'recursive': {'ASC', 'KEYS', 'ITER'},
    'collect': {'ASC', 'KEYS', 'ITER'},
    'lifo': {'DESC', 'KEYS_REV'},
    'lifo-reverse-spec': {'ASC', 'KEYS', 'ITER'},
    'reverse-recursive': {'DESC'},
}


def _effective_dir(desc):
    loop = desc.child_loop
    if loop is None:
        return None
    d, over = loop
    pushed_reversed = bool(desc.all('reverse-pushed'))
    if d == 'ITER' and over and (over.startswith('KEYS(') or over.startswith('SPEC.node_data')):
        if desc.reverse_on_every_path is False:
            return 'KEYS reversed on some paths only'
        rev = ('REVERSE' in desc.key_pipeline) != pushed_reversed
        return 'KEYS_REV' if rev else 'KEYS'
    if pushed_reversed:
        # children pushed in forward order, then the pushed segment is reversed
        return {'ASC': 'DESC', 'ITER': 'DESC', 'DESC': 'ASC'}.get(d, d)
    return d


@rule('K4', floor=45, title='every traversal visits children in the direction its discipline needs for left-to-right leaves')
def k4(ctx):
    prog = ctx.cxx()
    names = FORWARD + SPEC_DRIVEN
    mats = _matrix(ctx, prog, names)
    for key, (f, d) in sorted(mats.items(), key=lambda kv: str(kv[0])):
        disc = _discipline(prog, f)
        for kind in CONTAINER_KINDS:
            if kind not in d:
                continue
            eff = _effective_dir(d[kind])
            site = '%s/%s' % (short(f), kind)
            ctx.check(site, eff in EXPECTED_DIR[disc],
                      '%s (%s): %s children are visited %s' % (inst(f), disc, kind, eff),
                      '%s is a %s traversal but visits %s children in direction %s (needs %s): '
                      'leaves of that kind come out right-to-left'
                      % (inst(f), disc, kind, eff, sorted(EXPECTED_DIR[disc])), f.loc)
    # reverse walkers over the node array: descending loops + a final std::reverse in the caller
    for impl, caller, result in (('PyTreeSpec::PathsImpl', 'PyTreeSpec::Paths', 'paths'),
                                 ('PyTreeSpec::AccessorsImpl', 'PyTreeSpec::Accessors', 'accessors'),
                                 ('PyTreeSpec::BroadcastToCommonSuffixImpl',
                                  'PyTreeSpec::BroadcastToCommonSuffix', 'm_traversal')):
        for f in _insts(prog, impl):
            loops = [l for l in f.body.find('ForStmt')]
            dirs = []
            for l in loops:
                init, condvar, cond, inc, body = (l.kids + [None] * 5)[:5]
                rec = [c for c in calls_in(body) if
                       (callee_func(prog, f, c) is not None and
                        (callee_func(prog, f, c).qualname == f.qualname or
                         callee_func(prog, f, c).is_lambda))]
                if rec:
                    dirs.append((loop_direction(init, cond, inc), l))
            ctx.require(dirs, '%s: no child loop found' % inst(f))
            bad = [l for d_, l in dirs if d_ != 'DESC']
            ctx.check('%s/descending' % short(f), not bad,
                      '%s: all %d child loops run from the last child to the first (the node '
                      'array is walked backwards)' % (inst(f), len(dirs)),
                      '%s: a child loop does not run descending while the node array is walked '
                      'backwards' % inst(f), (bad[0].loc if bad else f.loc))
        c = prog.one(caller)
        revs = [x for x in calls_in(c.body, {'reverse'})]
        ok = any(result in x.text(6) for x in revs)
        ctx.check('%s/final-reverse' % short(c), ok,
                  '%s reverses the collected %s once at the end' % (short(c), result),
                  '%s does not reverse the result of its backwards walk: %s come out in reverse '
                  'leaf order' % (short(c), result), c.loc)
    # children()/child(): index-addressed, both walk from the last child
    ch = prog.one('PyTreeSpec::Children')
    loops = ch.body.find('ForStmt')
    ok = len(loops) == 1 and loop_direction(*(loops[0].kids + [None] * 5)[:3:1][0:1] +
                                            [loops[0].kids[2], loops[0].kids[3]]) == 'DESC'
    ctx.check('PyTreeSpec::Children/descending', ok,
              'Children() walks from the last child (pos decreases) and stores by index',
              'Children() does not walk the children backwards while `pos` decreases', ch.loc)


# ---------------------------------------------------------------------------------------------
@rule('K7', floor=5, title='every call site of a custom flatten function validates the result the same way')
def k7(ctx):
    prog = ctx.cxx()
    mats = _matrix(ctx, prog, FORWARD + SPEC_DRIVEN)
    seen = set()
    for key, (f, d) in sorted(mats.items(), key=lambda kv: str(kv[0])):
        desc = d['Custom']
        if short(f) in seen:
            pass
        site = short(f) + '/Custom'
        vals = desc.validations
        len_ok = any(re.search(r'len\(OUT\) != 2\).*len\(OUT\) != 3\)', v[0]) and v[1] == 'runtime_error'
                     for v in vals)
        reads_entries = any('OUT2' in str(e[1:-1]) for e in desc.events) or \
            any('OUT2' in str(v) for v in desc.w.alias.values())
        ent_ok = True
        if reads_entries:
            ent_ok = any(v[1] == 'runtime_error' and re.search(r'(!=|>=) (arity|len\(OUT0\))', v[0])
                         for v in vals)
        # the length test precedes every read of the tuple's elements
        first_read = None
        len_pos = None
        for i, e in enumerate(desc.events):
            if e[0] == 'validate' and 'len(OUT) != 2' in e[1] and len_pos is None:
                len_pos = i
            if first_read is None and any(isinstance(x, str) and re.search(r'OUT[012]', x) for x in e[1:3]
                                          if isinstance(x, str)) and e[0] != 'validate':
                first_read = i
        order_ok = len_pos is not None and (first_read is None or len_pos < first_read)
        ctx.check(site + '/length', len_ok and order_ok,
                  '%s: a result that is not a 2- or 3-tuple raises RuntimeError before any element '
                  'is used' % inst(f),
                  '%s: the 2-or-3 length test (std::runtime_error) is missing or comes after the '
                  'first element read (validations: %s)' % (inst(f), vals), f.loc)
        # the entries element is an arbitrary iterable: every site converts it with tuple(...)
        # before counting or indexing it, and uses the raw object for nothing but the None test
        if reads_entries:
            # (the arm itself, and every helper the arm walker looked through, with the names that
            # stood for the entries element there)
            scopes = [(f.body, {k for k, v in desc.w.alias.items() if v == 'OUT2' and '.' not in k})]
            for callee, al in getattr(desc.w, 'frames', ()):
                if callee.body is not None and not any(callee.body is b for b, _ in scopes):
                    scopes.append((callee.body, {k for k, v in al.items() if v == 'OUT2' and '.' not in k}))
            raw_uses = []
            nuse = 0
            for body_, raw_names in scopes:
              if not raw_names:
                continue
              parent = enclosing_map(body_)
              for n in body_.walk():
                if n.kind != 'DeclRefExpr' or (n.ref or {}).get('name') not in raw_names:
                    continue
                nuse += 1
                p = parent.get(id(n))
                while p is not None and p.kind in ('MemberExpr', 'ParenExpr'):
                    q = parent.get(id(p))
                    if q is not None and q.kind == 'CXXMemberCallExpr' and q.callee_name() == 'is_none':
                        p = None
                        break
                    p = q
                if p is None:
                    continue        # <x>.is_none()
                if p.kind in CALL_KINDS and p.callee_name() in ('thread_safe_cast', 'cast') and \
                        'tuple' in (p.type or ''):
                    continue        # tuple(<x>)
                if p.kind == 'CXXOperatorCallExpr' and p.callee_name() == 'operator=' and \
                        len(p.kids) > 1 and p.kids[1] is n:
                    continue        # <x> = ...
                if p.kind in CTOR_KINDS and 'scoped_critical_section' in (p.type or ''):
                    continue        # lock guard over the object
                raw_uses.append((n, p))
            ctx.check(site + '/entries-converted', nuse > 0 and not raw_uses,
                      '%s: the entries element is only tested for None and converted with '
                      'tuple(...) (any iterable is accepted, as at the sibling sites)' % inst(f),
                      '%s: the entries element is used as it came from the flatten function (%s): an '
                      'iterable that the sibling traversals accept through tuple(...) is treated '
                      'differently here' % (inst(f), raw_uses[0][1].text(4)[:80] if raw_uses else 'no use found'),
                      raw_uses[0][0].loc if raw_uses else f.loc)
        ctx.check(site + '/entries-count', ent_ok,
                  '%s: %s' % (inst(f), 'entries count is compared with the number of children '
                              '(RuntimeError)' if reads_entries else 'does not read the entries element'),
                  '%s reads the entries element but never compares its length with the number of '
                  'children (validations: %s)' % (inst(f), vals), f.loc)


# ---------------------------------------------------------------------------------------------
META_SHAPE = {
    'Tuple': None, 'List': None,
    'Dict': 'KEYS(SELF)', 'OrderedDict': 'KEYS(SELF)',
    'DefaultDict': 'TUPLE[ATTR(SELF,default_factory),KEYS(SELF)]',
    'NamedTuple': 'TYPEOF(SELF)', 'StructSequence': 'TYPEOF(SELF)',
    'Deque': 'ATTR(SELF,maxlen)', 'Custom': 'OUT1',
}


@rule('M1', floor=27, title='all producers of a node store the same metadata shape for each kind')
def m1(ctx):
    prog = ctx.cxx()
    mats = _matrix(ctx, prog, WRITERS)
    for key, (f, d) in sorted(mats.items(), key=lambda kv: str(kv[0])):
        for kind in CONTAINER_KINDS:
            if kind not in d:
                continue
            desc = d[kind]
            site = '%s/%s' % (short(f), kind)
            want = META_SHAPE[kind]
            ctx.check(site + '/node_data', desc.meta == want,
                      '%s: %s node_data is %s' % (inst(f), kind, want),
                      '%s: %s node_data is %s, the other producers and the reader use %s'
                      % (inst(f), kind, desc.meta, want), f.loc)
            if kind in ('Dict', 'DefaultDict', 'OrderedDict'):
                orig = [e for e in desc.all('store') if e[1] == 'original_keys']
                want_o = (kind != 'OrderedDict')
                ok = bool(orig) == want_o and all(e[2] == 'COPYOF(KEYS(SELF))' for e in orig)
                ctx.check(site + '/original_keys', ok,
                          '%s: %s %s' % (inst(f), kind,
                                         'stores a copy of the key list as original_keys'
                                         if want_o else 'stores no original_keys (its order is its own)'),
                          '%s: %s original_keys is %s' % (inst(f), kind,
                                                          [e[2] for e in orig] or 'not stored'),
                          f.loc)
            if kind == 'Custom':
                ent = desc.entries_store
                ctx.check(site + '/node_entries', ent == 'OUT2',
                          '%s: custom node_entries is element 2 of the flatten result' % inst(f),
                          '%s: custom node_entries is %s' % (inst(f), ent), f.loc)
            # arity comes from the container whose children are enumerated
            ar = desc.arity
            reads = {c for _, c in _child_equiv(_norm_reads(desc))}
            ac = _arity_class(ar) if ar else None
            if kind in ('Dict', 'OrderedDict', 'DefaultDict'):
                ok = ac == 'SELF'
            elif kind == 'Custom':
                ok = ac in ('OUT0', 'OUT2')
            else:
                ok = ac in reads
            ctx.check(site + '/arity-source', ok,
                      '%s: %s arity is taken from the container that is enumerated (%s)'
                      % (inst(f), kind, ar),
                      '%s: %s arity comes from %s but children are read from %s'
                      % (inst(f), kind, ar, sorted(reads)), f.loc)


@rule('M2', floor=9, title='MakeNode reads each kind\'s metadata through the inverse of what the writers stored')
def m2(ctx):
    prog = ctx.cxx()
    f = prog.one('PyTreeSpec::MakeNode')
    d = arm_descriptors(prog, f)
    ctx.require(len(d) >= 11, 'MakeNode: %d arms' % len(d))

    def pycalls(kind):
        return [e for e in d[kind].events if e[0] in ('pycall', 'call-unflatten')]
    # Deque: deque(list, maxlen=node_data)
    pc = pycalls('Deque')
    ok = any(e[0] == 'pycall' and 'ImportDeque' in e[3].text(6) and
             any(a == 'kw:maxlen=SPEC.node_data' for a in e[2]) for e in pc)
    ctx.check('MakeNode/Deque', ok,
              'deque is rebuilt as deque(children, maxlen=node_data) (writer stored getattr(obj, "maxlen"))',
              'MakeNode does not pass node_data as `maxlen=` to deque: %s' % [e[2] for e in pc], f.loc)
    # DefaultDict: defaultdict(node_data[0], dict) with keys node_data[1]
    pc = pycalls('DefaultDict')
    ok = any(e[0] == 'pycall' and 'ImportDefaultDict' in e[3].text(6) and e[2] and
             e[2][0] == 'SPEC.node_data[0]' for e in pc)
    keys_from = [e for e in d['DefaultDict'].events if e[0] == 'child-read' and e[1] == 'ListGetItem']
    ok2 = any(e[2] == 'SPEC.node_data[1]' for e in keys_from)
    ctx.check('MakeNode/DefaultDict', ok and ok2,
              'defaultdict is rebuilt as defaultdict(node_data[0], {node_data[1][i]: child_i}) - '
              'the inverse of make_tuple(default_factory, keys)',
              'MakeNode reads defaultdict metadata as factory=%s keys=%s'
              % ([e[2][:1] for e in pc], sorted({e[2] for e in keys_from})), f.loc)
    for kind in ('Dict', 'OrderedDict'):
        keys_from = [e for e in d[kind].events if e[0] == 'child-read' and e[1] == 'ListGetItem']
        ok = any(e[2] == 'SPEC.node_data' for e in keys_from)
        ctx.check('MakeNode/' + kind, ok,
                  '%s keys are node_data itself' % kind,
                  'MakeNode reads %s keys from %s' % (kind, sorted({e[2] for e in keys_from})), f.loc)
    pc = pycalls('OrderedDict')
    ctx.check('MakeNode/OrderedDict/type', any('ImportOrderedDict' in e[3].text(6) for e in pc),
              'OrderedDict is rebuilt through collections.OrderedDict', None, f.loc)
    # NamedTuple: node_data(*children); StructSequence: node_data(children)
    pc = pycalls('NamedTuple')
    ok = any(e[0] == 'pycall' and e[1] == 'SPEC.node_data' and e[2] and e[2][0].startswith('*') for e in pc)
    ctx.check('MakeNode/NamedTuple', ok,
              'namedtuple is rebuilt as node_data(*children) (writer stored the class)',
              'MakeNode does not call node_data(*children) for namedtuple: %s' % [(e[1], e[2]) for e in pc],
              f.loc)
    pc = pycalls('StructSequence')
    ok = any(e[0] == 'pycall' and e[1] == 'SPEC.node_data' and len(e[2]) == 1 and not e[2][0].startswith('*')
             for e in pc)
    ctx.check('MakeNode/StructSequence', ok,
              'struct sequence is rebuilt as node_data(children_tuple)',
              'MakeNode does not call node_data(tuple) for struct sequences: %s' % [(e[1], e[2]) for e in pc],
              f.loc)
    pc = pycalls('Custom')
    ok = any(e[0] == 'call-unflatten' and e[1] and e[1][0] == 'SPEC.node_data' for e in pc)
    ctx.check('MakeNode/Custom', ok,
              'custom nodes are rebuilt as unflatten_func(node_data, children)',
              'MakeNode does not call unflatten_func(node_data, children): %s' % [e[1] for e in pc], f.loc)
    for kind in ('Tuple', 'List'):
        pc = pycalls(kind)
        ctx.check('MakeNode/' + kind, not pc,
                  '%s is rebuilt without calling into Python' % kind,
                  'MakeNode calls %s for %s' % ([e[1] for e in pc], kind), f.loc)
    # arity == number of children supplied (stack discipline)
    cfg = cfg_of(f)
    ar = [cn for cn in cfg.nodes if cn.kind == 'cond' and cn.ast is not None and
          'num_children' in cn.ast.text(5) and 'arity' in cn.ast.text(5)]
    ctx.check('MakeNode/arity-check', bool(ar),
              'MakeNode asserts num_children == node.arity', 'the arity assertion is gone', f.loc)
    # unflatten stack machine: slice start and resize use the same expression
    for g in _insts(prog, 'PyTreeSpec::UnflattenImpl') + _insts(prog, 'PyTreeSpec::WalkImpl'):
        mk = calls_in(g.body, {'MakeNode'})
        ok = False
        if mk:
            a = mk[0].call_args()
            start = None
            cont = None
            for s in a[1].walk():
                if s.kind == 'CXXOperatorCallExpr' and s.callee_name() == 'operator[]':
                    start = s.kids[2].text(4)
                    cont = member_path(s.kids[1])
            # the work list that is sliced is the one that is cut back
            rs = [c for c in calls_in(g.body, {'resize'})
                  if cont is not None and (member_path(c.call_base()) or '') == cont]
            ar = strip_casts(a[2])
            ok = start is not None and bool(rs) and start == rs[0].call_args()[0].text(4) and \
                ar is not None and ar.kind == 'MemberExpr' and ar.name == 'arity' and \
                member_path(ar.kids[0]) == member_path(strip_casts(a[0]))
        ctx.check('%s/stack' % short(g), ok,
                  '%s: a node consumes agenda[size - arity ..] and the agenda is cut back to '
                  'size - arity (same expression), then the result is pushed' % inst(g),
                  '%s: slice start and resize target differ, or arity is not node.arity' % inst(g),
                  g.loc)


@rule('M3', floor=7, title='insertion order is captured before sorting and re-imposed before filling')
def m3(ctx):
    prog = ctx.cxx()
    mats = _matrix(ctx, prog, WRITERS)
    for key, (f, d) in sorted(mats.items(), key=lambda kv: str(kv[0])):
        for kind in ('Dict', 'DefaultDict'):
            desc = d[kind]
            pipe = desc.key_pipeline
            site = '%s/%s/copy-before-sort' % (short(f), kind)
            orig = [i for i, x in enumerate(pipe) if x.startswith('ORIG=')]
            sort = [i for i, x in enumerate(pipe) if x == 'SORT']
            ok = bool(orig) and pipe[orig[0]] == 'ORIG=COPYOF(KEYS(SELF))' and \
                (not sort or orig[0] < sort[0])
            ctx.check(site, ok,
                      '%s: %s original_keys = copy of the key list, taken before the sort' % (inst(f), kind),
                      '%s: %s key pipeline is %s: original_keys is an alias of the sorted list or '
                      'is taken after sorting - the insertion order is lost' % (inst(f), kind, pipe),
                      f.loc)
    mk = prog.one('PyTreeSpec::MakeNode')
    d = arm_descriptors(prog, mk)
    for kind in ('Dict', 'DefaultDict'):
        sets = [e for e in d[kind].events if e[0] == 'child-read' and e[1] == 'ListGetItem']
        order = [e[2] for e in sets]
        ok = 'SPEC.original_keys' in order and order.index('SPEC.original_keys') < \
            max(i for i, x in enumerate(order) if x.startswith('SPEC.node_data'))
        ctx.check('MakeNode/%s/preseed' % kind, ok,
                  'MakeNode pre-seeds the %s with original_keys before storing the children' % kind,
                  'MakeNode does not pre-seed the %s with original_keys before filling it (reads: %s)'
                  % (kind, order), mk.loc)


# ---------------------------------------------------------------------------------------------
def _slice_idiom(prog, f):
    """normalised (node read, copy range, pos update, guard) of the child-range computation; the
    cursor and the node reference are found by their role (the local that is decremented by a
    node count; the Node reference read at cursor - 1) and spelled POS / NODE in the result"""
    out = {'node': None, 'copy': None, 'update': None, 'guard': None}
    pos = None
    for n in f.body.walk():
        if n.kind == 'CompoundAssignOperator' and n.op == '-=' and 'num_nodes' in n.kids[1].text(4):
            pos = member_path(n.kids[0])
    if pos is None:
        return out
    node = None
    for n in f.body.walk():
        if n.kind == 'VarDecl' and n.kids and 'Node' in (n.type or '') and \
                re.search(r'\b%s\b' % re.escape(pos), n.kids[-1].text(6)):
            node = n.name

    def norm(t):
        t = re.sub(r'\b%s\b' % re.escape(pos), 'POS', t)
        if node:
            t = re.sub(r'\b%s\b' % re.escape(node), 'NODE', t)
        return t
    for n in f.body.walk():
        if n.kind == 'VarDecl' and n.name == node and n.kids:
            out['node'] = norm(n.kids[-1].text(6))
        if n.kind == 'CompoundAssignOperator' and member_path(n.kids[0]) == pos:
            out['update'] = norm('%s %s' % (n.op, n.kids[1].text(4)))
    for c in calls_in(f.body, {'copy'}):
        a = c.call_args()
        if len(a) >= 2:
            out['copy'] = (norm(a[0].text(8)), norm(a[1].text(8)))
    cfg = cfg_of(f)
    for cn in cfg.nodes:
        if cn.kind == 'cond' and cn.ast is not None:
            t = norm(cn.ast.text(6))
            if 'POS' in t and 'num_nodes' in t:
                out['guard'] = t
    return out


@rule('M6', floor=4, title='children() and child() compute child ranges with the same expressions')
def m6(ctx):
    prog = ctx.cxx()
    a = _slice_idiom(prog, prog.one('PyTreeSpec::Children'))
    b = _slice_idiom(prog, prog.one('PyTreeSpec::Child'))
    want = {'node': None, 'copy': None, 'update': '-= NODE.num_nodes', 'guard': None}
    for k in ('node', 'copy', 'update', 'guard'):
        ok = a[k] is not None and a[k] == b[k]
        if k == 'update':
            ok = ok and a[k] == want[k]
        ctx.check('Children~Child/' + k, ok,
                  'Children() and Child() use the same %s expression: %s' % (k, a[k]),
                  'Children() uses %s = %s, Child() uses %s' % (k, a[k], b[k]),
                  prog.one('PyTreeSpec::Child').loc)
    # the copied range is [pos - num_nodes, pos)
    ok = a['copy'] is not None and 'POS' in a['copy'][0] and 'num_nodes' in a['copy'][0] and \
        'num_nodes' not in a['copy'][1] and 'POS' in a['copy'][1]
    ctx.check('Children/range', ok, 'the child range is [pos - node.num_nodes, pos)',
              'the child range is %s' % (a['copy'],), prog.one('PyTreeSpec::Children').loc)


# ---------------------------------------------------------------------------------------------
ORDER_UNAWARE = {'PyDict_Keys', 'PyDict_Values', 'PyDict_Items', 'PyDict_Next'}


def _order_unaware_paths(prog, f, root, depth=0, chain=()):
    """calls (through repo helpers, depth <= 3) of concrete-dict enumeration APIs that can be
    reached with an OrderedDict object: not cut off by an exact-dict / is-OrderedDict type test"""
    out = []
    for c in calls_in(root):
        t = callee_func(prog, f, c)
        nm = c.callee_name()
        if t is None and (nm in ORDER_UNAWARE or _is_pydict_iteration(c)):
            if not _cut_off_for_ordereddict(f, c):
                out.append((chain, c))
        elif t is not None and t.body is not None and depth < 3 and not t.is_lambda and \
                t.key != f.key and c.call_args():
            out += _order_unaware_paths(prog, t, t.body, depth + 1, chain + (short(t),))
    return out


def _is_pydict_iteration(c):
    """`for (item : dict)` / dict.begin() on a py::dict: pybind11's dict iterator is PyDict_Next"""
    if c.kind == 'CXXMemberCallExpr' and c.callee_name() == 'begin':
        b = c.call_base()
        from ..effects import norm_type
        return norm_type(b.type if b is not None else '') == 'py::dict'
    return False


def _type_test(cn):
    """'is-ordereddict' / 'is-exact-dict' if the cond atom tests the object's exact type"""
    if cn.kind != 'cond' or cn.ast is None:
        return None
    txt = cn.ast.text(8)
    if ('Py_IS_TYPE' in txt and 'PyDict_Type' in txt) or 'PyDict_CheckExact' in txt:
        return 'is-exact-dict'
    if 'ImportOrderedDict' in txt and ('.is(' in txt or 'Py_IS_TYPE' in txt or '==' in txt):
        return 'is-ordereddict'
    return None


def _cut_off_for_ordereddict(f, call):
    """every path to `call` passes a type test on the edge that excludes OrderedDict objects"""
    if f.body is None:
        return False
    cfg = cfg_of(f)
    cn = cfg.cnode_of(call)
    if cn is None:
        return True      # statically discarded
    tests = [(n, _type_test(n)) for n in cfg.nodes if _type_test(n)]
    if not tests:
        return False

    def skip(v, w, lab):
        for n, kind in tests:
            if v == n.idx:
                # edges an OrderedDict object can take: exact-dict test false, is-ordereddict true
                if kind == 'is-exact-dict' and lab is True:
                    return True
                if kind == 'is-ordereddict' and lab is False:
                    return True
        return False
    reach = cfg.reachable_from([cfg.entry.idx], skip)
    if cn not in reach:
        return True
    from .traversal import kind_facts
    kf = kind_facts(f, call)
    return ('OrderedDict', False) in kf or any(eq and en in ('Dict', 'DefaultDict') for en, eq in kf)


@rule('M7', floor=4, title='OrderedDict children are enumerated in the OrderedDict\'s own order')
def m7(ctx):
    prog = ctx.cxx()
    n = 0
    for name in FORWARD + SPEC_DRIVEN:
        for f in _insts(prog, name):
            sws = kind_switches(f)
            arms, _ = switch_arms(sws[0])
            stmts = arms.get('OrderedDict')
            ctx.require(stmts, '%s: no OrderedDict arm' % inst(f))
            bad = []
            for s in stmts:
                bad += _order_unaware_paths(prog, f, s)
            n += 1
            site = '%s/OrderedDict' % short(f)
            ctx.check(site, not bad,
                      '%s: the OrderedDict arm enumerates keys through an order-aware path' % inst(f),
                      '%s: the OrderedDict arm obtains its keys via %s, which returns the '
                      'underlying dict\'s storage order and ignores OrderedDict\'s own order '
                      '(move_to_end): leaves come out in the wrong order and the rebuilt '
                      'OrderedDict differs' % (inst(f), ' -> '.join(list(bad[0][0]) + [bad[0][1].callee_name()])
                                               if bad else ''), (bad[0][1].loc if bad else f.loc))
    ctx.require(n >= 4, 'only %d OrderedDict arms found' % n)


# ---------------------------------------------------------------------------------------------
PY_HANDLERS = {
    # kind -> (flatten handler, unflatten handler, expected children source, metadata, entries)
    'Tuple': ('_tuple_flatten', '_tuple_unflatten'),
    'List': ('_list_flatten', '_list_unflatten'),
    'Dict': ('_dict_flatten', '_dict_unflatten'),
    'OrderedDict': ('_ordereddict_flatten', '_ordereddict_unflatten'),
    'DefaultDict': ('_defaultdict_flatten', '_defaultdict_unflatten'),
    'Deque': ('_deque_flatten', '_deque_unflatten'),
    'NamedTuple': ('_namedtuple_flatten', '_namedtuple_unflatten'),
    'StructSequence': ('_structseq_flatten', '_structseq_unflatten'),
}


def _py_flatten_desc(mod, name, depth=0):
    """(children, metadata, entries) descriptor of a Python one-level flatten handler"""
    fn = mod.func(name)
    arg = fn.args.posonlyargs[0].arg if fn.args.posonlyargs else fn.args.args[0].arg
    env = {}
    for s in fn.body:
        if isinstance(s, ast.Assign) and isinstance(s.targets[0], ast.Tuple) and isinstance(s.value, ast.Call):
            cn = call_name(s.value)
            names = [e.id for e in s.targets[0].elts]
            if cn == 'unzip2':
                inner = s.value.args[0]
                it = src(inner)
                order = None
                if it == '%s.items()' % arg:
                    order = 'OWN-ORDER'
                elif it == '_sorted_items(%s.items())' % arg:
                    order = 'SORTED'
                env[names[0]] = ('keys', order)
                env[names[1]] = ('values', order)
            elif cn in mod.funcs and depth < 2:
                sub = _py_flatten_desc(mod, cn, depth + 1)
                for nm, v in zip(names, sub):
                    env[nm] = v
    ret = [s for s in fn.body if isinstance(s, ast.Return)][0].value
    elts = ret.elts if isinstance(ret, ast.Tuple) else [ret]

    def d(e):
        if isinstance(e, ast.Name):
            if e.id == arg:
                return ('self', None)
            return env.get(e.id, ('?', e.id))
        if isinstance(e, ast.Call) and call_name(e) == 'list' and isinstance(e.args[0], ast.Name):
            return ('list',) + tuple(env.get(e.args[0].id, ('?',)))
        if isinstance(e, ast.Call) and call_name(e) == 'type':
            return ('typeof', None)
        if isinstance(e, ast.Attribute) and isinstance(e.value, ast.Name) and e.value.id == arg:
            return ('attr', e.attr)
        if isinstance(e, ast.Tuple):
            return ('tuple',) + tuple(d(x) for x in e.elts)
        if isinstance(e, ast.Constant) and e.value is None:
            return ('none', None)
        return ('?', src(e))
    out = [d(e) for e in elts]
    while len(out) < 3:
        out.append(('none', None))
    return tuple(out)


@rule('T4', floor=16, title='the Python one-level handlers enumerate and store what the engine arm of the same kind does')
def t4(ctx):
    prog = ctx.cxx()
    pkg = ctx.py()
    mod = pkg.mod('optree.registry')
    f = [x for x in _insts(prog, 'PyTreeSpec::FlattenIntoWithPathImpl')
         if x.targ('DictShouldBeSorted') in ('-1', '1') and x.targ('NoneIsLeaf') in ('0',)][0]
    eng = arm_descriptors(prog, f)
    mk = arm_descriptors(prog, prog.one('PyTreeSpec::MakeNode'))
    for kind, (fl, un) in PY_HANDLERS.items():
        c, m, e = _py_flatten_desc(mod, fl)
        ed = eng[kind]
        site = 'registry.%s~engine/%s' % (fl, kind)
        # children order
        if kind in ('Dict', 'DefaultDict', 'OrderedDict'):
            eng_sorted = 'SORT' in ed.key_pipeline
            py_order = c[1] if c[0] == 'values' else None
            want = 'SORTED' if eng_sorted else 'OWN-ORDER'
            ctx.check(site + '/children-order', py_order == want,
                      '%s: Python handler yields values in %s key order, like the engine arm' % (kind, want),
                      '%s: Python handler yields values in %s order, the engine arm uses %s'
                      % (kind, py_order, want), mod.loc(mod.func(fl)))
            if kind == 'OrderedDict':
                # the engine must take the OrderedDict's own order too (see M7); compared there
                pass
            ctx.check(site + '/entries-are-keys', e[0] == 'keys' and e[1] == c[1],
                      '%s: path entries are the keys in the same order as the children' % kind,
                      '%s: entries %s do not match the children order %s' % (kind, e, c),
                      mod.loc(mod.func(fl)))
            want_meta = ed.meta
            if kind == 'DefaultDict':
                okm = m[0] == 'tuple' and m[1] == ('attr', 'default_factory') and m[2][0] == 'list' and m[2][1] == 'keys'
            else:
                okm = m[0] == 'list' and m[1] == 'keys'
            ctx.check(site + '/metadata', okm,
                      '%s: Python metadata has the engine\'s shape (%s)' % (kind, want_meta),
                      '%s: Python metadata %s does not have the engine\'s shape %s' % (kind, m, want_meta),
                      mod.loc(mod.func(fl)))
        else:
            ctx.check(site + '/children', c == ('self', None),
                      '%s: children are the container\'s items in its own order' % kind,
                      '%s: children are %s' % (kind, c), mod.loc(mod.func(fl)))
            want = {'Tuple': ('none', None), 'List': ('none', None), 'Deque': ('attr', 'maxlen'),
                    'NamedTuple': ('typeof', None), 'StructSequence': ('typeof', None)}[kind]
            ctx.check(site + '/metadata', m == want,
                      '%s: Python metadata %s matches the engine (%s)' % (kind, m, ed.meta),
                      '%s: Python metadata is %s, the engine stores %s' % (kind, m, ed.meta),
                      mod.loc(mod.func(fl)))
    # unflatten handlers
    # (patterns over the two positional parameters M = metadata, C = children; local names free)
    checks = {
        '_tuple_unflatten': 'tuple(?C)',
        '_list_unflatten': 'list(?C)',
        '_deque_unflatten': 'deque(?C, maxlen=?M)',
        '_namedtuple_unflatten': '?M(*?C)',
        '_structseq_unflatten': '?M(?C)',
        '_ordereddict_unflatten': 'OrderedDict(safe_zip(?M, ?C))',
        '_dict_unflatten': 'dict(safe_zip(?M, ?C))',
        '_defaultdict_unflatten': 'defaultdict(?df, _dict_unflatten(?keys, ?C))',
        '_dict_insertion_ordered_unflatten': 'dict(safe_zip(?M, ?C))',
        '_defaultdict_insertion_ordered_unflatten':
            'defaultdict(?df, _dict_insertion_ordered_unflatten(?keys, ?C))',
    }
    for name, pat in checks.items():
        fn = mod.func(name)
        ps = [a.arg for a in fn.args.posonlyargs + fn.args.args]
        ctx.require(len(ps) == 2, 'registry.%s: %d parameters' % (name, len(ps)))
        env = {'M': ps[0], 'C': ps[1]}
        if name in ('_defaultdict_unflatten', '_defaultdict_insertion_ordered_unflatten'):
            un = [e for e in (pmatch(s_, '?df, ?keys = ?M', env) for s_ in fn.body) if e is not None]
            env = un[0] if un else None
        ret = [s_ for s_ in fn.body if isinstance(s_, ast.Return)]
        ok = bool(ret) and env is not None and pmatch(ret[0].value, pat, env) is not None
        ctx.check('registry.%s' % name, ok,
                  '%s rebuilds the container the way MakeNode does (%s)' % (name, pat.replace('?', '')),
                  '%s returns %s' % (name, src(ret[0].value) if ret else None), mod.loc(fn))
    # insertion-ordered variants do not sort, default ones do
    for name, want in (('_dict_flatten', 'SORTED'), ('_dict_insertion_ordered_flatten', 'OWN-ORDER'),
                       ('_defaultdict_flatten', 'SORTED'),
                       ('_defaultdict_insertion_ordered_flatten', 'OWN-ORDER')):
        c, m, e = _py_flatten_desc(mod, name)
        ctx.check('registry.%s/order' % name, c[1] == want,
                  '%s yields %s key order' % (name, want), '%s yields %s key order' % (name, c[1]),
                  mod.loc(mod.func(name)))


# ---------------------------------------------------------------------------------------------
SEQ_KINDS = ['Tuple', 'List', 'NamedTuple', 'StructSequence', 'Deque']
DICT_KINDS = ['Dict', 'OrderedDict', 'DefaultDict']


def _entry_class(ent):
    """SEQ (an integer index), KEY (a key of the list that orders the children), ENTRIES
    (element of the custom entries tuple), or the raw text"""
    if ent is None:
        return None
    if ent.startswith('INT('):
        return 'SEQ'
    if ent.startswith('KEY-OF-KEYS(') or ent in ('ELEM(SPEC.node_data)', 'ELEM(SPEC.node_data[1])',
                                                   'KEY-OF-SPEC.node_data', 'KEY-OF-SPEC.node_data[1]'):
        return 'KEY'
    if ent in ('ELEM(OUT2)', 'ELEM(SPEC.node_entries)'):
        return 'ENTRIES'
    return ent


@rule('N1', floor=30, title='every producer of path entries uses the same entry per kind, typed with the parent\'s type and kind')
def n1(ctx):
    prog = ctx.cxx()
    want = {}
    for k in SEQ_KINDS:
        want[k] = {'SEQ'}
    for k in DICT_KINDS:
        want[k] = {'KEY'}
    # flatten with path
    for f in _insts(prog, 'PyTreeSpec::FlattenIntoWithPathImpl'):
        d = arm_descriptors(prog, f)
        for kind in SEQ_KINDS + DICT_KINDS:
            got = {_entry_class(e) for _, e in d[kind].visits}
            ctx.check('FlattenIntoWithPathImpl/%s' % kind, got == want[kind],
                      '%s: %s children are entered under %s' % (inst(f), kind, sorted(want[kind])),
                      '%s: %s children are entered under %s, expected %s'
                      % (inst(f), kind, sorted(map(str, got)), sorted(want[kind])), f.loc)
        got = {_entry_class(e) for _, e in d['Custom'].visits}
        ctx.check('FlattenIntoWithPathImpl/Custom', got == {'SEQ', 'ENTRIES'},
                  '%s: custom children are entered under entries[i] when entries are given, else under 0..n-1' % inst(f),
                  '%s: custom children are entered under %s' % (inst(f), sorted(map(str, got))), f.loc)
        # dict keys entering the path are the ones that order the children: same loop variable
        for kind in DICT_KINDS:
            reads = [r for r in d[kind].child_reads if r[0] == 'DictGetItem']
            ok = bool(reads) and all(r[2].startswith('KEY-OF-KEYS(SELF)') for r in reads)
            ctx.check('FlattenIntoWithPathImpl/%s/key-is-loop-key' % kind, ok,
                      '%s: the child is looked up with the same key that becomes its path entry' % inst(f),
                      '%s: child lookup key and path entry differ for %s' % (inst(f), kind), f.loc)
    # walkers over the node array
    for name in ('PyTreeSpec::PathsImpl', 'PyTreeSpec::AccessorsImpl'):
        for f in _insts(prog, name):
            d = arm_descriptors(prog, f)
            for kind in SEQ_KINDS + DICT_KINDS + ['Custom']:
                got = {_entry_class(e) for _, e in d[kind].visits}
                w = want.get(kind, {'SEQ'})
                ctx.check('%s/%s' % (short(f).split('::')[-1], kind), got == w,
                          '%s: %s entries are %s' % (inst(f), kind, sorted(w)),
                          '%s: %s entries are %s, flatten-with-path uses %s'
                          % (inst(f), kind, sorted(map(str, got)), sorted(w)), f.loc)
            # explicit entries take precedence
            pre = [c for c in calls_in(f.body, {'TupleGetItem'})
                   if any(m.kind == 'MemberExpr' and m.name == 'node_entries' for m in c.walk())]
            parent = enclosing_map(f.body)
            ok = False
            for c in pre:
                ifs = [a for a in ancestors(c, parent) if a.kind == 'IfStmt']
                if ifs and 'node_entries' in ifs[-1].kids[0].text(4) and \
                        if_outcome(ifs[-1], c)[1] is True:
                    ok = True
            ctx.check('%s/explicit-entries-first' % short(f).split('::')[-1], ok,
                      '%s: node_entries[i] is used whenever the node has explicit entries' % inst(f),
                      '%s does not use node_entries when present' % inst(f), f.loc)
    # accessor construction: path_entry_type(entry, node_type, node_kind) of the parent
    for f in _insts(prog, 'PyTreeSpec::AccessorsImpl'):
        inits = local_inits(f)
        # the parent node: the local reference to a Node this activation works on
        roots = [v.name for v in f.body.find('VarDecl') if 'Node' in (v.type or '') and '&' in (v.type or '')]
        ctx.require(len(roots) >= 1, '%s: no local reference to the parent node' % inst(f))
        R = roots[0]

        def from_root(init, what):
            if init is None:
                return False
            if what == 'kind':
                return member_path(strip_casts(init)) == R + '.kind'
            return any(c.callee_name() == what and c.call_args() and member_path(c.call_args()[0]) == R
                       for c in calls_in(init))
        ok = ok2 = False
        for l in prog.lambdas_of(f):
            lparams = [p_[0] for p_ in l.params]
            for c in l.body.find('CXXOperatorCallExpr'):
                if c.callee_name() != 'operator()' or len(c.kids) != 5:
                    continue
                callee, ent, typ, knd = [member_path(strip_casts(x)) for x in c.kids[1:]]
                if callee not in lparams or ent not in lparams:
                    continue
                # type and kind are captured locals computed from the parent node
                ok = from_root(inits.get(typ), 'GetType') and from_root(inits.get(knd), 'kind')
                # every call of the lambda hands it the parent's path entry class
                j_ = lparams.index(callee)
                sites = [x for x in f.body.find('CXXOperatorCallExpr')
                         if x.callee_name() == 'operator()' and len(x.kids) >= 2 and
                         prog.lambda_func(f, x.kids[1]) is None and
                         'lambda' in (x.kids[1].type or '') and len(x.kids) - 2 > j_]
                ok2 = bool(sites) and all(
                    from_root(inits.get(member_path(strip_casts(x.kids[2 + j_]))), 'GetPathEntryType') or
                    from_root(x.kids[2 + j_], 'GetPathEntryType') for x in sites)
        ctx.check('AccessorsImpl/typed-with-parent', ok and ok2,
                  '%s builds each entry as path_entry_type(entry, type, kind) with all three taken '
                  'from the parent node' % inst(f),
                  '%s does not build entries as PathEntryType(root)(entry, GetType(root), root.kind)'
                  % inst(f), f.loc)
    # Entries() / Entry()
    f = prog.one('PyTreeSpec::Entries')
    d = arm_descriptors(prog, f)
    for kind in DICT_KINDS:
        rets = [e for e in d[kind].events if e[0] == 'return']
        cls = d[kind].w.cls_of(rets[0][1].kids[0]) if rets and rets[0][1].kids else None
        want = 'COPYOF(SPEC.node_data)' if kind != 'DefaultDict' else 'COPYOF(SPEC.node_data[1])'
        ctx.check('Entries/%s' % kind, cls == want,
                  'entries() of a %s is a copy of its key list' % kind,
                  'entries() of a %s returns %s, expected %s' % (kind, cls, want), f.loc)
    for kind in SEQ_KINDS + ['Custom']:
        fills = [e for e in d[kind].events if e[0] == 'loop']
        ok = any(c.callee_name() == 'ListSetItem' and 'int_' in c.text(5)
                 for s in [e[3] for e in fills] for c in calls_in(s))
        ctx.check('Entries/%s' % kind, ok, 'entries() of a %s is [0, ..., n-1]' % kind,
                  'entries() of a %s is not the index list' % kind, f.loc)
    g = prog.one('PyTreeSpec::Entry')
    dg = arm_descriptors(prog, g)
    for kind in DICT_KINDS:
        rets = [e for e in dg[kind].events if e[0] == 'return']
        cls = dg[kind].w.cls_of(rets[0][1].kids[0]) if rets and rets[0][1].kids else None
        want = 'SPEC.node_data[i]' if kind != 'DefaultDict' else 'SPEC.node_data[1][i]'
        ctx.check('Entry/%s' % kind, cls == want, 'entry(i) of a %s is key i of its key list' % kind,
                  'entry(i) of a %s returns %s, expected %s' % (kind, cls, want), g.loc)
    for kind in SEQ_KINDS + ['Custom']:
        rets = [e for e in dg[kind].events if e[0] == 'return']
        txt = rets[0][1].text(6) if rets else ''
        ctx.check('Entry/%s' % kind, 'int_' in txt and 'index' in txt,
                  'entry(i) of a %s is i' % kind, 'entry(i) of a %s returns %s' % (kind, txt[:60]), g.loc)
    for fn_, nm in ((f, 'Entries'), (g, 'Entry')):
        pre = [r for r in fn_.body.walk() if r.kind == 'ReturnStmt' and r.kids and
               'node_entries' in r.kids[0].text(6)]
        ctx.check('%s/explicit-entries-first' % nm, bool(pre),
                  '%s() answers from node_entries when the node has explicit entries' % nm.lower(),
                  '%s() ignores node_entries' % nm.lower(), fn_.loc)


@rule('N2', floor=2, title='the backwards walkers take the number of consumed nodes from the recursive call')
def n2(ctx):
    prog = ctx.cxx()
    for name in ('PyTreeSpec::PathsImpl', 'PyTreeSpec::AccessorsImpl'):
        for f in _insts(prog, name):
            lams = [l for l in prog.lambdas_of(f)
                    if any(callee_func(prog, l, c) is not None and
                           callee_func(prog, l, c).qualname == f.qualname for c in calls_in(l.body))]
            ctx.require(len(lams) == 1, '%s: %d recursing lambdas' % (inst(f), len(lams)))
            l = lams[0]
            inits = local_inits(l)
            bad = []
            rets = [r for r in l.body.walk() if r.kind == 'ReturnStmt']
            for r in rets:
                e = strip_casts(r.kids[0]) if r.kids else None
                p = member_path(e) if e is not None else None
                src = inits.get(p) if p else e
                ok = src is not None and any(callee_func(prog, l, c) is not None and
                                             callee_func(prog, l, c).qualname == f.qualname
                                             for c in calls_in(src))
                if not ok:
                    bad.append(r)
            ctx.check('%s/recurse-returns-callee-count' % short(f).split('::')[-1], not bad and bool(rets),
                      '%s: the per-child step returns exactly what the recursive call consumed' % inst(f),
                      '%s: the per-child step can return `%s` instead of the recursive call\'s node '
                      'count: the parent then resumes at the wrong position (InternalError or '
                      'wrong paths for the following children)'
                      % (inst(f), bad[0].kids[0].text(3) if bad and bad[0].kids else '?'),
                      (bad[0].loc if bad else f.loc))
            # and the caller subtracts it
            # every call of the per-child step is `<cursor> -= step(<cursor>, ...)`
            parent = enclosing_map(f.body)
            lam_calls = [c for c in f.body.find('CXXOperatorCallExpr')
                         if c.callee_name() == 'operator()' and len(c.kids) >= 3 and
                         'lambda' in (c.kids[1].type or '')]
            okc = bool(lam_calls)
            for c in lam_calls:
                p_ = parent.get(id(c))
                while p_ is not None and p_.kind not in ('CompoundAssignOperator', 'CompoundStmt', 'ForStmt'):
                    p_ = parent.get(id(p_))
                if not (p_ is not None and p_.kind == 'CompoundAssignOperator' and p_.op == '-=' and
                        member_path(p_.kids[0]) is not None and
                        member_path(p_.kids[0]) == member_path(strip_casts(c.kids[2]))):
                    okc = False
            ctx.check('%s/cur-advances-by-callee-count' % short(f).split('::')[-1], okc,
                      '%s: `cur` moves back by the count each child reports' % inst(f),
                      '%s: `cur` is not advanced by the value returned for the child' % inst(f), f.loc)
            # ... for every child: a return is reached only after a loop over the children (which
            # may run zero times), except in the arms of the childless kinds.  A shortcut such as
            # `if (root.num_leaves == 0) return pos - cur;` reports 1 node for a subtree that has
            # several (a leafless subtree is not a childless node).
            cfg = cfg_of(f)
            heads = set()
            for c in lam_calls:
                cn = cfg.cnode_of(c)
                if cn is None:
                    continue
                for (v, w) in cfg.back_edges:
                    if cfg.dominates(w, cn) and cn in cfg.reachable_from([w], None, None) and \
                            w in cfg.reachable_from([cn], None, None):
                        heads.add(w)

            def childless_arm(v, w, lab):
                return isinstance(lab, str) and lab in ('case:Leaf', 'case:None')
            rets_f = [n_.idx for n_ in cfg.nodes if n_.kind == 'return']
            free = cfg.reachable_from([cfg.entry.idx], childless_arm, heads)
            early = [r for r in rets_f if r in free]
            ctx.check('%s/returns-after-the-children' % short(f).split('::')[-1], bool(heads) and not early,
                      '%s: every return follows a loop over the children (or sits in the Leaf / None arm)' % inst(f),
                      '%s: `%s` can be reached without walking the children of a node that may have '
                      'some: the node count reported to the parent is wrong for a subtree with more '
                      'than one node' % (inst(f), cfg.nodes[early[0]].ast.text(3) if early else '?'),
                      cfg.nodes[early[0]].ast.loc if early else f.loc)


@rule('N2w', floor=3, title='paths() / accessors() take a shortcut only for a leafless or single-node treespec')
def n2w(ctx):
    """`PyTreeSpec::Paths` / `Accessors` may answer without walking the nodes in two cases: no leaves
    (empty answer) or a treespec that is one single node.  Every return that is not preceded by the
    walk must sit on the "equal" outcome of `GetNumLeaves() == 0` or of `GetNumNodes() == 1`: a
    shortcut taken for a one-leaf treespec with several nodes (`[x]`, `{'a': x}`) answers with the
    empty path."""
    prog = ctx.cxx()
    from ..cfg import cfg_of as _cfg, const_eval as ce
    from .common import local_inits as _li
    n = 0
    for name, impl in (('PyTreeSpec::Paths', 'PathsImpl'), ('PyTreeSpec::Accessors', 'AccessorsImpl')):
        f = prog.one(name)
        cfg = _cfg(f)
        inits = _li(f)
        walks = [cfg.cnode_of(c) for c in calls_in(f.body, {impl})]
        ctx.require(walks and None not in walks, '%s: call of %s not found' % (name, impl))

        def source(e):
            e = strip_casts(e)
            t = e.text(5) if e is not None else ''
            p = member_path(e) if e is not None else None
            if p in inits:
                t = inits[p].text(5)
            return 'leaves' if 'GetNumLeaves' in t else ('nodes' if 'GetNumNodes' in t else None)
        facts = []
        for cn in cfg.nodes:
            if cn.kind != 'cond' or cn.ast is None:
                continue
            a, pos = unnegate(cn.ast)
            if a is None or a.kind != 'BinaryOperator' or a.op not in ('==', '!=') or len(a.kids) != 2:
                continue
            what, val = source(a.kids[0]), ce(strip_casts(a.kids[1]))
            if (what, val) in (('leaves', 0), ('nodes', 1)):
                eq_edge = ((a.op == '==') == pos)
                facts.append((cn, eq_edge, '%s == %d' % (what, val)))
        for rn in [x for x in cfg.nodes if x.kind == 'return']:
            if any(cfg.dominates(w, rn.idx) for w in walks):
                continue
            n += 1
            ok = False
            for cn, eq_edge, _ in facts:
                yes = cfg.forward_reachable([w for (w, lab) in cfg.succ[cn.idx] if lab is eq_edge])
                no = cfg.forward_reachable([w for (w, lab) in cfg.succ[cn.idx] if lab is (not eq_edge)])
                if rn.idx in yes and rn.idx not in no:
                    ok = True
            ctx.check('%s/shortcut@%s' % (short(f).split('::')[-1], rn.ast.line if rn.ast is not None else '?'), ok,
                      '%s: the return without a walk is taken only when the treespec has no leaves or is a single node' % inst(f),
                      '%s returns without walking the nodes on an outcome other than "no leaves" / "one single node": '
                      'a one-leaf treespec with several nodes gets the empty path' % inst(f),
                      rn.ast.loc if rn.ast is not None else f.loc)
    ctx.require(n >= 3, 'only %d shortcut returns found in Paths / Accessors' % n)
