"""Twin rules (engine <-> Python): T1 recogniser predicate tables, T2 key-sort twin, F8 Python
eq/hash key agreement."""
from __future__ import annotations

import ast
import re

from ..engine import rule
from ..py_frontend import dotted, call_name, calls_under, walk, is_name, src, pmatch
from ..cfg import cfg_of, const_eval
from ..cxx_ir import CALL_KINDS, CTOR_KINDS
from .common import (short, inst, calls_in, callee_func, member_path, enclosing_map, ancestors,
                     local_inits, strip_casts, unnegate)
from .safety import _handler_class, _matches_typeerror

FLAG_BITS = {26: 'TUPLE_SUBCLASS', 10: 'BASETYPE'}


def _flag_name(e):
    """name of a Py_TPFLAGS_* constant expression `(1UL << n)`"""
    for n in e.walk():
        if n.kind == 'BinaryOperator' and n.op == '<<':
            v = const_eval(n.kids[1])
            if isinstance(v, int) and v in FLAG_BITS:
                return FLAG_BITS[v]
    return None


def _id_name(e):
    """attribute name of a `Py_Get_ID(x)` expression: call of Py_ID_x()"""
    for n in e.walk():
        if n.kind in CALL_KINDS:
            nm = n.callee_name() or ''
            if nm.startswith('Py_ID_'):
                return nm[len('Py_ID_'):]
    return None


def _negated(node, parent):
    neg = False
    p = parent.get(id(node))
    while p is not None and p.kind in ('UnaryOperator', 'CXXStaticCastExpr', 'CStyleCastExpr',
                                       'CXXFunctionalCastExpr'):
        if p.kind == 'UnaryOperator' and p.op == '!':
            neg = not neg
        p = parent.get(id(p))
    return neg


def cxx_recogniser_atoms(ctx, prog, outer_name, impl_name):
    """atoms tested by a C++ class recogniser (outer wrapper + Impl)"""
    atoms = set()
    outer = prog.one(outer_name)
    impl = prog.one(impl_name)
    if calls_in(outer.body, {'PyType_Check'}):
        atoms.add('IS_TYPE')
    inits = local_inits(impl)
    parent = enclosing_map(impl.body)
    # names a loop variable ranges over: for (PyObject* name : {Py_Get_ID(a), Py_Get_ID(b)})
    loop_names = {}
    for loop in impl.body.find('CXXForRangeStmt'):
        rng = loop.kids[1]
        lv = loop.kids[6]
        names = []
        if rng is not None:
            for n in rng.walk():
                if n.kind in CALL_KINDS and (n.callee_name() or '').startswith('Py_ID_'):
                    names.append(n.callee_name()[len('Py_ID_'):])
        if lv is not None and names:
            for v in lv.find('VarDecl'):
                loop_names[v.name] = names

    def subject_names(e):
        """attribute names the object expression e stands for"""
        p = member_path(e)
        if p is None:
            return []
        if p in loop_names:
            return loop_names[p]
        init = inits.get(p)
        if init is not None:
            for c in calls_in(init, {'PyObject_GetAttr'}):
                a = c.call_args()
                nm = _id_name(a[1])
                if nm:
                    return [nm]
                pn = member_path(a[1])
                if pn in loop_names:
                    return loop_names[pn]
            # loop variable over a borrowed tuple of an attribute:  for (field : borrow(_fields))
            for c in calls_in(init, {'operator*'}):
                pass
        return []
    # attribute probes
    for c in calls_in(impl.body, {'PyObject_GetAttr'}):
        a = c.call_args()
        nm = _id_name(a[1])
        names = [nm] if nm else loop_names.get(member_path(a[1]), [])
        for n in names:
            atoms.add('ATTR(%s)' % n)
    for c in calls_in(impl.body, {'PyType_HasFeature'}):
        fl = _flag_name(c.call_args()[1])
        if fl == 'TUPLE_SUBCLASS':
            atoms.add('TUPLE_SUBCLASS')
        elif fl == 'BASETYPE':
            atoms.add('NOT_BASETYPE' if _negated(c, parent) else 'BASETYPE')
    for c in calls_in(impl.body, {'PyCallable_Check'}):
        for n in subject_names(c.call_args()[0]):
            atoms.add('CALLABLE(%s)' % n)
    for c in calls_in(impl.body, {'Py_IS_TYPE'}):
        a = c.call_args()
        tname = None
        for n in a[1].walk():
            if n.kind == 'DeclRefExpr' and n.ref and n.ref.get('name', '').endswith('_Type'):
                tname = n.ref.get('name')[2:-5].lower()       # PyTuple_Type -> tuple
        tname = {'unicode': 'str', 'long': 'int'}.get(tname, tname)
        subj = strip_casts(a[0])
        if subj.kind == 'CXXMemberCallExpr' and subj.callee_name() == 'ptr':
            subj = strip_casts(subj.call_base())
        names = subject_names(subj)
        txt = subj.text(4)
        if 'tp_bases' in txt:
            continue                # part of the __bases__ == (tuple,) idiom, handled below
        if names:
            for n in names:
                atoms.add('EXACT_%s(%s)' % (tname, n))
        else:
            # element of a container attribute: the loop variable of `for (field : borrow(attr))`
            p = member_path(subj)
            owner = None
            for loop in impl.body.find('CXXForRangeStmt'):
                lv = loop.kids[6]
                if lv is not None and any(v.name == p for v in lv.find('VarDecl')):
                    rng = loop.kids[1]
                    for d in rng.walk():
                        if d.kind == 'DeclRefExpr':
                            ns = subject_names(d)
                            if ns:
                                owner = ns[0]
            if owner:
                atoms.add('ALL_EXACT_%s(%s)' % (tname, owner))
            else:
                ctx.fail('%s: cannot tell what `%s` is tested to be a %s' % (impl_name, txt, tname))
    # tp_bases == (tuple,)
    tb = [m for m in impl.body.walk() if m.kind == 'MemberExpr' and m.name == 'tp_bases']
    if tb:
        txt = ' '.join(c.ast.text(8) for c in cfg_of(impl).nodes if c.ast is not None and
                       'tp_bases' in c.ast.text(8))
        if 'PyTuple_GET_SIZE' in txt and 'PyTuple_Type' in txt and re.search(r'== 1|1 ==', txt):
            atoms.add('BASES_EQ_TUPLE')
        else:
            atoms.add('BASES_OTHER')
    return atoms


def py_recogniser_atoms(ctx, mod, fname):
    fn = mod.func(fname)
    atoms = set()
    conds = []
    for s in walk(fn):
        if isinstance(s, ast.Return) and isinstance(s.value, ast.BoolOp) and isinstance(s.value.op, ast.And):
            conds += s.value.values
        elif isinstance(s, ast.If) and isinstance(s.test, ast.BoolOp) and isinstance(s.test.op, ast.And):
            conds += s.test.values
        elif isinstance(s, ast.Return) and isinstance(s.value, ast.UnaryOp):
            conds.append(s.value)
    for c in conds:
        t = src(c)
        m = re.fullmatch(r'isinstance\(cls, type\)', t)
        if m:
            atoms.add('IS_TYPE')
            continue
        if t == 'issubclass(cls, tuple)':
            atoms.add('TUPLE_SUBCLASS')
            continue
        m = re.fullmatch(r"isinstance\(getattr\(cls, '(\w+)', None\), (\w+)\)", t)
        if m:
            atoms.add('ATTR(%s)' % m.group(1))
            atoms.add('INSTANCE_%s(%s)' % (m.group(2), m.group(1)))
            continue
        m = re.fullmatch(r"type\(getattr\(cls, '(\w+)', None\)\) is (\w+)", t)
        if m:
            atoms.add('ATTR(%s)' % m.group(1))
            atoms.add('EXACT_%s(%s)' % (m.group(2), m.group(1)))
            continue
        m = re.fullmatch(r"all\(\(?type\((\w+)\) is (\w+) for \1 in cls\.(\w+)\)?\)", t)
        if m:
            atoms.add('ALL_EXACT_%s(%s)' % (m.group(2), m.group(3)))
            continue
        m = re.fullmatch(r"callable\(getattr\(cls, '(\w+)', None\)\)", t)
        if m:
            atoms.add('ATTR(%s)' % m.group(1))
            atoms.add('CALLABLE(%s)' % m.group(1))
            continue
        if t == 'cls.__bases__ == (tuple,)':
            atoms.add('BASES_EQ_TUPLE')
            continue
        if re.fullmatch(r'not bool\(cls\.__flags__ & Py_TPFLAGS_BASETYPE\)', t):
            atoms.add('NOT_BASETYPE')
            continue
        ctx.fail('%s: condition `%s` is not in the recogniser vocabulary' % (fname, t))
    return atoms, fn


# equivalences accepted between the two sides, each with its reason
def normalise(atoms):
    a = set(atoms)
    if 'BASES_EQ_TUPLE' in a:
        a.discard('TUPLE_SUBCLASS')      # bases == (tuple,) implies tuple subclass
    out = set()
    for x in a:
        # n_*fields: EXACT_int vs INSTANCE_int differ only for a bool / int-subclass class
        # attribute on a type without Py_TPFLAGS_BASETYPE, which Python code cannot create
        m = re.fullmatch(r'(EXACT|INSTANCE)_int\((n_\w+)\)', x)
        if m:
            out.add('INT(%s)' % m.group(2))
        else:
            out.add(x)
    return out


@rule('T1', floor=12, title='namedtuple / struct-sequence recognisers test the same atoms in C++ and in Python')
def t1(ctx):
    prog = ctx.cxx()
    pkg = ctx.py()
    mod = pkg.mod('optree.typing')
    for label, outer, impl, pyname in (
            ('namedtuple', 'IsNamedTupleClass', 'IsNamedTupleClassImpl', 'is_namedtuple_class'),
            ('structseq', 'IsStructSequenceClass', 'IsStructSequenceClassImpl', 'is_structseq_class')):
        ca = normalise(cxx_recogniser_atoms(ctx, prog, outer, impl))
        pa_raw, fn = py_recogniser_atoms(ctx, mod, pyname)
        pa = normalise(pa_raw)
        ctx.require(len(ca) >= 5 and len(pa) >= 5, '%s recogniser: too few atoms (%s / %s)'
                    % (label, sorted(ca), sorted(pa)))
        for a in sorted(ca | pa):
            site = '%s/%s' % (pyname, a)
            if a in ca and a in pa:
                ctx.ok(site, '%s: both sides test %s' % (label, a), mod.loc(fn))
            else:
                where = 'the engine' if a in ca else 'the Python twin'
                other = sorted((pa if a in ca else ca) - (ca & pa))
                ctx.bad(site, '%s recogniser: only %s tests %s (the other side has %s instead): '
                        'the two give different answers for a class that separates them'
                        % (label, where, a, other), mod.loc(fn))
    # the decorated Python functions are overridden by the engine's for normal use
    for pyname, cname in (('is_namedtuple_class', '_C.is_namedtuple_class'),
                          ('is_structseq_class', '_C.is_structseq_class'),
                          ('is_namedtuple', '_C.is_namedtuple'), ('is_structseq', '_C.is_structseq'),
                          ('namedtuple_fields', '_C.namedtuple_fields'),
                          ('structseq_fields', '_C.structseq_fields')):
        fn = mod.func(pyname)
        decs = [src(d) for d in fn.decorator_list]
        ctx.check('%s/override' % pyname, '_override_with_(%s)' % cname in decs,
                  '%s is overridden by %s' % (pyname, cname),
                  '%s is decorated with %s, expected _override_with_(%s)' % (pyname, decs, cname),
                  mod.loc(fn))


# ---------------------------------------------------------------------------------------------
@rule('T2', floor=6, title='the engine key sort and total_order_sorted have the same three stages and the same last resort')
def t2(ctx):
    prog = ctx.cxx()
    pkg = ctx.py()
    f = prog.one('TotalOrderSort')
    cfg = cfg_of(f)
    trys = f.body.find('CXXTryStmt')
    ctx.require(len(trys) == 2, 'TotalOrderSort: %d try blocks (expected plain sort + keyed sort)' % len(trys))
    for i, tr in enumerate(trys):
        for h in tr.kids[1:]:
            v, why = _handler_class(cfg, h.kids[-1])
            ctx.check('TotalOrderSort/stage%d-handler' % (i + 1), v == 'typeerror-only',
                      'engine stage %d: only TypeError moves on to the next stage (%s)' % (i + 1, why),
                      'engine stage %d handler %s' % (i + 1, why), h.loc)
    # stage 1: PyList_Sort on the argument; stage 2: list.sort(key=...)
    s1 = calls_in(trys[0].kids[0], {'PyList_Sort'})
    inner = trys[1].kids[0]
    s2 = [c for c in calls_in(inner, {'getattr'}) if any('sort' in a.text(3) for a in c.call_args()[1:])]
    ctx.check('TotalOrderSort/stages', bool(s1) and bool(s2),
              'engine: plain sort, then sort with a key function',
              'engine stages not recognised (plain sort: %d, keyed sort: %d)' % (len(s1), len(s2)), f.loc)
    # the plain sort is always attempted: nothing in the first stage throws (or makes up a Python
    # error) before PyList_Sort has run - "these keys will not compare anyway" is for the sort to say
    if s1:
        sn = cfg.cnode_of(s1[0])
        early = [t for t in trys[0].kids[0].walk() if t.kind == 'CXXThrowExpr' and cfg.cnode_of(t) is not None and
                 sn is not None and not cfg.dominates(sn, cfg.cnode_of(t))]
        made_up = calls_in(trys[0].kids[0], {'PyErr_SetString', 'PyErr_SetObject', 'PyErr_Format'})
        ctx.check('TotalOrderSort/plain-sort-always-attempted', not early and not made_up,
                  'engine stage 1: the only way on to the fallback is a TypeError raised by the sort itself',
                  'engine stage 1 %s before / instead of the plain sort: keys that do compare (a str next to an '
                  'instance of a str subclass) are ordered by type name, not by value'
                  % ('throws' if early else 'sets a Python error of its own'),
                  (early[0].loc if early else (made_up[0].loc if made_up else f.loc)))
    # key function attributes
    lam = [l for l in f.body.find('LambdaExpr')]
    attrs = set()
    for l in lam:
        lf = prog.lambda_func(f, l)
        if lf is None:
            continue
        for c in calls_in(lf.body):
            nm = c.callee_name() or ''
            if nm.startswith('Py_ID_'):
                attrs.add(nm[len('Py_ID_'):])
        uses_type = bool(calls_in(lf.body, {'handle_of', 'of'}))
    mod = pkg.mod('optree.utils')
    fn = mod.func('total_order_sorted')
    kf = mod.funcs.get('total_order_sorted.key_fn')
    pyattrs = set()
    for n in ast.walk(fn):
        if isinstance(n, ast.Attribute) and n.attr.startswith('__') and n.attr != '__class__':
            pyattrs.add(n.attr)
    ctx.check('sort-key/attributes', attrs == pyattrs == {'__module__', '__qualname__'},
              'both build the fallback key from type.__module__ and type.__qualname__',
              'fallback key attributes differ: engine %s, Python %s' % (sorted(attrs), sorted(pyattrs)),
              mod.loc(fn))
    # python handlers
    handlers = [h for h in ast.walk(fn) if isinstance(h, ast.ExceptHandler)]
    okh = len(handlers) == 2 and all(isinstance(h.type, ast.Name) and h.type.id == 'TypeError'
                                    for h in handlers)
    ctx.check('total_order_sorted/handlers', okh,
              'Python: both stages catch TypeError only',
              'Python handlers catch %s' % [src(h.type) if h.type else 'everything' for h in handlers],
              mod.loc(fn))
    # python last resort: returns the list made from the input before any sorting
    last = handlers[-1] if handlers else None
    seqvar = None
    for s in fn.body:
        if isinstance(s, ast.Assign) and isinstance(s.value, ast.Call) and call_name(s.value) == 'list':
            seqvar = s.targets[0].id
    py_last = last is not None and any(isinstance(x, ast.Return) and is_name(x.value, seqvar)
                                       for x in last.body) and \
        not any(call_name(c) in ('%s.sort' % seqvar,) for c in calls_under(fn))
    ctx.check('total_order_sorted/last-resort', bool(py_last),
              'Python: when both sorts fail the input order is returned (sorted() never mutates it)',
              'Python last resort is not the untouched input sequence', mod.loc(fn))
    # engine last resort: both sorts run *in place* on the caller's list; the input order
    # survives two failed sorts only if a snapshot is restored
    arg = f.params[0][0]
    snapshot = None
    first_sort = cfg.cnode_of(s1[0]) if s1 else None
    for n in f.body.walk():
        if n.kind == 'VarDecl' and n.kids and n.kids[-1] is not None:
            t = n.kids[-1].text(6)
            if arg in t and ('copy' in t or 'PySequence_List' in t or 'PyList_GetSlice' in t or
                             n.kids[-1].kind in CTOR_KINDS and 'list' in (n.type or '')):
                cn = cfg.cnode_of(n)
                if first_sort is not None and cn is not None and cfg.dominates(cn, first_sort):
                    snapshot = n
    restored = False
    if snapshot is not None:
        for h in trys[1].kids[1:]:
            for c in calls_in(h.kids[-1]):
                t = c.text(5)
                if snapshot.name in t and (c.callee_name() in ('PyList_SetSlice', 'operator=', 'swap')
                                           or 'SetSlice' in t):
                    restored = True
            for b in h.kids[-1].walk():
                if b.kind == 'BinaryOperator' and b.op == '=' and snapshot.name in b.text(4):
                    restored = True
    # an extra flag of the sort (e.g. `reverse`) must be honoured on every path that returns
    # normally - including the last resort, which leaves the input order
    extra = [p_[0] for p_ in f.params[1:] if p_[0]]
    for flag in extra:
        writes = []
        for c in calls_in(f.body):
            nm = c.callee_name()
            if nm in ('PyList_Sort', 'PyList_SetSlice'):
                writes.append((c, False))
            elif c.kind == 'CXXOperatorCallExpr' and nm == 'operator()' and 'Py_ID_sort' in c.text(6):
                honoured = any(re.search(r'\b%s\b' % re.escape(flag), a.text(6)) for a in c.kids[2:] if a is not None)
                writes.append((c, honoured))
        wn = {cfg.cnode_of(c) for c, _ in writes if cfg.cnode_of(c) is not None}
        revs = {cn.idx for cn in cfg.nodes if cn.ast is not None and
                any(x.kind in CALL_KINDS and x.callee_name() == 'PyList_Reverse' for x in cn.ast.walk())}

        def flag_false(v, w, lab, flag=flag):
            cn = cfg.nodes[v]
            return cn.kind == 'cond' and cn.ast is not None and lab is False and \
                member_path(strip_casts(cn.ast)) == flag
        bad = []
        for c, honoured in writes:
            n0 = cfg.cnode_of(c)
            if honoured or n0 is None:
                continue
            starts = [w for (w, lab) in cfg.succ[n0] if lab != 'exc']
            reach = cfg.reachable_from(starts, flag_false, (wn - {n0}) | revs)
            if cfg.exit.idx in reach:
                bad.append(c)
        ctx.check('TotalOrderSort/flag-%s-honoured' % flag, not bad,
                  'engine: the `%s` flag is applied after every stage that leaves the list in its '
                  'final order' % flag,
                  'engine: the `%s` flag is ignored after `%s` (the list is returned without the '
                  'flag having been applied on that path): callers that rely on it get the other '
                  'order for exactly the inputs that reach this stage'
                  % (flag, bad[0].text(3)[:60] if bad else ''), bad[0].loc if bad else f.loc)
    ctx.check('TotalOrderSort/last-resort-restores-input-order', restored,
              'engine: a snapshot taken before the first sort is restored when both sorts fail',
              'engine: both sorts run in place on the same list and nothing restores it when the '
              'second one fails too: a failed list.sort() leaves the list partially reordered, so '
              'the "insertion order" fallback is neither sorted nor the insertion order, and '
              'differs from total_order_sorted', f.loc)


# ---------------------------------------------------------------------------------------------
def _self_attrs(fn, selfname='self'):
    out = set()
    for n in ast.walk(fn):
        if isinstance(n, ast.Attribute):
            d = dotted(n)
            if d and d.startswith(selfname + '.'):
                out.add(d[len(selfname) + 1:])
    # keep maximal chains only
    return {a for a in out if not any(b != a and b.startswith(a + '.') for b in out)}


@rule('F8', floor=3, title='Python classes that define both __eq__ and __hash__ hash a subset of what they compare')
def f8(ctx):
    pkg = ctx.py()
    n = 0
    for mname, mod in sorted(pkg.modules.items()):
        if mname.endswith('(pyi)'):
            continue
        for cname, cls in mod.classes.items():
            eq = mod.funcs.get(cname + '.__eq__')
            hs = mod.funcs.get(cname + '.__hash__')
            if eq is None or hs is None:
                continue
            n += 1
            ea, ha = _self_attrs(eq), _self_attrs(hs)
            calls_super = 'super().__hash__()' in src(hs) and 'super().__eq__(' in src(eq)
            # a hashed value must be a compared value or derived from one (`x.items` of a compared `x`);
            # hashing `x` where only `x.attr` is compared distinguishes objects that compare equal
            ok = calls_super or (ha <= ea) or all(any(h == e or h.startswith(e + '.') for e in ea) for h in ha)
            ctx.check('%s.%s/eq-hash' % (mname.split('.')[-1], cname), ok,
                      '%s: __hash__ uses %s, all compared by __eq__ (%s)'
                      % (cname, sorted(ha) or 'super()', sorted(ea) or 'super()'),
                      '%s: __hash__ uses %s which __eq__ does not compare (%s): equal objects can '
                      'hash differently' % (cname, sorted(ha - ea), sorted(ea)), mod.loc(hs))
            # what __eq__ reads of the other operand is what it reads of self: a field left out on
            # one side compares a value with a different one (tuples of unequal length are never
            # equal: the object is not even equal to itself)
            ps = [a.arg for a in eq.args.posonlyargs + eq.args.args]
            if len(ps) >= 2:
                oa = _self_attrs(eq, ps[1])
                sa_ = _self_attrs(eq, ps[0])
                if oa:
                    ctx.check('%s.%s/eq-symmetric' % (mname.split('.')[-1], cname), oa == sa_,
                              '%s.__eq__ reads the same attributes of both operands (%s)' % (cname, sorted(sa_)),
                              '%s.__eq__ reads %s of `%s` but %s of `%s`: the comparison pairs different '
                              'fields (or tuples of different length, which are never equal)'
                              % (cname, sorted(sa_), ps[0], sorted(oa), ps[1]), mod.loc(eq))
                # ... and says "equal" when they agree: a comparison of self.<x> with other.<x> is `==`
                flipped = []
                for c_ in ast.walk(eq):
                    if isinstance(c_, ast.Compare) and len(c_.ops) == 1 and \
                            isinstance(c_.ops[0], (ast.NotEq, ast.IsNot)):
                        l_, r_ = src(c_.left), src(c_.comparators[0])
                        if l_.replace(ps[0] + '.', '@.') == r_.replace(ps[1] + '.', '@.') and (ps[0] + '.') in l_:
                            flipped.append(c_)
                ctx.check('%s.%s/eq-means-equal' % (mname.split('.')[-1], cname), not flipped,
                          '%s.__eq__ compares the fields of the two operands for equality' % cname,
                          '%s.__eq__ contains `%s`: objects with equal fields compare unequal (and the object '
                          'is not equal to itself)' % (cname, src(flipped[0]) if flipped else ''), mod.loc(eq))
    ctx.require(n >= 3, 'only %d classes with both __eq__ and __hash__' % n)


# ---------------------------------------------------------------------------------------------
@rule('T7', floor=2, title='struct sequence field listing: the first n_sequence_fields entries of the type\'s member table, in engine and twin')
def t7(ctx):
    """Domain fact: a struct sequence type describes its positions in `tp_members` (one entry per
    position, unnamed ones included, visible ones first) and publishes how many of them are
    sequence positions as `n_sequence_fields`.  Other per-type listings (`__match_args__`,
    `_fields`-like attributes, `dir()`) leave out unnamed positions, so a listing built from them
    is shorter than the arity for types such as os.stat_result."""
    prog = ctx.cxx()
    pkg = ctx.py()
    f = prog.one('StructSequenceGetFieldsImpl')
    rets = [r for r in f.body.walk() if r.kind == 'ReturnStmt']
    ctx.require(rets, 'StructSequenceGetFieldsImpl: no return statement')
    inits = local_inits(f)
    attrs = sorted({c.callee_name()[6:] for c in calls_in(f.body) if (c.callee_name() or '').startswith('Py_ID_')})
    members = [m for m in f.body.walk() if m.kind == 'MemberExpr' and m.name == 'tp_members']
    fills = [c for c in calls_in(f.body, {'TupleSetItem', 'PyTuple_SET_ITEM'})
             if any(m.kind == 'MemberExpr' and m.name == 'name' for m in c.walk())]
    ok = attrs == ['n_sequence_fields'] and bool(members) and bool(fills)
    # every return hands out the tuple that was filled from the member table
    filled = {member_path(strip_casts(c.call_args()[0])) for c in fills}
    for r in rets:
        v = member_path(strip_casts(r.kids[0])) if r.kids else None
        if v not in filled:
            ok = False
    ctx.check('StructSequenceGetFieldsImpl/member-table', ok,
              'the engine lists tp_members[0 .. n_sequence_fields) (attributes read: %s)' % attrs,
              'the engine does not (only) list tp_members[0 .. n_sequence_fields): it reads the type '
              'attribute(s) %s and returns `%s` - listings other than the member table omit unnamed '
              'positions, so the number of fields differs from the arity for some types'
              % (attrs, '; '.join(r.kids[0].text(4) for r in rets if r.kids)[:120]), f.loc)
    mod = pkg.mod('optree.typing')
    fn = mod.func('structseq_fields')
    rets = [s_ for s_ in walk(fn) if isinstance(s_, ast.Return)]
    okp = len(rets) == 1 and pmatch(rets[0].value, 'tuple(?x[:?c.n_sequence_fields])') is not None
    srcs = [s_ for s_ in walk(fn) if isinstance(s_, ast.Assign) and rets and okp and
            is_name(s_.targets[0], pmatch(rets[0].value, 'tuple(?x[:?c.n_sequence_fields])')['x'])]
    okp = okp and bool(srcs) and all('vars(' in src(s_.value) and 'StructSequenceFieldType' in src(s_.value)
                                      or 'indices_by_name' in src(s_.value) for s_ in srcs)
    ctx.check('typing.structseq_fields/member-table', okp,
              'the twin lists the member descriptors of the class, cut at n_sequence_fields',
              'the Python twin does not list the member descriptors cut at n_sequence_fields', mod.loc(fn))


@rule('T8', floor=2, title='the field-listing twins read the class, never the instance')
def t8(ctx):
    """The engine lists fields with getattr(<type>, ...) where <type> is the argument itself when it
    is a class and type(argument) otherwise.  An attribute read on the *instance* goes through the
    instance dictionary and __getattribute__, which a subclass may populate or override - the twin
    then lists other names than the engine for the same object."""
    pkg = ctx.py()
    prog = ctx.cxx()
    mod = pkg.mod('optree.typing')
    for name, attr in (('namedtuple_fields', '_fields'), ('structseq_fields', 'n_sequence_fields')):
        fn = mod.func(name)
        param = [a.arg for a in fn.args.posonlyargs + fn.args.args][0]
        reads = [n_ for n_ in walk(fn) if isinstance(n_, ast.Attribute) and n_.attr == attr]
        ctx.require(reads, 'typing.%s: no read of .%s' % (name, attr))
        bases = {src(r.value) for r in reads}
        ok = param not in bases and all(isinstance(r.value, ast.Name) for r in reads)
        if ok:
            # the local that holds the class is `type(<param>)` on the instance path and the
            # parameter itself on the class path
            for b in bases:
                asg = [s_ for s_ in walk(fn) if isinstance(s_, ast.Assign) and is_name(s_.targets[0], b)]
                vals = {src(s_.value) for s_ in asg}
                ok = ok and vals == {param, 'type(%s)' % param}
        ctx.check('typing.%s/reads-the-class' % name, ok,
                  '%s reads .%s from the class (the argument if it is a class, type(argument) otherwise)'
                  % (name, attr),
                  '%s reads .%s from %s: for an instance this goes through the instance dictionary / '
                  '__getattribute__, the engine reads the type' % (name, attr, sorted(bases)), mod.loc(fn))
    for cname, idname in (('NamedTupleGetFields', '_fields'),):
        f = prog.one(cname)
        gets = [c for c in calls_in(f.body, {'getattr'})
                if any((x.callee_name() or '') == 'Py_ID_' + idname for x in calls_in(c))]
        ctx.require(gets, '%s: no getattr(..., %s)' % (cname, idname))
        inits = {}
        asg = {}
        for n_ in f.body.walk():
            if n_.kind == 'CXXOperatorCallExpr' and n_.callee_name() == 'operator=' and len(n_.kids) == 3:
                asg.setdefault(member_path(n_.kids[1]), []).append(n_.kids[2])
        ok = True
        for g in gets:
            base = member_path(strip_casts(g.call_args()[0]))
            vals = asg.get(base, [])
            texts = [v.text(4) for v in vals]
            ok = ok and base not in [p_[0] for p_ in f.params] and \
                any('handle_of' in t or 'type::of' in t for t in texts)
        ctx.check('%s/reads-the-class' % cname, ok,
                  '%s reads %s from the type object' % (cname, idname),
                  '%s reads %s from its argument, not from the type' % (cname, idname), f.loc)


def deciding_probes(ctx, f, label, min_probes, why, is_probe=None):
    """for every test of f (loop heads aside) exactly one outcome can reach a `return` that may be
    true; bool flags are followed along the path (cfg.flag_reachable)"""
    from ..cfg import flag_reachable
    cfg = cfg_of(f)
    yes = set()
    for cn in cfg.nodes:
        if cn.kind == 'return' and cn.ast is not None and cn.ast.kids:
            v = const_eval(cn.ast.kids[0])
            if v is not False:
                yes.add(cn.idx)
    ctx.require(yes, '%s: no return that can be true' % label)
    heads = {w for (v, w) in cfg.back_edges}
    n = 0
    for cn in cfg.nodes:
        if cn.kind != 'cond' or cn.ast is None or cn.idx in heads:
            continue
        labs = {lab for (w, lab) in cfg.succ[cn.idx]}
        if labs != {True, False}:
            continue
        # loop machinery (`__begin != __end`, `a != end()`) is a loop test, not a probe
        if '__begin' in cn.ast.text(4) or '__end' in cn.ast.text(4):
            continue
        if any((v, cn.idx) in cfg.back_edges for v in range(len(cfg.nodes))):
            continue
        if is_probe is not None and not is_probe(cn.ast):
            continue
        n += 1
        can = {}
        for lab in (True, False):
            base, pos = unnegate(cn.ast)
            env0 = {}
            if base is not None and base.kind == 'DeclRefExpr' and base.ref and base.ref.get('name'):
                env0[base.ref['name']] = lab if pos else (not lab)
            r = flag_reachable(cfg, [w for (w, l2) in cfg.succ[cn.idx] if l2 is lab], env0)
            can[lab] = bool(r & yes)
        ctx.check('%s/%s' % (label, cn.ast.text(3)[:48]), can[True] != can[False],
                  '%s: `%s` decides - one outcome can still answer yes, the other cannot'
                  % (label, cn.ast.text(3)[:60]),
                  '%s: `%s` %s: %s'
                  % (label, cn.ast.text(3)[:60],
                     'can answer yes on both outcomes' if can[True] else 'can answer yes on neither outcome', why),
                  cn.ast.loc)
    ctx.require(n >= min_probes, '%s: only %d probes found' % (label, n))


@rule('T1e', floor=10, title='every test of a class recogniser decides: one outcome can still answer "yes", the other cannot')
def t1e(ctx):
    """The recognisers are conjunctions: a class is a namedtuple / struct sequence when every probe
    holds.  Structurally: for every test of the Impl (loop heads aside) exactly one outcome can
    reach a `return` that may be true.  A probe whose both outcomes can answer "yes" is ignored
    (`fields_ok = true` in the failing branch, a dropped `return false`); a probe whose neither
    outcome can is dead.  Bool flags are followed along the path (cfg.flag_reachable)."""
    prog = ctx.cxx()
    for impl in ('IsNamedTupleClassImpl', 'IsStructSequenceClassImpl'):
        deciding_probes(ctx, prog.one(impl), impl, 4,
                        'the probe does not take part in the answer, so the engine and the Python '
                        'twin classify some class differently')


T10_FAMILIES = {
    'namedtuple': {'cls': 'IsNamedTupleClass', 'inst': 'IsNamedTupleInstance', 'either': 'IsNamedTuple',
                   'py_cls': 'is_namedtuple_class', 'py_inst': 'is_namedtuple_instance', 'py_either': 'is_namedtuple',
                   'fields': ('namedtuple_fields', 'NamedTupleGetFields')},
    'structseq': {'cls': 'IsStructSequenceClass', 'inst': 'IsStructSequenceInstance', 'either': 'IsStructSequence',
                  'py_cls': 'is_structseq_class', 'py_inst': 'is_structseq_instance', 'py_either': 'is_structseq',
                  'fields': ('structseq_fields', 'StructSequenceGetFields')},
}


@rule('T10', floor=20, title='the instance / either forms of the class recognisers ask the class recogniser of their own family about the right class')
def t10(ctx):
    """`is_X_instance(obj)` is `is_X_class(type(obj))`, `is_X(obj)` is `is_X_class(obj if obj is a
    class else type(obj))`, in the engine and in the Python twin; the `_C` names are bound to the
    engine function of the same family and form; the metaclass hooks of `optree.typing.structseq`
    hand on their second parameter (the candidate), not the stub class itself.  Classification of
    every node (GetKind) goes through the instance forms."""
    prog = ctx.cxx()
    pkg = ctx.py()
    from ..bridge import binding_table
    from .common import strip_casts
    tab = binding_table(prog)
    mod = pkg.mod('optree.typing')
    for fam, t in sorted(T10_FAMILIES.items()):
        # bindings
        for pyname, cxx in ((t['py_cls'], t['cls']), (t['py_inst'], t['inst']), (t['py_either'], t['either']),
                            t['fields']):
            b = tab.get(('module', pyname))
            ctx.check('_C.%s/bound' % pyname, b is not None and b.target == cxx,
                      '_C.%s is bound to %s' % (pyname, cxx),
                      '_C.%s is bound to %s, not to %s: the Python name answers another question than it says'
                      % (pyname, b.target if b is not None else None, cxx), b.node.loc if b is not None and b.node is not None else None)
        # engine: instance form
        f = prog.one(t['inst'])
        p0 = f.params[0][0]
        rets = [r for r in f.body.walk() if r.kind == 'ReturnStmt' and r.kids]
        ok = False
        if len(rets) == 1:
            c = strip_casts(rets[0].kids[0])
            if c is not None and c.kind in CALL_KINDS and c.callee_name() == t['cls'] and len(c.call_args()) == 1:
                a = strip_casts(c.call_args()[0])
                ok = a is not None and a.kind in CALL_KINDS and a.callee_name() in ('handle_of', 'of') and \
                    len(a.call_args()) == 1 and member_path(strip_casts(a.call_args()[0])) == p0
        ctx.check('%s/asks-the-class-of-the-object' % t['inst'], ok,
                  '%s(obj) is %s(type of obj)' % (t['inst'], t['cls']),
                  '%s does not return %s(py::type::handle_of(%s)): instances are classified by something '
                  'other than their exact class' % (t['inst'], t['cls'], p0), f.loc)
        # engine: either form
        f = prog.one(t['either'])
        p0 = f.params[0][0]
        rets = [r for r in f.body.walk() if r.kind == 'ReturnStmt' and r.kids]
        ok = False
        if len(rets) == 1:
            c = strip_casts(rets[0].kids[0])
            if c is not None and c.kind in CALL_KINDS and c.callee_name() == t['cls'] and len(c.call_args()) == 1:
                a = strip_casts(c.call_args()[0])
                if a is not None and a.kind == 'DeclRefExpr':
                    for v in f.body.find('VarDecl'):
                        if v.name == member_path(a) and v.kids:
                            a = strip_casts(v.kids[-1])
                while a is not None and a.kind in CTOR_KINDS and len(a.kids) == 1:
                    a = strip_casts(a.kids[0])
                if a is not None and a.kind == 'ConditionalOperator' and len(a.kids) == 3:
                    cond, pos = unnegate(a.kids[0])
                    yes, no = (a.kids[1], a.kids[2]) if pos else (a.kids[2], a.kids[1])
                    is_type_test = cond is not None and cond.kind in CALL_KINDS and \
                        cond.callee_name() in ('PyType_Check', 'isinstance') and p0 in cond.text(5)
                    y, n_ = strip_casts(yes), strip_casts(no)
                    while y is not None and y.kind in CTOR_KINDS and len(y.kids) == 1:
                        y = strip_casts(y.kids[0])
                    while n_ is not None and n_.kind in CTOR_KINDS and len(n_.kids) == 1:
                        n_ = strip_casts(n_.kids[0])
                    ok = is_type_test and member_path(y) == p0 and n_ is not None and n_.kind in CALL_KINDS and \
                        n_.callee_name() in ('handle_of', 'of') and \
                        member_path(strip_casts(n_.call_args()[0])) == p0
        ctx.check('%s/class-or-class-of' % t['either'], ok,
                  '%s(obj) is %s(obj if obj is a class else type of obj)' % (t['either'], t['cls']),
                  '%s does not return %s(<%s if it is a class, else its type>)' % (t['either'], t['cls'], p0), f.loc)
        # Python twins
        fi = mod.func(t['py_inst'])
        pi = (fi.args.posonlyargs + fi.args.args)[0].arg
        rs = [r for r in walk(fi) if isinstance(r, ast.Return)]
        ok = len(rs) == 1 and pmatch(rs[0], 'return %s(type(?o))' % t['py_cls'], {'o': pi}) is not None
        ctx.check('typing.%s/asks-the-class-of-the-object' % t['py_inst'], ok,
                  '%s(obj) is %s(type(obj))' % (t['py_inst'], t['py_cls']),
                  '%s does not return %s(type(%s))' % (t['py_inst'], t['py_cls'], pi), mod.loc(fi))
        fe = mod.func(t['py_either'])
        pe = (fe.args.posonlyargs + fe.args.args)[0].arg
        rs = [r for r in walk(fe) if isinstance(r, ast.Return)]
        ok = len(rs) == 1 and (
            pmatch(rs[0], 'return %s(?o if isinstance(?o, type) else type(?o))' % t['py_cls'], {'o': pe}) is not None)
        if not ok and len(rs) == 1:
            # through a local: cls = obj if isinstance(obj, type) else type(obj); return f(cls)
            for s_ in walk(fe):
                e = pmatch(s_, '?c = ?o if isinstance(?o, type) else type(?o)', {'o': pe})
                if e is not None and pmatch(rs[0], 'return %s(?c)' % t['py_cls'], e) is not None:
                    ok = True
        ctx.check('typing.%s/class-or-class-of' % t['py_either'], ok,
                  '%s(obj) is %s(obj if isinstance(obj, type) else type(obj))' % (t['py_either'], t['py_cls']),
                  '%s does not return %s(<%s if it is a class, else its type>)' % (t['py_either'], t['py_cls'], pe),
                  mod.loc(fe))
    # the metaclass hooks of the structseq stub hand on the candidate
    meta = [c for c in mod.tree.body if isinstance(c, ast.ClassDef) and c.name == 'StructSequenceMeta']
    ctx.require(len(meta) == 1, 'optree.typing: class StructSequenceMeta not found')
    for hook, accepted in (('__subclasscheck__', ('return is_structseq_class(?x)',)),
                           ('__instancecheck__', ('return is_structseq_instance(?x)',
                                                  'return is_structseq_class(type(?x))'))):
        ms = [m_ for m_ in meta[0].body if isinstance(m_, ast.FunctionDef) and m_.name == hook]
        ctx.require(len(ms) == 1, 'StructSequenceMeta.%s not found' % hook)
        m_ = ms[0]
        ps = [a.arg for a in m_.args.posonlyargs + m_.args.args]
        rs = [r for r in walk(m_) if isinstance(r, ast.Return)]
        ok = len(ps) == 2 and len(rs) == 1 and any(pmatch(rs[0], pat, {'x': ps[1]}) is not None for pat in accepted)
        ctx.check('typing.StructSequenceMeta.%s/hands-on-the-candidate' % hook, ok,
                  'StructSequenceMeta.%s asks about its second parameter (the candidate)' % hook,
                  'StructSequenceMeta.%s does not return %s with the candidate `%s`: isinstance / issubclass '
                  'against optree.typing.structseq answer about the stub class itself'
                  % (hook, ' or '.join(a.replace('?x', 'candidate')[7:] for a in accepted), ps[1] if len(ps) > 1 else '?'),
                  mod.loc(m_))
    # classification goes through the instance forms, on the object being classified
    for f in [x for x in prog.by_suffix('PyTreeTypeRegistry::GetKind') if not x.dependent]:
        p0 = f.params[0][0]
        for nm in ('IsStructSequenceInstance', 'IsNamedTupleInstance'):
            cs = calls_in(f.body, {nm})
            ok = len(cs) == 1 and member_path(strip_casts(cs[0].call_args()[0])) == p0
            ctx.check('%s/%s' % (short(f), nm), ok,
                      '%s classifies the object with %s(%s)' % (inst(f), nm, p0),
                      '%s does not call %s on the object it classifies' % (inst(f), nm), f.loc)
