"""Node payload rules: M4 node copy complete, M5 spec initialised before it escapes, A3 GC
traverse complete, S1 pickle field table, S2 registry re-binding on unpickle."""
from __future__ import annotations

import re

from ..engine import rule
from ..cxx_ir import CALL_KINDS, CTOR_KINDS
from ..cfg import cfg_of, const_eval
from ..cxx_ir import LOOP_KINDS
from .common import (short, inst, live_funcs, calls_in, callee_func, member_path, local_inits, strip_casts, effectively_const,
                     enclosing_map, ancestors, assignments_to, unnegate)
from .equality import NODE_REC, SPEC_REC, node_fields, tokens, fields_read, _base_is


def payload_fields(prog):
    """Node fields that describe the node (everything except the derived subtree counters)."""
    rec = prog.records.get(NODE_REC)
    return [f[0] for f in rec.fields if not f[0].startswith('num_')]


def pyobject_fields(prog, recname):
    rec = prog.records.get(recname)
    out = []
    for name, typ, _ in rec.fields:
        t = (typ or '').replace('pybind11::', 'py::')
        if re.search(r'\bpy::(object|function|handle|list|tuple|dict|type|str)\b', t):
            out.append((name, t))
    return out


# ---------------------------------------------------------------------------------------------
def _copied_field(prog, e):
    """(source path, field) if e reads field of a Node object (possibly wrapped in a copy ctor)"""
    x = e
    while x is not None and x.kind in CTOR_KINDS and len(x.kids) == 1:
        x = x.kids[0]
    if x is not None and x.kind == 'MemberExpr' and x.name in node_fields(prog) and \
            _base_is(x, 'Node'):
        return member_path(x.kids[0]) if x.kids else 'this', x.name
    return None


@rule('M4', floor=4, title='a Node built from another Node copies every payload field')
def m4(ctx):
    prog = ctx.cxx()
    fields = node_fields(prog)
    ctx.require(len(fields) >= 8, 'struct Node has %d fields (expected >= 8)' % len(fields))
    payload = payload_fields(prog)
    n_sites = 0
    for f in live_funcs(prog):
        if f.body is None or f.qualname.startswith('optree::PyTreeSpec::Node::'):
            continue
        # (a) aggregate initialisation
        for il in f.body.find('InitListExpr'):
            if not (il.type or '').endswith('Node'):
                continue
            ctx.require(len(il.kids) == len(fields),
                        '%s: Node initialiser has %d slots, struct has %d fields'
                        % (inst(f), len(il.kids), len(fields)))
            copied = {}
            for fld, k in zip(fields, il.kids):
                c = _copied_field(prog, k) if k is not None else None
                if c:
                    copied[fld] = c
            srcs = {}
            for fld, (src, sf) in copied.items():
                if fld in payload:
                    srcs.setdefault(src, []).append((fld, sf))
            for src, lst in srcs.items():
                if len(lst) < 2:
                    continue
                n_sites += 1
                for fld in payload:
                    site = '%s/Node{}<-%s/%s' % (short(f), src, fld)
                    got = copied.get(fld)
                    ctx.check(site, got == (src, fld),
                              '%s: Node built from `%s` copies %s' % (inst(f), src, fld),
                              '%s: Node built field-wise from `%s` copies %s but not `%s` (slot '
                              'holds %s): the new node silently loses it'
                              % (inst(f), src, sorted(x for x, _ in lst), fld,
                                 il.kids[fields.index(fld)].text(3)
                                 if il.kids[fields.index(fld)] is not None else 'nothing'),
                              il.loc)
        # (b) field-wise assignment dst.f = src.f
        pairs = {}
        for n in f.body.walk():
            lhs = rhs = None
            if n.kind == 'BinaryOperator' and n.op == '=':
                lhs, rhs = n.kids
            elif n.kind == 'CXXOperatorCallExpr' and n.callee_name() == 'operator=' and \
                    len(n.kids) == 3:
                lhs, rhs = n.kids[1], n.kids[2]
            if lhs is None or lhs.kind != 'MemberExpr' or lhs.name not in payload or \
                    not _base_is(lhs, 'Node'):
                continue
            c = _copied_field(prog, rhs)
            if c and c[1] == lhs.name:
                dst = member_path(lhs.kids[0]) if lhs.kids else 'this'
                pairs.setdefault((dst, c[0]), {})[lhs.name] = n
        for (dst, src), got in pairs.items():
            if len(got) < 2:
                continue
            n_sites += 1
            for fld in payload:
                site = '%s/%s<-%s/%s' % (short(f), dst, src, fld)
                ctx.check(site, fld in got,
                          '%s: field-wise copy %s <- %s copies %s' % (inst(f), dst, src, fld),
                          '%s: field-wise copy %s <- %s copies %s but not `%s`'
                          % (inst(f), dst, src, sorted(got), fld),
                          list(got.values())[0].loc)
        # (c) whole-object copies are complete by construction: counted for the evidence
        for c in f.body.find(*CTOR_KINDS):
            if (c.type or '').replace('const ', '').endswith('PyTreeSpec::Node') and \
                    len(c.kids) == 1 and c.kids[0] is not None and \
                    'Node' in (c.kids[0].type or '') and \
                    re.search(r'\(const (optree::)?PyTreeSpec::Node &\)|\(optree::PyTreeSpec::Node &&\)',
                              (c.x or {}).get('ctorType', '') or ''):
                ctx.ok('%s/Node(copy)' % short(f),
                       '%s: whole-object copy/move of a Node (complete by construction)'
                       % inst(f), c.loc)
    ctx.require(n_sites >= 1, 'no field-wise Node copy found (the broadcast walker builds one)')


# ---------------------------------------------------------------------------------------------
NS_EXEMPT = {
    'PyTreeSpec::MakeLeaf': 'a leaf treespec mentions no custom node and no dict: namespace is irrelevant',
    'PyTreeSpec::MakeNone': 'a None treespec mentions no custom node and no dict: namespace is irrelevant',
}


def _spec_creations(prog, f):
    """(creation call, holder path, is_copy) for std::make_unique<PyTreeSpec>(...) in f"""
    out = []
    parent = enclosing_map(f.body)
    for c in calls_in(f.body, {'make_unique'}):
        if 'PyTreeSpec' not in (c.type or ''):
            continue
        args = [a for a in c.call_args() if a is not None]
        holder = None
        for a in ancestors(c, parent):
            if a.kind == 'VarDecl':
                holder = a.name
                break
            if a.kind == 'CXXOperatorCallExpr' and a.callee_name() == 'operator=':
                holder = _holder_path(a.kids[1])
                break
            if a.kind == 'ReturnStmt':
                holder = '<returned>'
                break
        out.append((c, holder, bool(args)))
    return out


def _holder_path(e):
    if e is None:
        return None
    if e.kind == 'CXXOperatorCallExpr' and e.callee_name() == 'operator[]':
        b = member_path(e.kids[1])
        return (b or '?') + '[]'
    return member_path(e)


def _assign_nodes(f, holder, member):
    """AST nodes assigning to <holder>-><member>"""
    out = []
    for n in f.body.walk():
        lhs = None
        if n.kind == 'BinaryOperator' and n.op == '=':
            lhs = n.kids[0]
            rhs = n.kids[1]
        elif n.kind == 'CXXOperatorCallExpr' and n.callee_name() == 'operator=' and len(n.kids) == 3:
            lhs = n.kids[1]
            rhs = n.kids[2]
        if lhs is None or lhs.kind != 'MemberExpr' or lhs.name != member:
            continue
        b = lhs.kids[0] if lhs.kids else None
        hp = None
        if b is not None and b.kind == 'CXXOperatorCallExpr' and b.callee_name() in ('operator->', 'operator*'):
            hp = _holder_path(b.kids[1])
        else:
            hp = _holder_path(b)
        if hp == holder:
            out.append((n, rhs))
    return out


def _sanity_checks(f, holder):
    """cond AST nodes of the expanded PYTREESPEC_SANITY_CHECK on *holder: a comparison that
    reads <holder>->m_traversal.back().num_nodes"""
    out = []
    for n in f.body.walk():
        if n.kind in ('BinaryOperator',) and n.op in ('==', '!='):
            txt = n.text(8)
            if 'num_nodes' in txt and 'm_traversal' in txt and 'size' in txt:
                base = None
                for m in n.walk():
                    if m.kind == 'MemberExpr' and m.name == 'm_traversal' and m.kids:
                        b = m.kids[0]
                        if b.kind == 'CXXOperatorCallExpr' and b.callee_name() in ('operator->', 'operator*'):
                            base = _holder_path(b.kids[1])
                        elif b.kind == 'UnaryOperator' and b.op == '*':
                            bb = b.kids[0]
                            if bb.kind == 'CXXOperatorCallExpr':
                                base = _holder_path(bb.kids[1]) if len(bb.kids) > 1 else None
                            else:
                                base = _holder_path(bb)
                        else:
                            base = _holder_path(b)
                        break
                if base == holder:
                    out.append(n)
    return out


@rule('M5', floor=20, title='a new treespec gets its flags and passes the sanity check before it escapes')
def m5(ctx):
    prog = ctx.cxx()
    n = 0
    for f in live_funcs(prog):
        if f.body is None:
            continue
        cr = _spec_creations(prog, f)
        if not cr:
            continue
        cfg = cfg_of(f)
        owner = f if not f.is_lambda else prog.funcs.get(f.parent, f)
        oname = short(owner)
        for idx, (c, holder, is_copy) in enumerate(cr):
            n += 1
            site = '%s/spec%d' % (short(f), idx)
            if is_copy:
                ctx.ok(site + '/copy', '%s: treespec created as a whole-object copy (flags, '
                       'namespace and nodes come along)' % inst(f), c.loc)
                continue
            ctx.require(holder is not None and holder != '<returned>',
                        '%s: cannot tell where the new PyTreeSpec is stored (%s)' % (inst(f), c.loc))
            cn = cfg.cnode_of(c)
            for member, what in (('m_none_is_leaf', 'none_is_leaf flag'),
                                 ('m_namespace', 'namespace')):
                asg = _assign_nodes(f, holder, member)
                cut = {cfg.cnode_of(a) for a, _ in asg}
                pd = bool(asg) and cfg.exit.idx not in cfg.reachable_from([cn], None, cut)
                if member == 'm_namespace':
                    ex = NS_EXEMPT.get(oname)
                    if ex and not asg:
                        ctx.ok(site + '/' + member, '%s: exempt - %s' % (inst(f), ex), c.loc)
                        continue
                    if oname in ('PyTreeSpec::Flatten', 'PyTreeSpec::FlattenWithPath'):
                        _m5_flatten_namespace(ctx, prog, f, cfg, site, asg, holder, c)
                        continue
                ctx.check(site + '/' + member, bool(pd),
                          '%s: %s of the new treespec `%s` is assigned on every path to a normal '
                          'return' % (inst(f), what, holder),
                          '%s: the new treespec `%s` can be returned without its %s being set '
                          '(%d assignment(s), none on every path)' % (inst(f), holder, what, len(asg)),
                          c.loc)
                if member == 'm_namespace' and pd:
                    # the value must come from a treespec namespace or a namespace parameter
                    inits = local_inits(f)
                    good = False
                    for a, rhs in asg:
                        toks = tokens(prog, f, rhs, inits)
                        p = member_path(rhs)
                        is_param = p in [pp[0] for pp in f.params]
                        if 'm_namespace' in toks or is_param or _is_unpickled(rhs):
                            good = True
                    ctx.check(site + '/m_namespace/source', good,
                              '%s: namespace of the new treespec derives from the source '
                              'treespec(s) / the requested namespace' % inst(f),
                              '%s: namespace of the new treespec is not derived from a source '
                              'treespec or the namespace argument' % inst(f), c.loc)
            sc = _sanity_checks(f, holder)
            # ... a comparison whose "differs" outcome cannot reach the normal exit (it throws)
            sc = [s for s in sc if cfg.cnode_of(s) is not None and cfg.exit.idx not in cfg.forward_reachable(
                [w for (w, lab) in cfg.succ[cfg.cnode_of(s)] if lab is (s.op == '!=')])]
            cut = {cfg.cnode_of(s) for s in sc if cfg.cnode_of(s) is not None}
            pd = bool(cut) and cfg.exit.idx not in cfg.reachable_from([cn], None, cut)
            ctx.check(site + '/sanity', bool(pd),
                      '%s: PYTREESPEC_SANITY_CHECK(*%s) is passed before returning' % (inst(f), holder),
                      '%s: the new treespec `%s` is returned without PYTREESPEC_SANITY_CHECK'
                      % (inst(f), holder), c.loc)
    ctx.analysed['make_unique_PyTreeSpec_sites'] = n
    # a treespec derived from an existing one (a non-static method that returns treespecs) is
    # not handed out through a factory that drops the namespace: `child(i)` of a namespaced
    # treespec must carry what `children()[i]` carries
    rec = prog.records.get('optree::PyTreeSpec')
    static_names = {nm for nm, sig, isc, iss, acc in rec.methods if iss} if rec is not None else set()
    nd = 0
    for f in live_funcs(prog):
        if f.body is None or f.is_lambda or f.record != 'optree::PyTreeSpec' or f.name in static_names or \
                getattr(f, 'is_static', False):
            continue
        if 'unique_ptr<' not in (f.sig or '') and 'unique_ptr<' not in (getattr(f, 'rtype', '') or ''):
            rets_ = [r for r in f.body.walk() if r.kind == 'ReturnStmt' and r.kids and
                     'unique_ptr<optree::PyTreeSpec' in ((r.kids[0].type or '').replace('PyTreeSpec', 'optree::PyTreeSpec')
                                                         .replace('optree::optree::', 'optree::'))]
            if not rets_:
                continue
        for r in f.body.walk():
            if r.kind != 'ReturnStmt' or not r.kids or r.kids[0] is None:
                continue
            v = strip_casts(r.kids[0])
            while v is not None and v.kind in CTOR_KINDS and len(v.kids) == 1:
                v = strip_casts(v.kids[0])
            if v is None or v.kind != 'CallExpr':
                continue
            g = prog.target(f, v)
            if g is None or g.body is None or g.record != 'optree::PyTreeSpec' or \
                    'PyTreeSpec' not in (v.type or ''):
                continue
            nd += 1
            pnames = {p_[0] for p_ in g.params if p_[0]}
            carries = False
            for n_ in g.body.walk():
                lhs = rhs = None
                if n_.kind == 'BinaryOperator' and n_.op == '=' and len(n_.kids) == 2:
                    lhs, rhs = n_.kids
                elif n_.kind == 'CXXOperatorCallExpr' and n_.callee_name() == 'operator=' and len(n_.kids) == 3:
                    lhs, rhs = n_.kids[1], n_.kids[2]
                if lhs is not None and lhs.kind == 'MemberExpr' and lhs.name == 'm_namespace' and \
                        member_path(strip_casts(rhs)) in pnames:
                    carries = True
            ctx.check('%s/returns-%s' % (short(f), g.name), carries,
                      '%s: the treespec returned through %s() carries the namespace it is given' % (inst(f), g.name),
                      '%s returns %s(...), which does not record the namespace it is given: the derived '
                      'treespec has no namespace although the treespec it was derived from (and its siblings '
                      'built in place) have one - `.namespace`, repr and what is rebuilt from it differ'
                      % (inst(f), g.name), r.loc)
    ctx.analysed['derived_specs_through_factories'] = nd


def _is_unpickled(rhs):
    for n in rhs.walk():
        if n.kind == 'CXXOperatorCallExpr' and n.callee_name() == 'operator[]':
            return True
    return False


def _m5_flatten_namespace(ctx, prog, f, cfg, site, asg, holder, c):
    """Flatten/FlattenWithPath record the namespace exactly when FlattenInto* says so."""
    ok = False
    detail = 'no assignment'
    parent = enclosing_map(f.body)
    for a, rhs in asg:
        ifs = [x for x in ancestors(a, parent) if x.kind == 'IfStmt']
        if len(ifs) != 1:
            detail = 'assignment not under exactly one if'
            continue
        cond = ifs[0].kids[0]
        callee = cond.callee_name() if cond is not None and cond.kind in CALL_KINDS else None
        pr = member_path(rhs)
        if callee in ('FlattenInto', 'FlattenIntoWithPath') and \
                pr in [p[0] for p in f.params] and 'string' in dict((p[0], p[1]) for p in f.params)[pr]:
            ok = True
        else:
            detail = 'condition is %s, value is %s' % (cond.text(3) if cond else None, pr)
    ctx.check(site + '/m_namespace', ok,
              '%s: the namespace is recorded on the treespec exactly when %s reports a custom '
              'node or a namespace-local dict-order mode' % (inst(f), 'FlattenInto*'),
              '%s: namespace recording is not guarded by the flag FlattenInto* returns (%s)'
              % (inst(f), detail), c.loc)
    # and FlattenInto* returns found_custom || own-namespace-mode
    for name in ('PyTreeSpec::FlattenInto', 'PyTreeSpec::FlattenIntoWithPath'):
        pass


@rule('M5b', floor=2, title='a treespec derived from two treespecs takes its namespace from both')
def m5b(ctx):
    """`==` treats '' as a wildcard, so a result that silently keeps only one operand's namespace
    still compares equal - but it looks up custom nodes in the wrong namespace."""
    prog = ctx.cxx()
    n = 0
    for f in live_funcs(prog):
        if f.body is None or f.is_lambda or f.record != SPEC_REC:
            continue
        others = [p[0] for p in f.params if 'PyTreeSpec' in (p[1] or '') and '&' in (p[1] or '')]
        cr = [c for c in _spec_creations(prog, f) if not c[2]]
        if not others or not cr or f.is_static:
            continue
        for c, holder, _ in cr:
            asg = _assign_nodes(f, holder, 'm_namespace')
            if not asg:
                continue
            n += 1
            srcs = set()
            for a, rhs in asg:
                p = member_path(rhs)
                if p:
                    srcs.add(p)
            for o in others:
                ctx.check('%s/namespace-from-%s' % (short(f), o),
                          ('%s.m_namespace' % o) in srcs and 'm_namespace' in srcs,
                          '%s: the result takes its namespace from this treespec or from `%s`, '
                          'whichever has one' % (inst(f), o),
                          '%s: the namespace of the result is assigned from %s only - the namespace '
                          'of `%s` is dropped, and == cannot see it because an empty namespace is '
                          'a wildcard' % (inst(f), sorted(srcs), o), c.loc)
    ctx.require(n >= 2, 'only %d two-operand treespec producers found (Compose, BroadcastToCommonSuffix)' % n)
    # the same for producers that meet other treespecs on the way (Transform: the treespecs its
    # callbacks return; the constructor: the child treespecs): every namespace that is read from
    # another treespec flows - through the locals that reconcile them - into the result's namespace
    m = 0
    for f in live_funcs(prog):
        if f.body is None or f.is_lambda or f.record != SPEC_REC:
            continue
        cr = [c for c in _spec_creations(prog, f) if not c[2]]
        if not cr:
            continue
        foreign = set()
        for x in f.body.walk():
            if x.kind == 'MemberExpr' and x.name == 'm_namespace' and x.kids and x.kids[0] is not None and \
                    x.kids[0].kind != 'CXXThisExpr':
                p_ = member_path(x)
                if p_ and not any(p_.startswith(h + '.') or p_.startswith(h + '->') for _, h, _ in cr if h):
                    foreign.add(p_)
        if not foreign:
            continue
        # what each string local can hold: initialiser and every assignment, transitively
        holds = {}
        for x in f.body.walk():
            tgt = val = None
            if x.kind == 'VarDecl' and x.name and x.kids and 'string' in (x.type or ''):
                tgt, val = x.name, x.kids[-1]
            elif x.kind == 'CXXOperatorCallExpr' and x.callee_name() == 'operator=' and len(x.kids) == 3:
                tgt, val = member_path(x.kids[1]), x.kids[2]
            elif x.kind == 'BinaryOperator' and x.op == '=' and len(x.kids) == 2:
                tgt, val = member_path(x.kids[0]), x.kids[1]
            if tgt and val is not None and '.' not in tgt:
                for y in val.walk():
                    q = member_path(y) if y.kind in ('MemberExpr', 'DeclRefExpr') else None
                    if q:
                        holds.setdefault(tgt, set()).add(q)

        def closure(name, seen=None):
            seen = seen or set()
            out = set()
            for q in holds.get(name, ()):
                out.add(q)
                if q in holds and q not in seen:
                    out |= closure(q, seen | {name})
            return out
        for c, holder, _ in cr:
            asg = _assign_nodes(f, holder, 'm_namespace')
            if not asg:
                continue
            srcs = set()
            for a, rhs in asg:
                for y in rhs.walk():
                    q = member_path(y) if y.kind in ('MemberExpr', 'DeclRefExpr') else None
                    if q:
                        srcs.add(q)
                        srcs |= closure(q)
            # the function's own namespace parameter counts as the caller's choice (constructors)
            lost = sorted(q for q in foreign if q not in srcs)
            m += 1
            ctx.check('%s/namespace-of-every-treespec-met' % short(f), not lost,
                      '%s: every namespace read from another treespec reaches the result\'s namespace' % inst(f),
                      '%s reads %s but the result\'s namespace is assigned from %s only: the namespace of '
                      'the treespecs met on the way is dropped, and == cannot see it because an empty '
                      'namespace is a wildcard' % (inst(f), lost, sorted(x for x in srcs if 'namespace' in x)),
                      c.loc)
    ctx.analysed['namespace_merging_producers'] = m


# ---------------------------------------------------------------------------------------------
@rule('A3', floor=3, title='GC traversal visits every Python object a treespec node holds')
def a3(ctx):
    prog = ctx.cxx()
    tv = prog.one('PyTreeSpec::PyTpTraverse')
    visited = set()
    for c in calls_in(tv.body, {'visit'}):
        for m in c.walk():
            if m.kind == 'MemberExpr' and m.name in node_fields(prog) and _base_is(m, 'Node'):
                visited.add(m.name)
    objs = pyobject_fields(prog, NODE_REC)
    ctx.require(len(objs) >= 3, 'struct Node has %d Python-object fields (expected >= 3)' % len(objs))
    for name, typ in objs:
        ctx.check('PyTreeSpec::PyTpTraverse/' + name, name in visited,
                  'Node::%s (%s) is visited by tp_traverse' % (name, typ),
                  'Node::%s (%s) holds a Python object but PyTreeSpec::PyTpTraverse does not '
                  'visit it: reference cycles through it are never collected' % (name, typ),
                  tv.loc)
    # ... for every node kind that can carry the field: the only way round a visit is the field
    # being null.  Which kinds can carry a field is read off the producers (every assignment to
    # Node::<field>, with the kinds under which the assignment is reachable).
    from ..descriptors import kind_edge_filter
    from .common import ALL_KINDS
    may = {n: set() for n, _ in objs}
    nsites = 0
    for g in live_funcs(prog):
        if g.body is None:
            continue
        sites = []
        for a in g.body.walk():
            lhs = None
            if a.kind == 'BinaryOperator' and a.op == '=':
                lhs = a.kids[0]
            elif a.kind == 'CXXOperatorCallExpr' and a.callee_name() == 'operator=' and len(a.kids) >= 3:
                lhs = a.kids[1]
            lhs = strip_casts(lhs) if lhs is not None else None
            if lhs is not None and lhs.kind == 'MemberExpr' and lhs.name in may and _base_is(lhs, 'Node'):
                sites.append((a, lhs))
        if not sites:
            continue
        gcfg = cfg_of(g)
        for a, lhs in sites:
            base = member_path(lhs.kids[0]) if lhs.kids else None
            cn = gcfg.cnode_of(a)
            if base is None or cn is None:
                continue
            nsites += 1
            for k in ALL_KINDS:
                if cn in gcfg.reachable_from([gcfg.entry.idx], kind_edge_filter(gcfg, k, base + '.kind')):
                    may[lhs.name].add(k)
    ctx.require(nsites >= 10, 'only %d assignments to Node payload fields found' % nsites)
    ctx.analysed['kinds_that_can_carry'] = {n: sorted(v) for n, v in may.items()}
    cfg = cfg_of(tv)
    parent = enclosing_map(tv.body)

    def fields_in(a):
        return {m.name for m in a.walk() if m.kind == 'MemberExpr' and m.name in node_fields(prog)
                and _base_is(m, 'Node')}
    for name, typ in objs:
        vnodes = set()
        loops = []
        subject = None
        for c in calls_in(tv.body, {'visit'}):
            if name in fields_in(c):
                vnodes.add(cfg.cnode_of(c))
                ls = [a for a in ancestors(c, parent) if a.kind in LOOP_KINDS]
                if ls:
                    loops.append(ls[-1])
                for m in c.walk():
                    if m.kind == 'MemberExpr' and m.name == name and m.kids:
                        subject = member_path(m.kids[0])
        if not vnodes or not loops or subject is None:
            continue
        body = loops[0].kids[-1]
        first = [cfg.cnode_of(x) for x in body.walk() if cfg.cnode_of(x) is not None]
        ctx.require(first, 'PyTpTraverse: loop body has no CFG nodes')
        entry = min(first)
        inside = set(first)
        cands = {w for (v, w) in cfg.back_edges if v in inside}
        heads = {w for w in cands if all(cfg.dominates(w, x) for x in cands)}   # the outer loop's head
        ctx.require(heads, 'PyTpTraverse: loop head not found')
        bad = []
        for k in sorted(may[name]):
            kf = kind_edge_filter(cfg, k, subject + '.kind')

            def skip(v, w, lab, name=name, kf=kf):
                if kf(v, w, lab):
                    return True
                cn = cfg.nodes[v]
                # the null test of the visited field itself (Py_VISIT's `if (op)`)
                return cn.kind == 'cond' and lab is False and cn.ast is not None and \
                    fields_in(cn.ast) == {name} and not any(x.kind == 'BinaryOperator' for x in cn.ast.walk())
            reach = cfg.reachable_from([entry], skip, vnodes | heads)
            if any(w in heads for v in reach for (w, lab) in cfg.succ[v] if not skip(v, w, lab)):
                bad.append(k)
        ctx.check('PyTreeSpec::PyTpTraverse/%s/every-kind' % name, not bad,
                  'Node::%s is visited for every node kind that can carry it (%s); only a null '
                  'field is skipped' % (name, ', '.join(sorted(may[name]))),
                  'Node::%s is not visited for nodes of kind %s, which store a Python object there: '
                  'reference cycles through the metadata of such nodes are never collected'
                  % (name, ', '.join(bad)), tv.loc)
    # fields must be owning types, never py::handle (A4)
    for recname in (NODE_REC, 'optree::PyTreeTypeRegistry::Registration'):
        rec = prog.records.get(recname)
        ctx.require(rec is not None, 'record %s not found' % recname)
        for name, typ, _ in rec.fields:
            t = (typ or '').replace('pybind11::', 'py::')
            if 'py::' in t:
                ctx.check('%s/%s/owning' % (recname.split('::')[-1], name),
                          'py::handle' not in t,
                          '%s::%s has an owning type (%s)' % (recname.split('::')[-1], name, t),
                          '%s::%s is a non-owning py::handle: the object can be freed while the '
                          'treespec / registration still points to it' % (recname.split('::')[-1], name),
                          '%s:%s' % (rec.file, rec.line))
    # iterator: cross-reference only
    it = prog.one('PyTreeIter::PyTpTraverse')
    rec = prog.records.get('optree::PyTreeIter')
    seen = {m.name for c in calls_in(it.body, {'visit'}) for m in c.walk() if m.kind == 'MemberExpr'}
    for name, typ, _ in rec.fields:
        t = (typ or '').replace('pybind11::', 'py::')
        if 'py::' in t and name not in seen:
            ctx.info('PyTreeIter::PyTpTraverse/' + name,
                     'cross-reference: PyTreeIter::%s (%s) is not visited by its tp_traverse '
                     '(the property speaks of treespecs)' % (name, t), it.loc)


# ---------------------------------------------------------------------------------------------
def _writer_table(ctx, prog):
    f = prog.one('PyTreeSpec::ToPickleable')
    inits = local_inits(f)
    node_tab = None
    state_tab = None
    for c in calls_in(f.body, {'make_tuple'}):
        args = [a for a in c.call_args() if a is not None]
        tab = {}
        for i, a in enumerate(args):
            toks = tokens(prog, f, a, {})   # no local expansion: the loop var is a Node
            tab[i] = toks
        if any('kind' in t for t in tab.values()):
            node_tab = (tab, c)
        else:
            # state tuple: expand locals (node_states)
            tab2 = {}
            for i, a in enumerate(args):
                p = member_path(a)
                toks = tokens(prog, f, a, {})
                if not toks and p:
                    toks = {'<' + p + '>'}
                tab2[i] = toks
            state_tab = (tab2, c)
    ctx.require(node_tab is not None, 'ToPickleable: per-node tuple not found')
    ctx.require(state_tab is not None, 'ToPickleable: state tuple not found')
    return f, node_tab, state_tab


def _index_reads(e, var):
    """integer indices i of `var[i]` under expression e"""
    out = []
    if e is None:
        return out
    for n in e.walk():
        if n.kind == 'CXXOperatorCallExpr' and n.callee_name() == 'operator[]' and len(n.kids) == 3:
            if member_path(n.kids[1]) == var:
                v = const_eval(n.kids[2])
                if isinstance(v, int):
                    out.append(v)
    return out


def _reader_table(ctx, prog):
    f = prog.one('PyTreeSpec::FromPickleable')
    node_tab = {}
    state_tab = {}
    # tuple variables: the per-node tuple is the one indexed with the most distinct constants
    idx_by_var = {}
    for n in f.body.walk():
        if n.kind == 'CXXOperatorCallExpr' and n.callee_name() == 'operator[]' and len(n.kids) == 3:
            v = member_path(n.kids[1])
            c = const_eval(n.kids[2])
            if v and isinstance(c, int):
                idx_by_var.setdefault(v, set()).add(c)
    ctx.require(len(idx_by_var) >= 2, 'FromPickleable: expected two indexed tuples, found %s'
                % sorted(idx_by_var))
    by_size = sorted(idx_by_var.items(), key=lambda kv: -len(kv[1]))
    tvar, svar = by_size[0][0], by_size[1][0]

    inits = local_inits(f)
    lambdas = {}
    for v in f.body.walk():
        if v.kind == 'VarDecl' and v.name and v.kids and v.kids[-1] is not None:
            for le in v.kids[-1].walk(into_lambdas=False):
                if le.kind == 'LambdaExpr':
                    lf = prog.lambda_func(f, le)
                    if lf is not None and lf.body is not None:
                        lambdas[v.name] = lf

    def deep_reads(e, var, depth=0, seen=None):
        """positions of `var` that flow into e: read directly, through a local that was
        initialised from them (`const py::object cls = t[4]`), or inside a local lambda e calls"""
        seen = seen if seen is not None else set()
        out = list(_index_reads(e, var))
        if e is None or depth > 3:
            return out
        for n in e.walk():
            if n.kind == 'DeclRefExpr' and (n.ref or {}).get('kind') == 'VarDecl':
                nm = n.ref.get('name')
                if nm in (tvar, svar) or nm in seen:
                    continue
                if nm in lambdas:
                    seen.add(nm)
                    out += deep_reads(lambdas[nm].body, var, depth + 1, seen)
                elif nm in inits and inits[nm] is not e:
                    seen.add(nm)
                    out += deep_reads(inits[nm], var, depth + 1, seen)
        return out

    def record(lhs, rhs, where):
        if lhs is None or lhs.kind != 'MemberExpr':
            return
        fld = lhs.name
        for i in deep_reads(rhs, tvar):
            node_tab.setdefault(i, set()).add(fld)
        for i in deep_reads(rhs, svar):
            state_tab.setdefault(i, set()).add(fld)
    for n in f.body.walk():
        if n.kind == 'BinaryOperator' and n.op == '=':
            record(n.kids[0], n.kids[1], n)
            # chained: a = b = expr
            r = n.kids[1]
            if r is not None and r.kind == 'BinaryOperator' and r.op == '=':
                record(n.kids[0], r.kids[1], n)
        elif n.kind == 'CXXOperatorCallExpr' and n.callee_name() == 'operator=' and len(n.kids) == 3:
            record(n.kids[1], n.kids[2], n)
            r = n.kids[2]
            if r is not None and r.kind == 'CXXOperatorCallExpr' and r.callee_name() == 'operator=' \
                    and len(r.kids) == 3:
                record(n.kids[1], r.kids[2], n)
    # the node tuple itself comes out of the state tuple: `node_states = cast<tuple>(state[0])`
    for n in f.body.walk():
        if n.kind == 'VarDecl' and n.kids and n.kids[-1] is not None:
            for i in _index_reads(n.kids[-1], svar):
                state_tab.setdefault(i, set()).add('<' + n.name + '>')
    return f, node_tab, state_tab, tvar, svar, idx_by_var


@rule('S1', floor=11, title='pickle writer and reader use the same position -> field table')
def s1(ctx):
    prog = ctx.cxx()
    wf, (wnode, wc), (wstate, wsc) = _writer_table(ctx, prog)
    rf, rnode, rstate, tvar, svar, idx = _reader_table(ctx, prog)
    fields = node_fields(prog)
    # every Node field is written at exactly one position
    pos_of = {}
    for i, toks in wnode.items():
        flds = [t for t in toks if t in fields]
        ctx.require(len(flds) <= 1, 'ToPickleable position %d mentions fields %s' % (i, sorted(toks)))
        if flds:
            pos_of[flds[0]] = i
    for fld in fields:
        ctx.check('ToPickleable/has-' + fld, fld in pos_of,
                  'Node::%s is part of the pickled state (position %s)' % (fld, pos_of.get(fld)),
                  'Node::%s is not part of the pickled state: it is lost by pickle round trips'
                  % fld, wc.loc)
    for fld, i in sorted(pos_of.items(), key=lambda kv: kv[1]):
        got = rnode.get(i, set())
        ctx.check('FromPickleable/t[%d]->%s' % (i, fld), fld in got,
                  'position %d: written from Node::%s, read back into Node::%s' % (i, fld, fld),
                  'position %d is written from Node::%s but FromPickleable stores it into %s'
                  % (i, fld, sorted(got) or 'nothing'), rf.loc)
    for i, flds in sorted(rnode.items()):
        extra = [x for x in flds if x in fields and pos_of.get(x) != i]
        ctx.check('FromPickleable/t[%d]/no-cross' % i, not extra,
                  'position %d feeds only its own field' % i,
                  'position %d also feeds %s, which the writer puts elsewhere' % (i, extra), rf.loc)
    # outer state tuple
    wmap = {}
    for i, toks in wstate.items():
        for t in toks:
            wmap[i] = t
    for i, t in sorted(wmap.items()):
        got = rstate.get(i, set())
        if t.startswith('<'):
            ok = any(g.startswith('<') for g in got)
        else:
            ok = t in got
        ctx.check('FromPickleable/state[%d]' % i, ok,
                  'state[%d]: written from %s, read back into %s' % (i, t, sorted(got)),
                  'state[%d] is written from %s but read into %s' % (i, t, sorted(got) or 'nothing'),
                  rf.loc)
    # the reader takes every payload field from its position and from nowhere else: a second
    # assignment from another source (a reset, a "normalisation") makes the loaded treespec differ
    # from the one that was pickled - and from what the writer will accept next time
    payload = {n_ for n_, _ in pyobject_fields(prog, NODE_REC)}
    foreign = []
    for n_ in rf.body.walk():
        lhs = rhs = None
        if n_.kind == 'BinaryOperator' and n_.op == '=':
            lhs, rhs = n_.kids
        elif n_.kind == 'CXXOperatorCallExpr' and n_.callee_name() == 'operator=' and len(n_.kids) == 3:
            lhs, rhs = n_.kids[1], n_.kids[2]
        if lhs is None or lhs.kind != 'MemberExpr' or lhs.name not in payload or not _base_is(lhs, 'Node'):
            continue
        if not _index_reads(rhs, tvar):
            # `if (t[k].is_none()) field = py::none();` with k the field's own position says the
            # same as `field = t[k]` on that outcome
            from .common import if_outcome
            r_ = strip_casts(rhs)
            is_none_value = r_ is not None and ((r_.kind in CTOR_KINDS and 'none' in (r_.type or '')) or
                                                (r_.kind in CALL_KINDS and r_.callee_name() == 'none'))
            same = False
            if is_none_value:
                par_ = enclosing_map(rf.body)
                for anc in ancestors(n_, par_):
                    if anc.kind != 'IfStmt' or (anc.x or {}).get('hasInit') or (anc.x or {}).get('hasVar'):
                        continue
                    base, outcome = if_outcome(anc, n_)
                    if outcome is True and base is not None and base.kind == 'CXXMemberCallExpr' and \
                            base.callee_name() == 'is_none' and \
                            _index_reads(base.call_base(), tvar) == [pos_of.get(lhs.name)]:
                        same = True
            if not same:
                foreign.append(n_)
    ctx.check('FromPickleable/payload-only-from-state', not foreign,
              'FromPickleable assigns the payload fields (%s) only from their state positions'
              % ', '.join(sorted(payload)),
              'FromPickleable assigns `%s` from something other than the pickled state: the loaded '
              'treespec is not the pickled one (a later round trip can then fail or differ)'
              % (foreign[0].text(5)[:90] if foreign else ''), foreign[0].loc if foreign else rf.loc)
    # the same for the two flags of the treespec: written from their state positions, then left
    # alone (no clear(), no second assignment, no "only if a custom node was seen")
    flag_writes = []
    for n_ in rf.body.walk():
        lhs = rhs = None
        if n_.kind == 'BinaryOperator' and n_.op == '=':
            lhs, rhs = n_.kids
        elif n_.kind == 'CXXOperatorCallExpr' and n_.callee_name() in ('operator=', 'operator+=') and \
                len(n_.kids) == 3:
            lhs, rhs = n_.kids[1], n_.kids[2]
        elif n_.kind == 'CXXMemberCallExpr' and n_.callee_name() in (
                'clear', 'assign', 'append', 'erase', 'resize', 'swap', 'push_back', 'pop_back', 'insert',
                'replace'):
            b_ = n_.call_base()
            if b_ is not None and b_.kind == 'MemberExpr' and b_.name in ('m_namespace', 'm_none_is_leaf'):
                flag_writes.append((n_, b_.name, None))
            continue
        if lhs is not None and lhs.kind == 'MemberExpr' and lhs.name in ('m_namespace', 'm_none_is_leaf'):
            flag_writes.append((n_, lhs.name, rhs))
    # chained `out->m_namespace = registry_namespace = cast(state[2])`: the state read is below the chain
    odd = [(n_, nm) for n_, nm, rhs in flag_writes if rhs is None or not _index_reads(rhs, svar)]
    per_flag = {nm: sum(1 for _, x, _ in flag_writes if x == nm) for nm in ('m_namespace', 'm_none_is_leaf')}
    ctx.check('FromPickleable/flags-only-from-state',
              not odd and all(v == 1 for v in per_flag.values()),
              'FromPickleable writes none_is_leaf and namespace once each, from their state positions',
              'FromPickleable %s: the loaded treespec does not carry the flags that were pickled (== '
              'cannot see a dropped namespace, repr and later lookups can)'
              % ('changes `%s` with `%s`' % (odd[0][1], odd[0][0].text(4)[:70]) if odd else
                 'writes the flags %s times' % per_flag), odd[0][0].loc if odd else rf.loc)
    # every position is written unconditionally: the only condition allowed around a value is
    # the null test of that very value (`x ? x : None`)
    for label, call in (('node', wc), ('state', wsc)):
        for i, a in enumerate([x for x in call.call_args() if x is not None]):
            bad = None
            for co in a.walk():
                if co.kind != 'ConditionalOperator' or len(co.kids) != 3:
                    continue
                cond, tv, fv = co.kids

                def names(e):
                    return {m.name for m in e.walk() if m.kind == 'MemberExpr' and m.name and
                            not m.name.startswith('operator')} | \
                           {(d.ref or {}).get('name') for d in e.walk() if d.kind == 'DeclRefExpr'
                            and (d.ref or {}).get('kind') in ('VarDecl', 'ParmVarDecl')}
                cn = {x for x in names(cond) if x}
                tn = {x for x in names(tv) if x}
                if not (cn and cn <= tn | {'ptr'} and 'none' in fv.text(4)):
                    bad = co
            ctx.check('ToPickleable/%s[%d]/unconditional' % (label, i), bad is None,
                      'ToPickleable: %s position %d is written for every treespec (only a null value '
                      'is replaced by None)' % (label, i),
                      'ToPickleable: %s position %d is written as `%s`: for some treespecs the value '
                      'is replaced, so the unpickled treespec differs from the original (repr, '
                      'namespace, lookups)' % (label, i, bad.text(5) if bad is not None else ''),
                      (bad.loc if bad is not None else wf.loc))
    # the state of node i is written from node i, in the iteration that visits it: one per-node
    # tuple constructor, stored on every path through the loop body, straight from the constructor
    # (or from a local initialised by it) - not from a memo shared between nodes
    node_ctors = [c for c in calls_in(wf.body, {'make_tuple'})
                  if any('kind' in tokens(prog, wf, a, {}) for a in c.call_args() if a is not None)]
    holder = next(iter(wstate.get(0, {'<?>'})), '<?>').strip('<>')
    stores = [c for c in calls_in(wf.body, {'TupleSetItem', 'PyTuple_SET_ITEM', 'PyTuple_SetItem'})
              if c.call_args() and member_path(strip_casts(c.call_args()[0])) == holder]
    cfgw = cfg_of(wf)
    why = None
    if len(node_ctors) != 1:
        why = '%d constructors of a per-node state tuple' % len(node_ctors)
    elif len(stores) != 1:
        why = '%d stores into `%s`' % (len(stores), holder)
    else:
        st = stores[0]
        val = strip_casts(st.call_args()[2]) if len(st.call_args()) > 2 else None
        direct = val is not None and any(x is node_ctors[0] for x in val.walk())
        if not direct and val is not None and val.kind == 'DeclRefExpr':
            iv = local_inits(wf).get(member_path(val))
            vd = [v for v in wf.body.find('VarDecl') if v.name == member_path(val)]
            direct = iv is not None and any(x is node_ctors[0] for x in iv.walk()) and \
                all('&' not in (v.type or '') for v in vd)
        sn = cfgw.cnode_of(st)
        heads = {w for (v, w) in cfgw.back_edges if sn is not None and cfgw.dominates(w, sn)}
        if not direct:
            why = 'the value stored (`%s`) is not the tuple built from this node' % (val.text(4) if val is not None else '?')
        elif sn is None or not heads:
            why = 'the store is not inside the loop over the nodes'
        else:
            # from the loop head, the next visit of the head cannot be reached without the store
            for h in heads:
                body_in = [w for (w, lab) in cfgw.succ[h]]
                r = cfgw.reachable_from(body_in, None, {sn})
                if any((v, h) in cfgw.back_edges for v in r):
                    why = 'a path through the loop body skips the store'
    ctx.check('ToPickleable/one-state-per-node', why is None,
              'ToPickleable builds the state of every node from that node, in its own iteration',
              'ToPickleable: %s: the state written for a node need not be that node\'s (its counts, '
              'data or keys can be another node\'s)' % why, wf.loc)
    ctx.check('ToPickleable/state-has-flags',
              {'m_none_is_leaf', 'm_namespace'} <= set(wmap.values()),
              'none_is_leaf and namespace are part of the pickled state',
              'pickled state lacks %s' % sorted({'m_none_is_leaf', 'm_namespace'} - set(wmap.values())),
              wsc.loc)


@rule('S2', floor=4, title='unpickling re-binds custom nodes through the registry and rejects unknown ones')
def s2(ctx):
    prog = ctx.cxx()
    f = prog.one('PyTreeSpec::FromPickleable')
    cfg = cfg_of(f)
    # (lookup call, the namespace expression as FromPickleable itself writes it, the statement of
    # FromPickleable from which the lookup happens) - a lookup inside a local lambda is judged at
    # the calls of that lambda, with the argument that is bound to the lambda's parameter
    direct = [c for c in calls_in(f.body, {'Lookup'})]
    sites = [(c, (c.call_args()[1] if len(c.call_args()) > 1 else None), c, callee_func(prog, f, c)) for c in direct]
    for v in f.body.walk():
        if v.kind == 'VarDecl' and v.name and v.kids and v.kids[-1] is not None:
            for le in v.kids[-1].walk(into_lambdas=False):
                if le.kind != 'LambdaExpr':
                    continue
                lf = prog.lambda_func(f, le)
                if lf is None or lf.body is None:
                    continue
                inner = calls_in(lf.body, {'Lookup'})
                pn = [p_[0] for p_ in lf.params]
                for c in inner:
                    a = c.call_args()
                    nsp = member_path(a[1]) if len(a) > 1 and a[1] is not None else None
                    for call in f.body.walk():
                        if call.kind == 'CXXOperatorCallExpr' and call.callee_name() == 'operator()' and \
                                len(call.kids) >= 2 and member_path(strip_casts(call.kids[1])) == v.name:
                            args = call.kids[2:]
                            ns_here = args[pn.index(nsp)] if nsp in pn and pn.index(nsp) < len(args) else \
                                (a[1] if len(a) > 1 else None)
                            sites.append((c, ns_here, call, callee_func(prog, lf, c)))
    looks = [s_[2] for s_ in sites]
    ctx.require(len(sites) >= 2, 'FromPickleable: %d Lookup calls' % len(sites))
    # the namespace argument is the recorded namespace (what state[2] was stored into)
    inits = local_inits(f)
    for c, ns, anchor, t in sites:
        p = member_path(ns)
        srcs = assignments_to(f, p) if p else []
        # chained assignment: out->m_namespace = registry_namespace = cast(state[2])
        from_state = False
        for n in f.body.walk():
            if n.kind == 'CXXOperatorCallExpr' and n.callee_name() == 'operator=' and len(n.kids) == 3 \
                    and member_path(n.kids[1]) == p and _is_unpickled(n.kids[2]):
                from_state = True
        tkn = tokens(prog, f, ns, inits) if ns is not None else set()
        ctx.check('FromPickleable/Lookup<%s>/namespace' % (t.targs[0] if t else '?'),
                  from_state or 'm_namespace' in tkn,
                  'registry lookup uses the namespace recorded in the pickle',
                  'registry lookup uses `%s`, which is not the namespace recorded in the pickle'
                  % (ns.text(3) if ns is not None else None), anchor.loc)
    # a null registration is rejected before the node is accepted: some throw is guarded by
    # `node.custom == nullptr` and post-dominates... (every path from the lookup to the loop
    # back edge passes the null test)
    nulltests = []
    for cn in cfg.nodes:
        if cn.kind == 'cond' and cn.ast is not None:
            txt = cn.ast.text(5)
            if 'custom' in txt and 'nullptr' in txt:
                nulltests.append(cn)
    ok = False
    for nt in nulltests:
        # the "is null" edge - and no other - must lead to a throw only
        base_, pos_ = unnegate(nt.ast)
        op_ = None
        if base_ is not None and base_.kind == 'BinaryOperator' and base_.op in ('==', '!='):
            op_ = base_.op
        elif base_ is not None and base_.kind == 'CXXOperatorCallExpr' and \
                base_.callee_name() in ('operator==', 'operator!='):
            op_ = base_.callee_name()[-2:]
        if op_ is None:
            continue
        null_edge = ((op_ == '==') == pos_)
        for (w, lab) in cfg.succ[nt.idx]:
            if lab is not null_edge:
                continue
            reach = cfg.forward_reachable([w])
            throws = [x for x in reach if cfg.nodes[x].kind == 'throw']
            normal = cfg.exit.idx in reach or any((x, y) in cfg.back_edges for x in reach
                                                   for (y, _) in cfg.succ[x])
            if throws and not normal:
                # this is the rejecting edge; both lookups must reach this test
                if all(nt.idx in cfg.forward_reachable([cfg.cnode_of(c)]) for c in looks):
                    ok = True
    ctx.check('FromPickleable/null-registration-rejected', ok,
              'after the lookup, a null registration leads to a throw on every path',
              'a custom node whose type is not registered in the recorded namespace is accepted '
              '(no null test between the lookup and the next node)', f.loc)
    # non-custom kinds: entries / type slots must be None
    ctx.check('FromPickleable/non-custom-slots-none',
              any(cn.kind == 'cond' and cn.ast is not None and 'is_none' in cn.ast.text(5)
                  for cn in cfg.nodes),
              'non-custom kinds reject non-None entries/type slots', None, f.loc)


# ---------------------------------------------------------------------------------------------
def _poly(e, inits, depth=0):
    """Integer expression -> polynomial {monomial(tuple of sorted atoms): coeff} over atoms: member
    paths, `size(<container path>)`, zero-argument accessors.  Locals with one initialiser are
    expanded.  None when the expression has a shape this does not understand."""
    e = strip_casts(e)
    if e is None or depth > 6:
        return None
    v = const_eval(e)
    if isinstance(v, bool):
        v = int(v)
    if isinstance(v, int):
        return {(): v} if v else {}
    if e.kind in CALL_KINDS:
        cn = e.callee_name()
        args = [a for a in e.call_args() if a is not None and a.kind != 'CXXDefaultArgExpr']
        if cn in ('ssize_t_cast', 'static_cast') and len(args) == 1:
            return _poly(args[0], inits, depth + 1)
        if cn in ('size', 'GetNumLeaves', 'GetNumNodes', 'GetNumChildren') and not args:
            b = member_path(e.call_base()) if e.call_base() is not None else 'this'
            return {('%s(%s)' % (cn, b or '?'),): 1}
        return None
    if e.kind == 'ConditionalOperator' and len(e.kids) == 3:
        a, b = _poly(e.kids[1], inits, depth + 1), _poly(e.kids[2], inits, depth + 1)
        if a is None or b is None:
            return None
        # c ? a : b  ==  b + [c] * (a - b)
        c = '[%s]' % strip_casts(e.kids[0]).text(5)
        out = dict(b)
        for m, k in a.items():
            out[tuple(sorted(m + (c,)))] = out.get(tuple(sorted(m + (c,))), 0) + k
        for m, k in b.items():
            out[tuple(sorted(m + (c,)))] = out.get(tuple(sorted(m + (c,))), 0) - k
        return {m: k for m, k in out.items() if k}
    if e.kind == 'BinaryOperator' and e.op in ('+', '-', '*') and len(e.kids) == 2:
        a, b = _poly(e.kids[0], inits, depth + 1), _poly(e.kids[1], inits, depth + 1)
        if a is None or b is None:
            return None
        out = {}
        if e.op in ('+', '-'):
            sgn = 1 if e.op == '+' else -1
            for m, k in a.items():
                out[m] = out.get(m, 0) + k
            for m, k in b.items():
                out[m] = out.get(m, 0) + sgn * k
        else:
            for m1, k1 in a.items():
                for m2, k2 in b.items():
                    m = tuple(sorted(m1 + m2))
                    out[m] = out.get(m, 0) + k1 * k2
        return {m: k for m, k in out.items() if k}
    if e.kind == 'UnaryOperator' and e.op == '-' and e.kids:
        a = _poly(e.kids[0], inits, depth + 1)
        return None if a is None else {m: -k for m, k in a.items()}
    p = member_path(e)
    if p:
        if '.' not in p and p in inits and inits[p] is not None:
            sub = _poly(inits[p], inits, depth + 1)
            if sub is not None:
                return sub
        return {(p,): 1}
    return None


def _fmt_poly(p):
    if p is None:
        return '?'
    if not p:
        return '0'
    return ' + '.join(('%d' % k if not m else ('%s%s' % ('' if k == 1 else '%d*' % k, '*'.join(m))))
                      for m, k in sorted(p.items()))


@rule('M8', floor=8, title='the node producers count leaves and nodes of a subtree the same way')
def m8(ctx):
    """num_nodes of a node is 1 + the nodes added since the step began, num_leaves the leaves added
    since the step began (flatten, flatten-with-path: differences of the output sizes against
    snapshots taken before anything was appended); a constructed node has the leaves / nodes of its
    child treespecs (+1 leaf if it is itself a leaf, +1 node); a composed node has
    leaves*inner_leaves leaves and (nodes - leaves) + leaves*inner_nodes nodes.  The expressions are
    compared as polynomials, so their spelling does not matter."""
    prog = ctx.cxx()

    fields = node_fields(prog)

    def assigned(f, field):
        out = []
        for n in f.body.walk():
            lhs = rhs = None
            if n.kind == 'BinaryOperator' and n.op == '=':
                lhs, rhs = n.kids
            if lhs is not None and lhs.kind == 'MemberExpr' and lhs.name == field and _base_is(lhs, 'Node'):
                out.append((n, rhs))
            # ... or as a slot of an aggregate initialiser `Node{.num_leaves = ..., ...}`
            if n.kind == 'InitListExpr' and (n.type or '').endswith('Node') and len(n.kids) == len(fields) \
                    and field in fields:
                k = n.kids[fields.index(field)]
                if k is not None and k.kind not in ('CXXDefaultInitExpr', 'ImplicitValueInitExpr'):
                    out.append((n, k))
        return out
    # flatten variants: snapshots of the two output sizes, taken before any recursion
    for name in ('PyTreeSpec::FlattenIntoImpl', 'PyTreeSpec::FlattenIntoWithPathImpl'):
        for f in [x for x in prog.by_suffix(name) if not x.dependent]:
            inits = local_inits(f)
            cfg = cfg_of(f)
            snaps = {}
            for v in f.body.find('VarDecl'):
                if v.kids and v.name and effectively_const(f, v):
                    p = _poly(v.kids[-1], {})
                    if p and len(p) == 1 and list(p.values()) == [1] and list(p)[0] and list(p)[0][0].startswith('size('):
                        snaps[v.name] = (list(p)[0][0], v)
            pushes = [c for c in calls_in(f.body, {'emplace_back', 'push_back'})]
            problems = []
            for field, plus in (('num_nodes', 1), ('num_leaves', 0)):
                asg = assigned(f, field)
                if len(asg) != 1:
                    problems.append('%s is assigned %d times' % (field, len(asg)))
                    continue
                p = _poly(asg[0][1], {})
                ok = False
                if p is not None:
                    consts = p.get((), 0)
                    sizes = [(m[0], k) for m, k in p.items() if len(m) == 1 and m[0].startswith('size(')]
                    names_ = [(m[0], k) for m, k in p.items() if len(m) == 1 and not m[0].startswith('size(')]
                    if consts == plus and len(sizes) == 1 and sizes[0][1] == 1 and len(names_) == 1 and \
                            names_[0][1] == -1 and names_[0][0] in snaps and snaps[names_[0][0]][0] == sizes[0][0] \
                            and len(p) == (3 if plus else 2):
                        # the snapshot precedes every append to that container in this activation
                        sn = cfg.cnode_of(snaps[names_[0][0]][1])
                        cont = sizes[0][0][5:-1]
                        late = [c for c in pushes if member_path(c.call_base()) == cont and
                                cfg.cnode_of(c) is not None and sn is not None and
                                not cfg.dominates(sn, cfg.cnode_of(c))]
                        ok = not late
                if not ok:
                    problems.append('%s = %s' % (field, _fmt_poly(p)))
            ctx.check('%s/counts' % short(f), not problems,
                      '%s: num_nodes = nodes appended since the step began + 1, num_leaves = leaves '
                      'appended since the step began' % inst(f),
                      '%s counts its subtree as %s: the counts of this node (and of every ancestor) '
                      'do not describe the subtree' % (inst(f), '; '.join(problems)), f.loc)
    # constructor from child treespecs
    for f in [x for x in prog.by_suffix('PyTreeSpec::MakeFromCollectionImpl') if not x.dependent]:
        problems = []
        inits = local_inits(f)
        asg_l, asg_n = assigned(f, 'num_leaves'), assigned(f, 'num_nodes')
        if len(asg_l) != 1 or len(asg_n) != 1:
            problems.append('counts assigned %d / %d times' % (len(asg_l), len(asg_n)))
        else:
            pn = _poly(asg_n[0][1], {})
            okn = pn is not None and pn.get((), 0) == 1 and len(pn) == 2 and \
                any(len(m) == 1 and m[0].startswith('size(') and m[0].endswith('m_traversal)') and k == 1
                    for m, k in pn.items())
            if not okn:
                problems.append('num_nodes = %s' % _fmt_poly(pn))
            # num_leaves: an accumulator initialised with [kind == Leaf] and increased by the leaf
            # count of every child treespec, unconditionally, in the loop over the children
            acc = member_path(strip_casts(asg_l[0][1]))
            init = inits.get(acc) if acc else None
            pi = _poly(init, {}) if init is not None else None
            oki = pi is not None and len(pi) == 1 and list(pi.values()) == [1] and \
                'Leaf' in list(pi)[0][0] and '==' in list(pi)[0][0]
            adds = [n for n in f.body.walk() if n.kind == 'CompoundAssignOperator' and n.op == '+=' and
                    member_path(n.kids[0]) == acc]
            oka = len(adds) == 1 and (_poly(adds[0].kids[1], {}) or {}).keys() and \
                all(len(m) == 1 and m[0].startswith('GetNumLeaves(') and k == 1
                    for m, k in (_poly(adds[0].kids[1], {}) or {(): 0}).items())
            if oka:
                parent = enclosing_map(f.body)
                anc = ancestors(adds[0], parent)
                loops = [a for a in anc if a.kind in ('CXXForRangeStmt', 'ForStmt', 'WhileStmt')]
                conds = [a for a in anc if a.kind in ('IfStmt', 'ConditionalOperator', 'SwitchStmt')]
                oka = len(loops) >= 1 and not conds
            if not (oki and oka):
                problems.append('num_leaves: starts as %s, %d accumulation(s)%s'
                                % (_fmt_poly(pi), len(adds), '' if oka else ' (conditional or not per child)'))
        ctx.check('%s/counts' % short(f), not problems,
                  '%s: num_leaves = [root is a leaf] + the leaves of every child treespec, num_nodes = '
                  'nodes copied + 1' % inst(f),
                  '%s: %s' % (inst(f), '; '.join(problems)), f.loc)
    # compose
    f = prog.one('PyTreeSpec::Compose')
    inits = local_inits(f)
    problems = []
    for field in ('num_leaves', 'num_nodes'):
        asg = [a for a in assigned(f, field)]
        ps = [_poly(r, inits) for _, r in asg]
        if field == 'num_leaves':
            ok = any(p is not None and len(p) == 1 and list(p.values()) == [1] and
                     sorted(x.split('(')[0].split('.')[-1] for x in list(p)[0]) == ['GetNumLeaves', 'num_leaves']
                     for p in ps)
        else:
            # (nodes - leaves) + leaves * inner_nodes
            def shape(p):
                if p is None or len(p) != 3:
                    return False
                lin = {m[0].split('.')[-1]: k for m, k in p.items() if len(m) == 1}
                quad = [(sorted(x.split('(')[0].split('.')[-1] for x in m), k) for m, k in p.items() if len(m) == 2]
                return lin == {'num_nodes': 1, 'num_leaves': -1} and quad == [(['GetNumNodes', 'num_leaves'], 1)]
            ok = any(shape(p) for p in ps)
        if not ok:
            problems.append('%s = %s' % (field, ' | '.join(_fmt_poly(p) for p in ps) or 'never assigned'))
    ctx.check('PyTreeSpec::Compose/counts', not problems,
              'Compose: a node with l leaves and n nodes gets l*L leaves and (n - l) + l*N nodes '
              '(L, N: leaves and nodes of the inner treespec)',
              'Compose counts %s' % '; '.join(problems), f.loc)
