import importlib

MODULES = ['traversal', 'equality', 'payload', 'locks', 'registry_cxx', 'safety', 'py_ops', 'py_registry', 'twins', 'py_misc', 'matrix', 'prefix', 'extra']


def load_all():
    for m in MODULES:
        importlib.import_module('sa.rules.' + m)
    importlib.import_module('sa.proptable')
