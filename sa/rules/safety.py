"""Memory-safety / exception / aliasing rules: I1 re-entrant unchecked index, I2 nullable result
wrapped unchecked, I3 index guard, S3 unpickle validates what unchecked reads rely on, E1 guard-set
cleanup, E5 swallow sites, E6 throw types, A1 no escape of internal containers, A5 mutators only on
engine-owned objects."""
from __future__ import annotations

import re

from ..engine import rule
from ..cxx_ir import CALL_KINDS, CTOR_KINDS, LOOP_KINDS
from ..cfg import cfg_of, const_eval
from ..effects import (PY, NULLABLE, SWALLOWS, MUTATES, RC_FAIL, external_effects)
from ..bridge import binding_table
from .common import (short, inst, live_funcs, calls_in, callee_func, member_path, enclosing_map,
                     ancestors, thrown_type, thrown_qual, local_inits, strip_casts, relation, unnegate)
from .equality import node_fields, tokens, _base_is, NODE_REC


# ---------------------------------------------------------------------------------------------
def unchecked_index_wrappers(prog):
    """repo functions whose body subscripts ob_item directly (raw PyList_GET_ITEM /
    PyTuple_GET_ITEM expansion) -> 'list' | 'tuple'; closed under thin wrappers"""
    out = {}
    for f in live_funcs(prog):
        if f.body is None:
            continue
        for s in f.body.find('ArraySubscriptExpr'):
            for m in s.walk():
                if m.kind == 'MemberExpr' and m.name == 'ob_item':
                    t = ' '.join((x.type or '') for x in s.walk())
                    out[f.key] = 'list' if 'PyListObject' in t else 'tuple'
    # calls to the CPython inline accessors (other configurations)
    for f in live_funcs(prog):
        if f.body is None or f.key in out:
            continue
        for c in calls_in(f.body, {'PyList_GET_ITEM'}):
            out[f.key] = 'list'
    changed = True
    while changed:
        changed = False
        for f in live_funcs(prog):
            if f.body is None or f.key in out:
                continue
            rets = [n for n in f.body.walk() if n.kind == 'ReturnStmt']
            if len(rets) == 1 and len(f.body.kids) == 1:
                for c in calls_in(rets[0]):
                    t = callee_func(prog, f, c)
                    if t is not None and t.key in out:
                        out[f.key] = out[t.key]
                        changed = True
    return out


def _container_class(prog, f, e, inits, depth=0):
    """USER: the object being traversed (a parameter / popped agenda entry, possibly re-typed by
    reinterpret_borrow); COPY: created in this function; SPEC: reached through a treespec node"""
    e = strip_casts(e)
    if e is None or depth > 5:
        return 'UNKNOWN'
    if e.kind in CALL_KINDS:
        nm = e.callee_name()
        if nm in ('reinterpret_borrow',):
            return _container_class(prog, f, e.call_args()[0], inits, depth + 1)
        if nm in ('thread_safe_cast', 'cast', 'DictKeys', 'SortedDictKeys'):
            return 'COPY' if _converts(e) else _container_class(prog, f, e.call_args()[0], inits, depth + 1)
        if nm in ('TupleGetItem', 'TupleGetItemAs', 'ListGetItem', 'ListGetItemAs'):
            inner = _container_class(prog, f, e.call_args()[0], inits, depth + 1)
            return 'SPEC' if inner == 'SPEC' else ('USER' if inner == 'USER' else 'ELEMENT')
        return 'COPY'
    if e.kind in CTOR_KINDS:
        if len(e.kids) == 1 and e.kids[0] is not None:
            ct = (e.x or {}).get('ctorType') or ''
            if re.search(r'\((const )?(pybind11|py)::(object|handle|list|tuple) ?(&|&&)?\)', ct) and \
                    _same_family(e.type, e.kids[0].type):
                return _container_class(prog, f, e.kids[0], inits, depth + 1)
        return 'COPY'
    if e.kind == 'MemberExpr':
        if e.name in node_fields(prog) and _base_is(e, 'Node'):
            return 'SPEC'
        return 'MEMBER'
    if e.kind == 'DeclRefExpr' and e.ref:
        k = e.ref.get('kind')
        nm = e.ref.get('name')
        if k == 'ParmVarDecl':
            return _param_class(prog, f, nm, depth)
        if k == 'BindingDecl':
            return 'USER'      # structured binding of the popped agenda entry
        if nm in inits:
            return _container_class(prog, f, inits[nm], inits, depth + 1)
    if e.kind == 'ConditionalOperator':
        a = _container_class(prog, f, e.kids[1], inits, depth + 1)
        b = _container_class(prog, f, e.kids[2], inits, depth + 1)
        return a if a == b else ('SPEC' if 'SPEC' in (a, b) else 'UNKNOWN')
    return 'UNKNOWN'


def _param_class(prog, f, pname, depth):
    """class of a parameter: join over the arguments at the repo call sites of f; a function
    nobody in the repo calls (a bound entry point) receives user objects"""
    pnames = [p[0] for p in f.params]
    if pname not in pnames or depth > 3:
        return 'USER'
    idx = pnames.index(pname)
    classes = set()
    for g in live_funcs(prog):
        if g.body is None or g.qualname == f.qualname:
            continue
        if g.is_lambda and prog.funcs.get(g.parent) is not None and \
                prog.funcs[g.parent].qualname == f.qualname:
            continue
        ginits = None
        for c in calls_in(g.body):
            t = callee_func(prog, g, c)
            if t is None or t.qualname != f.qualname:
                continue
            a = c.call_args()
            if idx >= len(a) or a[idx] is None:
                continue
            if ginits is None:
                ginits = local_inits(g)
            classes.add(_container_class(prog, g, a[idx], ginits, depth + 2))
    if not classes:
        return 'USER'
    if 'USER' in classes or 'UNKNOWN' in classes:
        return 'USER'
    if classes == {'SPEC'}:
        return 'SPEC'
    if classes <= {'COPY', 'SPEC', 'MEMBER'}:
        return 'COPY' if 'COPY' in classes else 'SPEC'
    return 'USER'


def _same_family(t1, t2):
    def fam(t):
        t = (t or '').replace('const ', '').replace('pybind11::', 'py::').strip(' &')
        return t
    return fam(t1) == fam(t2)


def _converts(call):
    """thread_safe_cast<py::list>(deque) builds a new list; cast<T&> / same-type casts do not"""
    t = (call.type or '').replace('pybind11::', 'py::')
    a = call.call_args()
    src = (a[0].type or '').replace('pybind11::', 'py::') if a and a[0] is not None else ''
    if '&' in t:
        return False
    if call.callee_name() in ('DictKeys', 'SortedDictKeys'):
        return True
    return ('list' in t or 'tuple' in t) and ('handle' in src or 'object' in src)


# the C-API list item accessor without a bounds check (a macro over an inline function since 3.11)
RAW_LIST_ITEM = {'PyList_GET_ITEM'}


def _raw_list_subscripts(f):
    """`list->ob_item[i]` (the expansion of PyList_GET_ITEM where it is a macro)"""
    out = []
    for s_ in f.body.find('ArraySubscriptExpr'):
        if any(m.kind == 'MemberExpr' and m.name == 'ob_item' for m in s_.walk()) and \
                'PyListObject' in ' '.join((x.type or '') for x in s_.walk()):
            out.append(s_)
    return out


@rule('I1', floor=6, title='no unchecked index into a list the user can shrink while user code runs inside the loop')
def i1(ctx):
    prog = ctx.cxx()
    eff = ctx.effects()
    wrappers = unchecked_index_wrappers(prog)
    listw = {k for k, v in wrappers.items() if v == 'list'}
    ctx.analysed['unchecked_list_accessors'] = sorted(short(prog.funcs[k]) for k in listw)
    # every list-item accessor call site inside a loop
    n = 0
    accessor_names = {'ListGetItem', 'ListGetItemAs'}
    for f in live_funcs(prog):
        if f.body is None or short(f) in accessor_names:
            continue
        inits = local_inits(f)
        parent = None
        sites = list(calls_in(f.body, accessor_names | RAW_LIST_ITEM))
        sites += _raw_list_subscripts(f)
        for c in sites:
            sub = c.kind == 'ArraySubscriptExpr'
            t = callee_func(prog, f, c) if not sub else None
            raw = sub or c.callee_name() in RAW_LIST_ITEM
            if raw and t is not None:
                continue
            if parent is None:
                parent = enclosing_map(f.body)
            loops = [a for a in ancestors(c, parent) if a.kind in LOOP_KINDS]
            if not loops:
                continue
            if sub:
                # the macro form ((PyListObject *)(x.ptr()))->ob_item[i]: the container is x
                ptrs = [m for m in c.kids[0].walk() if m.kind == 'CXXMemberCallExpr' and m.callee_name() == 'ptr']
                cont = ptrs[0].call_base() if ptrs else c.kids[0]
            else:
                cont = c.call_args()[0]
            if raw and not sub:
                # PyList_GET_ITEM(x.ptr(), i): the container is x
                cont = strip_casts(cont)
                if cont is not None and cont.kind == 'CXXMemberCallExpr' and cont.callee_name() == 'ptr':
                    cont = cont.call_base()
            cls = _container_class(prog, f, cont, inits)
            owner = f if not f.is_lambda else prog.funcs.get(f.parent, f)
            n += 1
            site = '%s/%s(%s)' % (short(owner), 'PyList_GET_ITEM' if raw else 'ListGetItem', cls)
            unchecked = raw or (t is not None and t.key in listw)
            if cls != 'USER':
                ctx.ok(site, '%s: indexed list is %s (not reachable by user code during the loop)'
                       % (inst(f), {'COPY': 'a private copy', 'SPEC': "the treespec's own list",
                                    'ELEMENT': 'an element', 'MEMBER': 'a member'}.get(cls, cls)),
                       c.loc)
                continue
            body = loops[0].kids[-1]
            pys = [x for x, e, why, tg in eff.effects_in(f, body) if PY in e]
            if not unchecked:
                ctx.ok(site, '%s: list accessor is bounds-checked in this configuration' % inst(f), c.loc)
            elif not pys:
                ctx.ok(site, '%s: all items are read before any call that can run Python code'
                       % inst(f), c.loc)
            else:
                ctx.bad(site, '%s: the list being traversed is indexed with an unchecked accessor '
                        '(%s) inside a loop whose bound was read before the loop and whose body '
                        'calls back into Python (%s): a predicate / flatten function that shrinks '
                        'the list makes the next read go out of bounds'
                        % (inst(f), 'PyList_GET_ITEM' if raw else short(t), pys[0].callee_name()), c.loc)
    ctx.require(n >= 6, 'only %d list accessor sites inside loops' % n)
    # raw item arrays: a `PyObject **` taken from a sequence (PySequence_Fast_ITEMS, ->ob_item) is
    # only valid while nobody resizes the sequence.  Indexing such a pointer inside a loop whose
    # body runs Python code is a stale read / use-after-free for a list the user can reach -
    # unless the pointer was taken under a test that admits exact tuples only.
    for f in live_funcs(prog):
        if f.body is None:
            continue
        ptrs = {}
        for v in f.body.find('VarDecl'):
            t_ = (v.type or '')
            if v.name and v.kids and 'PyObject' in t_ and t_.count('*') >= 2:
                init = v.kids[-1]
                srcs = [x for x in init.walk() if (x.kind in CALL_KINDS and (x.callee_name() or '') in
                                                   ('PySequence_Fast_ITEMS', '_PyList_ITEMS', '_PyTuple_ITEMS'))
                        or (x.kind == 'MemberExpr' and x.name == 'ob_item')]
                if srcs:
                    ptrs[v.name] = (v, srcs[0])
        if not ptrs:
            continue
        parent = enclosing_map(f.body)
        cfg = cfg_of(f)
        for s_ in f.body.find('ArraySubscriptExpr'):
            base = member_path(strip_casts(s_.kids[0])) if s_.kids else None
            if base not in ptrs:
                continue
            loops = [a for a in ancestors(s_, parent) if a.kind in LOOP_KINDS]
            if not loops:
                continue
            pys = [x for x, e, why, tg in eff.effects_in(f, loops[0].kids[-1]) if PY in e]
            v, src_ = ptrs[base]
            # taken under a tuple-only test?
            vn = cfg.cnode_of(v)
            tuple_only = False
            for cn in cfg.nodes:
                if cn.kind == 'cond' and cn.ast is not None and vn is not None and cfg.dominates(cn.idx, vn):
                    t_ = cn.ast.text(6)
                    if 'PyTuple_Check' in t_ and 'PyList' not in t_ and \
                            vn in cfg.forward_reachable([w for (w, lab) in cfg.succ[cn.idx] if lab is True]) and \
                            vn not in cfg.forward_reachable([w for (w, lab) in cfg.succ[cn.idx] if lab is False]):
                        tuple_only = True
            owner = f if not f.is_lambda else prog.funcs.get(f.parent, f)
            ctx.check('%s/raw-items[%s]' % (short(owner), base), not pys or tuple_only,
                      '%s: the raw item array `%s` is not read across user code (or is a tuple\'s)' % (inst(f), base),
                      '%s: `%s[...]` reads a raw item array taken from a sequence before the loop, and the '
                      'loop body calls back into Python (%s): user code that shrinks or clears a list '
                      'leaves the pointer dangling - stale object, out-of-bounds read or use-after-free'
                      % (inst(f), base, pys[0].callee_name() if pys else ''), s_.loc)


# ---------------------------------------------------------------------------------------------
@rule('I2', floor=2, title='a C-API result that may be NULL is tested before it is wrapped; no error-swallowing lookup on user dicts')
def i2(ctx):
    prog = ctx.cxx()
    n = 0
    for f in live_funcs(prog):
        if f.body is None:
            continue
        parent = None
        for c in calls_in(f.body):
            if c.kind not in CALL_KINDS or callee_func(prog, f, c) is not None:
                continue
            e, why = external_effects(c)
            if NULLABLE not in e:
                continue
            if parent is None:
                parent = enclosing_map(f.body)
            n += 1
            nm = c.callee_name()
            site = '%s/%s' % (short(f), nm)
            p = parent.get(id(c))
            tested = False
            wrapped = False
            hops = 0
            q = c
            while p is not None and hops < 4:
                if p.kind in CALL_KINDS and p.callee_name() in ('reinterpret_borrow', 'reinterpret_steal'):
                    wrapped = True
                    break
                if p.kind == 'VarDecl':
                    # tested if the variable is a condition variable or compared with nullptr
                    var = p.name
                    pp = parent.get(id(p))
                    ppp = parent.get(id(pp)) if pp is not None else None
                    if ppp is not None and ppp.kind == 'IfStmt' and (ppp.x or {}).get('hasVar'):
                        tested = True
                    for x in f.body.walk():
                        if x.kind == 'BinaryOperator' and x.op in ('==', '!=') and \
                                member_path(x.kids[0]) == var and \
                                x.kids[1] is not None and x.kids[1].kind == 'CXXNullPtrLiteralExpr':
                            tested = True
                    break
                if p.kind in ('IfStmt', 'BinaryOperator', 'UnaryOperator'):
                    tested = True
                    break
                q = p
                p = parent.get(id(p))
                hops += 1
            ctx.check(site + '/null-tested', tested and not wrapped,
                      '%s: the result of %s is tested for NULL before use' % (inst(f), nm),
                      '%s: %s may return NULL (%s) and its result is wrapped into a pybind11 '
                      'object without a test: the null object is dereferenced later (Py_TYPE, '
                      'INCREF) - a crash instead of an exception' % (inst(f), nm, why), c.loc)
            if SWALLOWS in e:
                ctx.bad(site + '/swallows',
                        '%s: %s discards exceptions raised by the key\'s __hash__/__eq__: a failing '
                        'user callback is turned into "missing key"' % (inst(f), nm), c.loc)
    ctx.require(n >= 2, 'only %d NULLABLE C-API calls found' % n)


# ---------------------------------------------------------------------------------------------
ITEM_ACCESSORS = {'TupleGetItem', 'TupleGetItemAs', 'ListGetItem', 'ListGetItemAs'}


@rule('I4', floor=2, title='an index that is not the induction variable of a counted loop is compared with a bound before it is used')
def i4(ctx):
    """The item accessors are unchecked (tuples) or checked only in some configurations (lists).
    An index is safe by construction when it is a constant below a validated length (K7, S3) or
    the induction variable of `for (i = ..; i < n; ++i)`; any other index - a counter advanced in
    an iterator loop, a parameter - must be dominated by a relational test of that very variable
    one of whose edges cannot reach the read."""
    prog = ctx.cxx()
    n = 0
    for f in live_funcs(prog):
        if f.body is None or short(f) in ITEM_ACCESSORS:
            continue
        parent = None
        cfg = None
        for c in calls_in(f.body, ITEM_ACCESSORS):
            a = c.call_args()
            if len(a) < 2 or a[1] is None:
                continue
            ix = strip_casts(a[1])
            if const_eval(ix) is not None:
                continue
            while ix is not None and ix.kind == 'UnaryOperator' and ix.op in ('++', '--'):
                ix = strip_casts(ix.kids[0])
            v = member_path(ix)
            if v is None:
                continue
            if parent is None:
                parent = enclosing_map(f.body)
                cfg = cfg_of(f)
            induction = False
            for l in ancestors(c, parent):
                if l.kind == 'ForStmt' and len(l.kids) > 2 and l.kids[2] is not None and \
                        l.kids[2].kind == 'BinaryOperator' and l.kids[2].op in ('<', '<=', '>', '>=', '!=') and \
                        v in (member_path(strip_casts(l.kids[2].kids[0])),
                              member_path(strip_casts(l.kids[2].kids[1]))):
                    rel = relation(l.kids[2])
                    if rel is None:
                        induction = True          # `i != n`
                    else:
                        small, big, strict = rel
                        # counted up to a bound: strictly below it; counted down: to 0 inclusive
                        if member_path(strip_casts(small)) == v:
                            induction = strict
                        else:
                            induction = const_eval(small) in (0, -1) and (not strict or const_eval(small) == -1)
            if induction:
                continue
            n += 1
            rn = cfg.cnode_of(c)
            if rn is None:
                n -= 1
                continue
            ok = False
            for cn in cfg.nodes:
                if cn.kind != 'cond' or cn.ast is None or cn.ast.kind != 'BinaryOperator' or \
                        cn.ast.op not in ('<', '<=', '>', '>='):
                    continue
                if v not in (member_path(strip_casts(cn.ast.kids[0])), member_path(strip_casts(cn.ast.kids[1]))):
                    continue
                if not cfg.dominates(cn.idx, rn):
                    continue
                # which outcome says "within range"?  v < n / 0 <= v: the true one; n <= v / v < 0: the false one
                small, big, strict = relation(cn.ast)
                if member_path(strip_casts(small)) == v:
                    in_range = const_eval(big) != 0
                    # v < n admits 0 .. n-1; v <= n would admit n itself (one past the end)
                    exact = strict or const_eval(big) == 0
                else:
                    in_range = const_eval(small) in (0, -1)
                    # n <= v rejects n; n < v would let n through
                    exact = (not strict) or const_eval(small) in (0, -1)
                if not exact:
                    continue
                good = cfg.forward_reachable([w for (w, lab) in cfg.succ[cn.idx] if lab is in_range])
                bad = cfg.forward_reachable([w for (w, lab) in cfg.succ[cn.idx] if lab is (not in_range)])
                if rn in good and rn not in bad:
                    ok = True
            owner = f if not f.is_lambda else prog.funcs.get(f.parent, f)
            ctx.check('%s/%s[%s]' % (short(owner), c.callee_name().replace('As', ''), 'counter' if
                                     (ix.ref or {}).get('kind') != 'ParmVarDecl' else 'parameter'), ok,
                      '%s: index `%s` is range-tested on every path to %s' % (inst(f), v, c.callee_name()),
                      '%s: `%s(%s, %s)` uses an index that no dominating test bounds: it is advanced '
                      'by the loop over another iterable, so a shorter tuple is read past its end '
                      '(NULL / garbage object, crash)' % (inst(f), c.callee_name(), a[0].text(3), a[1].text(3)),
                      c.loc)
    ctx.require(n >= 2, 'only %d non-induction index reads found' % n)


# ---------------------------------------------------------------------------------------------
@rule('I5', floor=3, title='an iterator that is advanced by hand is compared with its end before every dereference')
def i5(ctx):
    """`*it` / `++it` on an iterator that is not driven by a range-for is only defined when `it` is
    not the end iterator.  Every dereference must be dominated by a comparison of that iterator with
    an end() / cend() / crend() sentinel, and the "at end" edge of the comparison must not lead to
    the dereference (a length checked once up front is no substitute: user code that runs between
    two steps can shrink the underlying container)."""
    prog = ctx.cxx()
    n = 0
    for f in live_funcs(prog):
        if f.body is None:
            continue
        derefs = []
        finds = {}
        for vd in f.body.find('VarDecl'):
            if vd.name and vd.kids and vd.kids[-1] is not None and \
                    any(x.kind == 'CXXMemberCallExpr' and x.callee_name() == 'find' for x in vd.kids[-1].walk()):
                finds[vd.id] = vd
        for c in f.body.find('CXXOperatorCallExpr'):
            # the result of a container lookup: `it->second` / `*it` is defined only for a hit
            if c.callee_name() in ('operator->', 'operator*') and len(c.kids) == 2:
                v = strip_casts(c.kids[1])
                # (by declaration, not by name: another `it` of the same function - the iterator
                # that try_emplace / insert hands back always points at an element - is not this one)
                if v is not None and v.kind == 'DeclRefExpr' and (v.ref or {}).get('id') in finds:
                    derefs.append((c, member_path(v)))
                    continue
            if c.callee_name() == 'operator*' and len(c.kids) == 2:
                v = strip_casts(c.kids[1])
                vt = ((v.type or '') + ' ' + ((v.ref or {}).get('type') or '')) if v is not None else ''
                # hand-driven iterators over Python iterables and over the node array; the hidden
                # iterators of range-for statements (`__begin1`) are driven by the statement itself
                if v is not None and v.kind == 'DeclRefExpr' and (v.ref or {}).get('kind') == 'VarDecl' and \
                        'iterator' in vt and not (member_path(v) or '').startswith('__') and \
                        ('pybind11' in vt or 'py::' in vt or 'Node' in vt):
                    derefs.append((c, member_path(v)))
        if not derefs:
            continue
        cfg = cfg_of(f)
        parent = enclosing_map(f.body)
        for c, v in derefs:
            # iterators that a for-statement header drives are tested by that header
            hdr = [l for l in ancestors(c, parent) if l.kind == 'ForStmt' and len(l.kids) > 2 and
                   l.kids[2] is not None and v in (l.kids[2].text(4) or '')]
            if hdr:
                continue
            rn = cfg.cnode_of(c)
            if rn is None:
                continue
            n += 1
            ok = False
            for cn in cfg.nodes:
                if cn.kind != 'cond' or cn.ast is None:
                    continue
                a = cn.ast
                t = a.text(5)
                is_cmp = (a.kind == 'BinaryOperator' and a.op in ('==', '!=')) or \
                    (a.kind == 'CXXOperatorCallExpr' and a.callee_name() in ('operator==', 'operator!='))
                if not is_cmp or not re.search(r'\b%s\b' % re.escape(v), t) or \
                        not re.search(r'\b(c?r?end)\(', t):
                    continue
                if not cfg.dominates(cn.idx, rn):
                    continue
                # the outcome on which the iterator IS the end iterator must not lead to the dereference
                op = a.op if a.kind == 'BinaryOperator' else a.callee_name()[-2:]
                at_end = (op == '==')
                bad = cfg.forward_reachable([w for (w, lab) in cfg.succ[cn.idx] if lab is at_end])
                good = cfg.forward_reachable([w for (w, lab) in cfg.succ[cn.idx] if lab is (not at_end)])
                if rn in good and rn not in bad:
                    ok = True
            # ... or the dereference sits in the arm of a `?:` that the comparison selects
            for co in ancestors(c, parent):
                if co.kind != 'ConditionalOperator' or len(co.kids) != 3:
                    continue
                a, pos = unnegate(co.kids[0])
                if a is None:
                    continue
                is_cmp = (a.kind == 'BinaryOperator' and a.op in ('==', '!=')) or \
                    (a.kind == 'CXXOperatorCallExpr' and a.callee_name() in ('operator==', 'operator!='))
                t = a.text(5)
                if not is_cmp or not re.search(r'\b%s\b' % re.escape(v), t) or \
                        not re.search(r'\b(c?r?end)\(', t):
                    continue
                op = a.op if a.kind == 'BinaryOperator' else a.callee_name()[-2:]
                at_end_when_true = (op == '==') if pos else (op != '==')
                arm = co.kids[2] if at_end_when_true else co.kids[1]
                if arm is not None and any(x is c for x in arm.walk()):
                    ok = True
            owner = f if not f.is_lambda else prog.funcs.get(f.parent, f)
            ctx.check('%s/*%s' % (short(owner), 'iterator'), ok,
                      '%s: `*%s` is reached only after `%s` was compared with the end iterator'
                      % (inst(f), v, v),
                      '%s: `*%s` can be reached without `%s` having been compared with the end '
                      'iterator on that path: an exhausted iterator is dereferenced (a callback that '
                      'shrinks the sequence between two steps is enough) - NULL object / crash'
                      % (inst(f), v, v), c.loc)
    ctx.require(n >= 3, 'only %d hand-driven iterator dereferences found' % n)


# ---------------------------------------------------------------------------------------------
@rule('I3', floor=2, title='entry(i)/child(i): range test and negative-index normalisation dominate every use of the index')
def i3(ctx):
    prog = ctx.cxx()
    for name in ('PyTreeSpec::Entry', 'PyTreeSpec::Child'):
        f = prog.one(name)
        cfg = cfg_of(f)
        ip = [p for p in f.params if 'ssize_t' in (p[1] or '') or p[0] == 'index']
        ctx.require(len(ip) == 1, '%s: index parameter not found' % name)
        iname = ip[0][0]
        lo = hi = neg = None
        for cn in cfg.nodes:
            if cn.kind != 'cond' or cn.ast is None or cn.ast.kind != 'BinaryOperator':
                continue
            rel = relation(cn.ast)
            if rel is None:
                continue
            small, big, strict = rel
            # index < -arity | arity <= index | index < 0, in either spelling
            if member_path(small) == iname and strict and big.kind == 'UnaryOperator' and \
                    big.op == '-' and 'arity' in big.text(4):
                lo = cn
            elif member_path(big) == iname and not strict and 'arity' in small.text(4):
                hi = cn
            elif member_path(small) == iname and strict and const_eval(big) == 0:
                neg = cn
        site = short(f)
        ok = lo is not None and hi is not None
        detail = []
        if ok:
            for g in (lo, hi):
                t = [w for (w, lab) in cfg.succ[g.idx] if lab is True]
                reach = cfg.forward_reachable(t)
                thr = [x for x in reach if cfg.nodes[x].kind == 'throw' and
                       thrown_type(cfg.nodes[x].ast) == 'index_error']
                if not thr or cfg.exit.idx in reach:
                    ok = False
                    detail.append('out-of-range edge of `%s` does not end in throw index_error'
                                  % g.ast.text(4))
        else:
            detail.append('range test `index < -arity || index >= arity` not found')
        normok = False
        if neg is not None:
            t = [w for (w, lab) in cfg.succ[neg.idx] if lab is True]
            fl = [w for (w, lab) in cfg.succ[neg.idx] if lab is False]
            # the normalisation is on the negative branch only (anywhere on it, not necessarily
            # its first statement)
            only_neg = cfg.forward_reachable(t) - cfg.forward_reachable(fl)
            for w in only_neg:
                a = cfg.nodes[w].ast
                if a is not None and a.kind == 'CompoundAssignOperator' and a.op == '+=' and \
                        member_path(a.kids[0]) == iname and 'arity' in a.kids[1].text(4):
                    normok = True
        if not normok:
            ok = False
            detail.append('negative index is not normalised by `index += arity`')
        # every other use of index is dominated by all three guards
        guards = [g for g in (lo, hi, neg) if g is not None]
        gidx = {g.idx for g in guards}
        uses = []
        for cn in cfg.nodes:
            if cn.ast is None or cn.idx in gidx:
                continue
            if any(d.kind == 'DeclRefExpr' and (d.ref or {}).get('name') == iname and
                   (d.ref or {}).get('kind') == 'ParmVarDecl' for d in cn.ast.walk()):
                a = cn.ast
                if a.kind == 'CompoundAssignOperator' and member_path(a.kids[0]) == iname:
                    continue
                uses.append(cn)
        for u in uses:
            for g in guards:
                if not cfg.dominates(g.idx, u.idx):
                    ok = False
                    detail.append('use `%s` is not dominated by `%s`' % (u.ast.text(3), g.ast.text(3)))
        ctx.check(site + '/index-guard', ok and bool(uses),
                  '%s: `index < -arity || index >= arity -> IndexError` and `index += arity` '
                  'dominate all %d uses of the index' % (inst(f), len(uses)),
                  '%s: %s' % (inst(f), '; '.join(detail) or 'no use of the index found'), f.loc)


# ---------------------------------------------------------------------------------------------
S3_INVARIANTS = [
    # (id, what must be validated, tokens that a validating condition mentions)
    ('dict-keys-length', 'for Dict/OrderedDict the number of keys equals the arity', ('node_data', 'arity')),
    ('defaultdict-metadata-shape', 'DefaultDict metadata is an exact 2-tuple whose second item is a list', ('node_data', '2')),
    ('entries-length', 'custom node_entries has `arity` items', ('node_entries', 'arity')),
    ('original-keys-length', 'original_keys has `arity` items', ('original_keys', 'arity')),
]


@rule('S3', floor=4, title='unpickling validates the shapes that later unchecked reads rely on')
def s3(ctx):
    prog = ctx.cxx()
    f = prog.one('PyTreeSpec::FromPickleable')
    cfg = cfg_of(f)
    # the unchecked reads that make these invariants necessary (evidence)
    wrappers = unchecked_index_wrappers(prog)
    n_reads = 0
    for g in live_funcs(prog):
        if g.body is None:
            continue
        for c in calls_in(g.body, {'ListGetItem', 'TupleGetItem', 'TupleGetItemAs', 'ListGetItemAs'}):
            a = c.call_args()[0]
            if a is not None and any(m.kind == 'MemberExpr' and m.name in
                                     ('node_data', 'node_entries', 'original_keys') for m in a.walk()):
                n_reads += 1
    ctx.analysed['unchecked_reads_of_node_payload'] = n_reads
    conds = []
    for cn in cfg.nodes:
        if cn.kind == 'cond' and cn.ast is not None:
            t = [w for (w, lab) in cfg.succ[cn.idx]]
            leads_to_throw = any(cfg.nodes[x].kind == 'throw' for (w, lab) in cfg.succ[cn.idx]
                                 for x in cfg.forward_reachable([w]) if x != cfg.exit.idx) and True
            conds.append((cn, cn.ast.text(8)))
    inits = local_inits(f)
    for iid, what, toks in S3_INVARIANTS:
        found = None
        for cn, txt in conds:
            # the condition must compare a size with the arity / a literal and sit on a path to a throw
            if not re.search(r'Size|size|len', txt):
                continue
            tk = tokens(prog, f, cn.ast, inits)
            need_field = toks[0]
            if need_field in tk or need_field in txt:
                if toks[1] == 'arity' and ('arity' in tk or 'arity' in txt):
                    found = cn
                elif toks[1] == '2' and re.search(r'\b2\b', txt):
                    found = cn
        ctx.check('FromPickleable/validates/' + iid, found is not None,
                  'FromPickleable checks that %s' % what,
                  'FromPickleable accepts a state in which it is not true that %s; %d unchecked '
                  'reads of node payload (MakeNode, paths, accessors, hash, ...) rely on it - a '
                  'hand-made __setstate__ payload reads out of bounds' % (what, n_reads), f.loc)


# ---------------------------------------------------------------------------------------------
@rule('E1', floor=2, title='re-entrancy guard sets are cleaned up on every exit, normal or exceptional')
def e1(ctx):
    prog = ctx.cxx()
    shapes = {}
    for name in ('PyTreeSpec::HashValue', 'PyTreeSpec::ToString'):
        f = prog.one(name)
        cfg = cfg_of(f)
        # the guard set: the function's static local set (whatever it is called)
        guard = [v.name for v in f.body.find('VarDecl')
                 if (v.x or {}).get('storageClass') == 'static' and 'set<' in (v.type or '')]
        if not guard:
            guard = [v.name for v in f.body.find('VarDecl') if 'unordered_set<' in (v.type or '')]
        ctx.require(len(guard) == 1, '%s: %d static guard sets' % (name, len(guard)))
        ins = [c for c in calls_in(f.body, {'insert', 'emplace'}) if member_path(c.call_base()) == guard[0]]
        ers = [c for c in calls_in(f.body, {'erase'}) if member_path(c.call_base()) == guard[0]]
        ctx.require(len(ins) == 1, '%s: %d insertions into the guard set' % (name, len(ins)))
        i = cfg.cnode_of(ins[0])
        cut = {cfg.cnode_of(e) for e in ers}
        reach = cfg.reachable_from([w for (w, lab) in cfg.succ[i]], None, cut)
        leaks = []
        if cfg.exit.idx in reach:
            leaks.append('a normal return')
        if cfg.throwexit.idx in reach:
            leaks.append('an exception')
        ctx.check(short(f) + '/guard-cleanup', not leaks and bool(ers),
                  '%s: every path from running.insert(ident) to any exit passes running.erase(ident)'
                  % inst(f),
                  '%s: %s can leave the function with `ident` still in the guard set: the next '
                  'hash()/repr() of this treespec on this thread returns the recursion placeholder'
                  % (inst(f), ' and '.join(leaks) or 'no erase at all'), ins[0].loc)
        # a cleanup that lives in a handler is reached only by the exceptions the handler names:
        # it has to be a catch-all (Python exceptions travel as py::error_already_set, which is a
        # std::exception but not a std::runtime_error)
        narrow = []
        for cs in f.body.find('CXXCatchStmt'):
            if any(x is e for e in ers for x in cs.walk()):
                decl = cs.kids[0] if cs.kids else None
                if decl is not None:
                    narrow.append((cs, decl.type or decl.name or '?'))
        ctx.check(short(f) + '/cleanup-handler-catches-everything', not narrow,
                  '%s: the handler that erases `ident` from the guard set is `catch (...)`' % inst(f),
                  '%s: the guard set is cleaned in `catch (%s)`: an exception of another type (a Python '
                  'exception is py::error_already_set) leaves `ident` in the set and every later hash() / repr() '
                  'of this treespec on this thread returns the recursion placeholder'
                  % (inst(f), narrow[0][1] if narrow else ''), narrow[0][0].loc if narrow else f.loc)
        # the payload call sits inside the try block (has an exceptional edge to the handler)
        shapes[name] = [n.kind for n in cfg.nodes]
    a, b = list(shapes.values())
    ctx.check('HashValue~ToString/same-shape', a == b,
              'HashValue and ToString have the same control-flow shape (sibling guard idiom)',
              'HashValue and ToString differ in control-flow shape: %d vs %d nodes' % (len(a), len(b)),
              None)


# ---------------------------------------------------------------------------------------------
ALLOWED_THROWS = {'error_already_set', 'value_error', 'type_error', 'index_error', 'stop_iteration',
                  'runtime_error', 'InternalError', 'rethrow'}


@rule('E6', floor=100, title='the engine throws only exception types that translate to the documented Python exceptions')
def e6(ctx):
    prog = ctx.cxx()
    n = 0
    for f in live_funcs(prog):
        if f.body is None:
            continue
        owner = f if not f.is_lambda else prog.funcs.get(f.parent, f)
        per = {}
        for t in f.body.find('CXXThrowExpr'):
            tt = thrown_type(t)
            n += 1
            k = per.setdefault(tt, 0)
            per[tt] = k + 1
            ctx.check('%s/throw/%s#%d' % (short(owner), tt, k), tt in ALLOWED_THROWS,
                      '%s throws %s' % (inst(f), tt),
                      '%s throws %s, which has no documented translation' % (inst(f), tt), t.loc)
    ctx.analysed['throw_sites'] = n


@rule('E5', floor=8, title='exceptions from user code are swallowed nowhere except the TypeError fallbacks of the key sort')
def e5(ctx):
    prog = ctx.cxx()
    nh = 0
    for f in live_funcs(prog):
        if f.body is None:
            continue
        owner = f if not f.is_lambda else prog.funcs.get(f.parent, f)
        cfg = None
        for ti, tr in enumerate(f.body.find('CXXTryStmt')):
            for hi, h in enumerate(tr.kids[1:]):
                if h is None:
                    continue
                nh += 1
                if cfg is None:
                    cfg = cfg_of(f)
                body = h.kids[-1]
                site = '%s/catch#%d.%d' % (short(owner), ti, hi)
                verdict, why = _handler_class(cfg, body)
                ctx.check(site, verdict in ('rethrows', 'typeerror-only'),
                          '%s: handler %s' % (inst(f), why),
                          '%s: handler %s: an exception raised by user code can be discarded'
                          % (inst(f), why), h.loc)
        clears = calls_in(f.body, {'PyErr_Clear'})
        for ci, c in enumerate(clears):
            nh += 1
            if cfg is None:
                cfg = cfg_of(f)
            site = '%s/PyErr_Clear#%d' % (short(owner), ci)
            verdict, why = _clear_class(prog, f, cfg, c)
            ctx.check(site, verdict, '%s: PyErr_Clear %s' % (inst(f), why),
                      '%s: PyErr_Clear %s' % (inst(f), why), c.loc)
    ctx.analysed['catch_handlers_and_clears'] = nh


def _matches_typeerror(ast):
    if ast is None:
        return False
    for c in calls_in(ast, {'matches'}):
        a = c.call_args()
        if a and member_path(a[0]) == 'PyExc_TypeError':
            return True
    return False


def _handler_class(cfg, body):
    """classify a catch handler by the ways it can complete normally"""
    nodes = [cfg.cnode_of(n) for n in body.walk()]
    nodes = [x for x in nodes if x is not None]
    if not nodes:
        return 'swallows', 'is empty (swallows everything)'
    inside = set(nodes)
    first = min(inside)
    # normal completion: an edge from inside to a node outside that is not throwexit
    guards = [x for x in inside if cfg.nodes[x].kind == 'cond' and _matches_typeerror(cfg.nodes[x].ast)]

    def completes(skip_true_of=None):
        seen = set()
        st = [first]
        while st:
            v = st.pop()
            if v in seen:
                continue
            seen.add(v)
            for (w, lab) in cfg.succ[v]:
                if skip_true_of is not None and v in skip_true_of and lab is True:
                    continue
                if lab == 'exc':
                    continue
                if w not in inside:
                    if w != cfg.throwexit.idx:
                        return True
                    continue
                st.append(w)
        return False
    if not completes():
        return 'rethrows', 'rethrows on every path'
    if calls_in(body, {'raise_from', 'set_error', 'PyErr_SetString', 'PyErr_Format'}):
        return 'rethrows', 'converts the C++ exception into a pending Python error and returns failure'
    if guards and not completes(skip_true_of=set(guards)):
        return 'typeerror-only', 'completes normally only under ex.matches(PyExc_TypeError); everything else is rethrown'
    return 'swallows', 'can complete normally without a TypeError test'


def _clear_class(prog, f, cfg, c):
    cn = cfg.cnode_of(c)
    # (a) inside a handler under a TypeError guard
    doms = cfg.dominators().get(cn, set())
    for d in doms:
        n = cfg.nodes[d]
        if n.kind == 'cond' and _matches_typeerror(n.ast):
            t = [w for (w, lab) in cfg.succ[d] if lab is True]
            if cn in cfg.forward_reachable(t) and cn not in cfg.forward_reachable(
                    [w for (w, lab) in cfg.succ[d] if lab is False]):
                return True, 'is reached only after ex.matches(PyExc_TypeError)'
    # (b) failed attribute probe on a class object: dominated by the null edge of a
    # PyObject_GetAttr condition variable
    for d in doms:
        n = cfg.nodes[d]
        if n.ast is not None and any(x.callee_name() == 'PyObject_GetAttr' for x in calls_in(n.ast)):
            # the decl atom is followed by the cond on the variable
            for (w, lab) in cfg.succ[d]:
                wn = cfg.nodes[w]
                if wn.kind == 'cond':
                    f_succ = [x for (x, l2) in cfg.succ[w] if l2 is False]
                    if cn in cfg.forward_reachable(f_succ) and cn not in cfg.forward_reachable(
                            [x for (x, l2) in cfg.succ[w] if l2 is True]):
                        return True, ('clears the error of a failed attribute probe on a class '
                                      'object (not one of the user callbacks of the property)')
    return False, 'is not under a TypeError test nor after a failed class-attribute probe'


# ---------------------------------------------------------------------------------------------
FIELD_SHAPE = {
    # Node field -> can it hold a *list* object (so that py::list(field) aliases instead of copying)
    'node_data': True, 'original_keys': True, 'node_entries': False,
}


def _fresh(prog, f, e, inits, depth=0):
    """(True, why) if e denotes a container created in this call; (False, why) if it aliases
    treespec state; (None, why) if unknown"""
    e0 = e
    e = strip_casts(e)
    if e is None or depth > 6:
        return None, 'unknown expression'
    if e.kind in CALL_KINDS:
        nm = e.callee_name()
        if nm in ('reinterpret_borrow', 'reinterpret_steal'):
            a = e.call_args()[0]
            tk = tokens(prog, f, a, inits)
            if tk & set(FIELD_SHAPE):
                return False, 'reinterpret_borrow of Node::%s' % sorted(tk & set(FIELD_SHAPE))[0]
            return _fresh(prog, f, a, inits, depth + 1)
        if nm == 'operator()':
            # getattr(x, copy)()  -> a copy
            callee = e.kids[1] if len(e.kids) > 1 else None
            if callee is not None and any(c.callee_name() == 'getattr' and
                                          any('copy' in (m.text(3)) for m in c.call_args()[1:])
                                          for c in calls_in(callee)):
                return True, 'result of .copy()'
            return True, 'result of a Python call'
        if nm in ('TupleGetItem', 'TupleGetItemAs', 'ListGetItem', 'ListGetItemAs'):
            a = e.call_args()[0]
            tk = tokens(prog, f, a, inits)
            if tk & set(FIELD_SHAPE):
                return False, 'element of Node::%s' % sorted(tk & set(FIELD_SHAPE))[0]
            return None, 'element read'
        if nm in ('move', 'forward'):
            return _fresh(prog, f, e.call_args()[0], inits, depth + 1)
        if nm in ('make_pair', 'make_tuple'):
            res = [_fresh(prog, f, a, inits, depth + 1) for a in e.call_args() if a is not None]
            bad = [r for r in res if r[0] is False]
            if bad:
                return bad[0]
            return True, 'aggregate of fresh values'
        t = prog.target(f, e)
        if t is not None:
            return True, 'value returned by %s' % short(t)
        return True, 'call result'
    if e.kind in CTOR_KINDS:
        cls = (e.type or '').replace('const ', '').replace('pybind11::', 'py::').strip(' &')
        if len(e.kids) == 1 and e.kids[0] is not None:
            src = e.kids[0]
            st = (src.type or '').replace('const ', '').replace('pybind11::', 'py::').strip(' &')
            tk = tokens(prog, f, src, inits)
            hit = tk & set(FIELD_SHAPE)
            if cls in ('py::list', 'py::tuple', 'py::object', 'py::dict'):
                if st == cls or cls == 'py::object':
                    return _fresh(prog, f, src, inits, depth + 1)
                ssrc = strip_casts(src)
                if not (ssrc is not None and ssrc.kind == 'MemberExpr'):
                    r0 = _fresh(prog, f, src, inits, depth + 1)
                    if r0[0] is not None:
                        return r0
                # converting constructor: aliases when the source already is of the target type
                if hit and cls == 'py::list' and any(FIELD_SHAPE[h] for h in hit):
                    return False, ('py::list(Node::%s) returns the same object when the field '
                                   'already is a list' % sorted(hit)[0])
                return True, 'converting constructor (builds a new %s)' % cls
        return True, 'constructed here'
    if e.kind == 'DeclRefExpr' and e.ref:
        nm = e.ref.get('name')
        if e.ref.get('kind') == 'ParmVarDecl':
            return None, 'parameter'
        if nm in inits:
            return _fresh(prog, f, inits[nm], inits, depth + 1)
        return True, 'local without initialiser (default constructed)'
    if e.kind == 'MemberExpr':
        if e.name in FIELD_SHAPE and _base_is(e, 'Node'):
            return False, 'Node::%s itself' % e.name
        b = e.kids[0] if e.kids else None
        t = (e.type or '')
        if (b is None or b.kind == 'CXXThisExpr') and ('pybind11' in t or 'py::' in t or 'std::vector' in t):
            return False, 'the treespec\'s own member `%s`' % e.name
        return None, 'member'
    if e.kind == 'ConditionalOperator':
        a = _fresh(prog, f, e.kids[1], inits, depth + 1)
        b = _fresh(prog, f, e.kids[2], inits, depth + 1)
        for r in (a, b):
            if r[0] is False:
                return r
        return a if a[0] is None else b
    if e.kind == 'InitListExpr':
        return True, 'aggregate'
    return None, e.kind


A1_METHODS = ['entries', 'paths', 'accessors', 'children', 'child', 'flatten_up_to', 'one_level']


@rule('A1', floor=10, title='inspection methods hand out fresh containers, never the treespec\'s own lists')
def a1(ctx):
    prog = ctx.cxx()
    tab = binding_table(prog)
    targets = []
    for m in A1_METHODS:
        b = tab.get(('PyTreeSpec', m))
        ctx.require(b is not None, 'no binding PyTreeSpec.%s' % m)
        if b.target_key and b.target_key in prog.funcs:
            targets.append((m, prog.funcs[b.target_key]))
        elif b.lambda_key and b.lambda_key in prog.funcs:
            targets.append((m, prog.funcs[b.lambda_key]))
    for m in ('flatten', 'flatten_with_path'):
        b = tab.get(('module', m))
        ctx.require(b is not None and b.target_key in prog.funcs, 'no binding _C.%s' % m)
        targets.append((m, prog.funcs[b.target_key]))
    for m, f in targets:
        inits = local_inits(f)
        rets = [r for r in f.body.walk() if r.kind == 'ReturnStmt' and r.kids and r.kids[0] is not None]
        ctx.require(rets, '%s: no return statement' % inst(f))
        # locals that are also stored into a member of the treespec are not the caller's alone
        kept = {}
        for n_ in f.body.walk():
            lhs = rhs = None
            if n_.kind == 'BinaryOperator' and n_.op == '=':
                lhs, rhs = n_.kids
            elif n_.kind == 'CXXOperatorCallExpr' and n_.callee_name() == 'operator=' and len(n_.kids) == 3:
                lhs, rhs = n_.kids[1], n_.kids[2]
            if lhs is not None and lhs.kind == 'MemberExpr' and \
                    (not lhs.kids or lhs.kids[0] is None or lhs.kids[0].kind == 'CXXThisExpr'):
                for x_ in rhs.walk() if rhs is not None else ():
                    if x_.kind == 'DeclRefExpr' and (x_.ref or {}).get('kind') == 'VarDecl':
                        kept[x_.ref.get('name')] = lhs.name
        for ri, r in enumerate(rets):
            ok, why = _fresh(prog, f, r.kids[0], inits)
            rv = member_path(strip_casts(r.kids[0]))
            if ok is not False and rv in kept:
                ok, why = False, 'the local `%s`, which is also kept in the member `%s`' % (rv, kept[rv])
            site = '%s/return#%d' % (short(f), ri)
            if ok is None:
                # scalars (entry(i), type) are not containers of the treespec
                ctx.ok(site, '%s (.%s): returns %s' % (inst(f), m, why), r.loc)
            else:
                ctx.check(site, ok, '%s (.%s): returns a fresh object - %s' % (inst(f), m, why),
                          '%s (.%s): returns %s: mutating the returned list changes the treespec '
                          '(keys no longer match its children)' % (inst(f), m, why), r.loc)
    # bound methods are const or static: no Python-visible method can mutate the node array
    rec = prog.records.get('optree::PyTreeSpec')
    ctx.require(rec is not None, 'record PyTreeSpec not found')
    # ... which only means something if no data member is exempt from constness
    for rname in ('optree::PyTreeSpec', 'optree::PyTreeSpec::Node'):
        r_ = prog.records.get(rname)
        mf = list(getattr(r_, 'mutable_fields', ())) if r_ is not None else []
        ctx.check('%s/no-mutable-members' % rname.split('::', 1)[-1], not mf,
                  '%s has no `mutable` data member: a const method cannot change a treespec' % rname.split('::', 1)[-1],
                  '%s declares %s `mutable`: const inspection methods can write it, so "bound to a const '
                  'member" no longer means the treespec is left unchanged (a memo kept there is shared '
                  'with every caller and every copy)' % (rname.split('::', 1)[-1], mf), None)
    meth = {name: (isc, iss) for name, sig, isc, iss, acc in rec.methods}
    for (owner, name), b in sorted(tab.items(), key=lambda kv: str(kv[0])):
        if owner != 'PyTreeSpec' or not b.target:
            continue
        isc, iss = meth.get(b.target, (None, None))
        ctx.check('PyTreeSpec.%s/const' % name, bool(isc or iss),
                  'PyTreeSpec.%s is bound to a const/static member (%s)' % (name, b.target),
                  'PyTreeSpec.%s is bound to the non-const member %s: a Python call can mutate a '
                  'treespec in place' % (name, b.target), b.node.loc)


# ---------------------------------------------------------------------------------------------
PRIM_MUTATORS = {'PyList_Sort', 'PyList_Reverse', 'PyList_SET_ITEM', 'PyTuple_SET_ITEM',
                 'PyDict_SetItem', 'PyList_Append', 'PyList_SetItem', 'PyDict_DelItem',
                 'PyDict_Clear', 'PyList_SetSlice', 'PyList_Insert'}


def _receiver_of_prim(call):
    """expression whose object is mutated by a primitive mutator call (first arg, `.ptr()` peeled)"""
    a = call.call_args()
    if not a or a[0] is None:
        return None
    x = a[0]
    if x.kind == 'CXXMemberCallExpr' and x.callee_name() == 'ptr':
        return x.call_base()
    return x


def _sort_via_getattr(call):
    """getattr(x, sort)(...) -> x"""
    if call.kind == 'CXXOperatorCallExpr' and call.callee_name() == 'operator()' and len(call.kids) > 1:
        callee = call.kids[1]
        for c in calls_in(callee, {'getattr'}):
            a = c.call_args()
            if len(a) >= 2 and any(k in a[1].text(3) for k in ('sort', 'reverse', 'append', 'clear',
                                                                'pop', 'remove', 'extend', 'insert',
                                                                'update', 'setdefault', 'popitem')):
                return a[0]
    return None


def mutator_params(prog):
    """function key -> set of parameter indices whose object the function mutates in place"""
    out = {}
    changed = True
    rounds = 0
    while changed and rounds < 6:
        changed = False
        rounds += 1
        for f in live_funcs(prog):
            if f.body is None or f.is_lambda:
                continue
            pnames = [p[0] for p in f.params]
            for c in calls_in(f.body):
                recv = []
                if c.kind in CALL_KINDS and c.callee_name() in PRIM_MUTATORS and \
                        callee_func(prog, f, c) is None:
                    recv.append(_receiver_of_prim(c))
                r = _sort_via_getattr(c)
                if r is not None:
                    recv.append(r)
                t = callee_func(prog, f, c)
                if t is not None and t.key in out:
                    for i in out[t.key]:
                        a = c.call_args()
                        if i < len(a):
                            recv.append(a[i])
                for r in recv:
                    p = member_path(strip_casts(r)) if r is not None else None
                    if p in pnames:
                        i = pnames.index(p)
                        if i not in out.setdefault(f.key, set()):
                            out[f.key].add(i)
                            changed = True
    return out


@rule('A5', floor=15, title='in-place mutators are applied only to objects created by the same call')
def a5(ctx):
    prog = ctx.cxx()
    mp = mutator_params(prog)
    ctx.analysed['mutator_wrappers'] = sorted('%s(arg %s)' % (short(prog.funcs[k]), sorted(v))
                                              for k, v in mp.items())
    n = 0
    for f in live_funcs(prog):
        if f.body is None:
            continue
        inits = local_inits(f)
        pnames = [p[0] for p in f.params]
        owner = f if not f.is_lambda else prog.funcs.get(f.parent, f)
        counter = {}
        for c in calls_in(f.body):
            recv = []
            what = c.callee_name()
            if c.kind in CALL_KINDS and what in PRIM_MUTATORS and callee_func(prog, f, c) is None:
                recv.append(_receiver_of_prim(c))
            r = _sort_via_getattr(c)
            if r is not None:
                recv.append(r)
                what = 'list.sort'
            t = callee_func(prog, f, c)
            if t is not None and t.key in mp:
                a = c.call_args()
                for i in mp[t.key]:
                    if i < len(a):
                        recv.append(a[i])
            for r in recv:
                if r is None:
                    continue
                p = member_path(strip_casts(r))
                if p in pnames and f.key in mp and pnames.index(p) in mp[f.key]:
                    continue   # wrapper: obligation moves to its callers
                n += 1
                k = counter.setdefault(what, 0)
                counter[what] = k + 1
                site = '%s/%s#%d' % (short(owner), what, k)
                ok, why = _fresh(prog, f, r, inits)
                if ok is None and p in pnames:
                    ok, why = False, 'a parameter (`%s`) that callers pass in' % p
                ctx.check(site, ok is True,
                          '%s: %s mutates an object created in this call (%s)' % (inst(f), what, why),
                          '%s: %s mutates %s in place - an operand treespec (or the caller\'s '
                          'object) is changed by an operation that should only read it'
                          % (inst(f), what, why), c.loc)
    ctx.analysed['mutator_call_sites'] = n


@rule('X1', floor=2, title='the #if arms of an accessor wrapper agree on bounds / null handling across configurations')
def x1(ctx):
    """Contradiction rule across preprocessor configurations: if one arm of a wrapper checks the
    index / the NULL result and another does not, one of them is wrong."""
    from ..properties import THOROUGH_CONFIGS
    per = {}
    for cfg in THOROUGH_CONFIGS:
        prog = ctx.cxx(cfg)
        unchecked = {short(prog.funcs[k]): v for k, v in unchecked_index_wrappers(prog).items()}
        nullable_unchecked = set()
        for f in live_funcs(prog):
            if f.body is None:
                continue
            for c in calls_in(f.body):
                if c.kind in CALL_KINDS and callee_func(prog, f, c) is None:
                    e, why = external_effects(c)
                    if SWALLOWS in e:
                        nullable_unchecked.add('%s:%s' % (short(f), c.callee_name()))
        per[cfg] = (unchecked, nullable_unchecked)
    for name in ('ListGetItemAs', 'ListGetItem'):
        vals = {cfg: (name in per[cfg][0]) for cfg in per}
        ctx.check('%s/bounds-agree' % name, len(set(vals.values())) == 1,
                  '%s is %s in every configuration %s' % (name, 'unchecked' if list(vals.values())[0] else 'bounds-checked', sorted(vals)),
                  '%s is bounds-checked in some configurations and unchecked in others: %s' % (name, vals),
                  None)
    vals = {cfg: sorted(per[cfg][1]) for cfg in per}
    ctx.check('DictGetItemAs/swallow-agree', len({tuple(v) for v in vals.values()}) == 1,
              'error-swallowing dict lookups are the same in every configuration: %s' % (list(vals.values())[0] or 'none'),
              'error-swallowing dict lookups differ between configurations: %s' % vals, None)


# ---------------------------------------------------------------------------------------------
A8_ACCESSORS = {'back', 'front', 'operator[]', 'operator*', 'operator->', 'at', 'get', 'value', 'data'}
A8_PY_CASTS = {'thread_safe_cast', 'cast'}


def _a8_origin(f, e, decls, depth=0):
    """who owns the object an lvalue expression denotes: 'own' (a local object of this call, a
    by-value or rvalue-reference parameter, a temporary), 'const' (moving it copies), 'python'
    (a C++ object inside a Python object), 'caller' (a non-const reference parameter), 'self'
    (a member of *this), or 'unknown'"""
    e = strip_casts(e)
    if e is None or depth > 8:
        return 'unknown'
    t = e.type or ''
    if e.kind == 'DeclRefExpr':
        r = e.ref or {}
        rt = (r.get('type') or '').strip()
        if r.get('kind') == 'ParmVarDecl':
            if rt.endswith('&&') or '&' not in rt:
                return 'own'
            return 'const' if rt.startswith('const ') else 'caller'
        if r.get('kind') in ('VarDecl', 'BindingDecl'):
            if '&' not in rt or rt.endswith('&&'):
                return 'own'
            if rt.startswith('const '):
                return 'const'
            d = decls.get(r.get('id'))
            if d is not None and d.kids and d.kids[-1] is not None:
                o = _a8_origin(f, d.kids[-1], decls, depth + 1)
                # a non-const reference to something that was const: the constness was cast away
                return 'caller' if o == 'const' else o
            return 'unknown'
        return 'unknown'
    if e.kind == 'CXXThisExpr':
        return 'self'
    if e.kind == 'MemberExpr':
        if not e.kids or e.kids[0] is None:
            return 'self'
        return _a8_origin(f, e.kids[0], decls, depth + 1)
    if e.kind in ('ParenExpr', 'ExprWithCleanups', 'MaterializeTemporaryExpr', 'ImplicitCastExpr') and e.kids:
        return _a8_origin(f, e.kids[0], decls, depth + 1)
    if e.kind == 'UnaryOperator' and e.op == '*' and e.kids:
        return _a8_origin(f, e.kids[0], decls, depth + 1)
    if e.kind in CALL_KINDS:
        nm = e.callee_name()
        # the expression type of a call drops the reference; the callee's function type has it
        ret = ''
        for k in e.kids[:1]:
            kk = strip_casts(k)
            if kk is not None and kk.kind in ('DeclRefExpr', 'MemberExpr'):
                ft = kk.type or (kk.ref or {}).get('type') or ''
                if '(' in ft:
                    ret = ft[:ft.index('(')].strip()
        by_ref = ret.endswith('&') and not ret.endswith('&&')
        if nm in A8_PY_CASTS and by_ref:
            return 'const' if ret.startswith('const ') else 'python'
        if nm in A8_ACCESSORS:
            b = e.call_base() if e.kind == 'CXXMemberCallExpr' else (e.kids[1] if len(e.kids) > 1 else None)
            return _a8_origin(f, b, decls, depth + 1)
        if nm == 'move' and e.call_args():
            return _a8_origin(f, e.call_args()[0], decls, depth + 1)
        if ret and not ret.endswith('&'):
            return 'own'          # a value the call made
        return 'unknown'
    if e.kind in CTOR_KINDS or e.kind in ('CXXBindTemporaryExpr', 'InitListExpr', 'LambdaExpr'):
        return 'own'
    return 'unknown'


@rule('A8', floor=20, title='std::move takes only what the call itself owns')
def a8(ctx):
    """Moving from an object leaves it empty.  Every `std::move(x)` in the engine is applied to a
    local object of the call, a by-value / rvalue-reference parameter or a temporary - never to a
    C++ object that lives inside a Python object (`thread_safe_cast<T &>(obj)`), to a non-const
    reference parameter or to a member of `*this`: those are operands of the caller, and an
    operation must leave its operands unchanged."""
    prog = ctx.cxx()
    n = 0
    for f in live_funcs(prog):
        if f.body is None or not (f.file or '').startswith(('src/', 'include/optree/')):
            continue
        moves = [c for c in calls_in(f.body, {'move'}) if c.kind == 'CallExpr' and len(c.call_args()) == 1]
        if not moves:
            continue
        decls = {}
        root = f if not f.is_lambda else prog.funcs.get(f.parent, f)
        for b_ in (root.body, f.body):
            if b_ is not None:
                for d in b_.walk(True):
                    if d.kind in ('VarDecl', 'BindingDecl') and d.id is not None:
                        decls[d.id] = d
        for c in moves:
            a = c.call_args()[0]
            at = (a.type or '') if a is not None else ''
            if at.startswith('const '):
                o = 'const'
            else:
                o = _a8_origin(f, a, decls)
            n += 1
            owner = f if not f.is_lambda else prog.funcs.get(f.parent, f)
            site = '%s/move(%s)' % (short(owner), (a.text(3) if a is not None else '?')[:40])
            ctx.check(site, o not in ('python', 'caller', 'self'),
                      '%s: std::move(%s) - %s' % (inst(f), a.text(3) if a is not None else '?', o),
                      '%s: `std::move(%s)` empties %s - an operand of the caller, which must be left '
                      'unchanged (a treespec the callback keeps, or returns again, is then an empty shell)'
                      % (inst(f), a.text(3) if a is not None else '?',
                         {'python': 'a C++ object that lives inside a Python object',
                          'caller': 'an object passed by non-const reference',
                          'self': 'a member of *this'}.get(o, o)), c.loc)
    ctx.require(n >= 20, 'only %d std::move sites found' % n)


# ---------------------------------------------------------------------------------------------
VG2_TYPE_TESTS = {'is', 'Py_IS_TYPE', 'isinstance', 'IsNamedTupleClass', 'IsNamedTupleInstance', 'IsNamedTuple',
                  'IsStructSequenceClass', 'IsStructSequenceInstance', 'IsStructSequence', 'DictKeysEqual',
                  'PyList_CheckExact', 'PyTuple_CheckExact', 'PyDict_CheckExact', 'PyType_Check', 'PyCallable_Check',
                  'equal'}
VG2_STATUS_CALLS = {'PyList_Sort', 'PyList_Reverse', 'PyList_Append', 'PyList_SetSlice', 'PyDict_SetItem',
                    'PyDict_DelItem', 'PyObject_SetAttr', 'PyList_Insert'}
# comparisons a property rests on: (function, text in the left operand, text in the right operand or
# None, why); the guard throws on the outcome on which the two differ
VG2_DIFFERS = [
    ('FlattenUpTo', 'leaf', '-(1)', 'leaves of the treespec that the walk did not consume mean the tree is too small'),
    ('MakeFromCollectionImpl', 'm_none_is_leaf', None, 'a child treespec made with the other none_is_leaf setting describes different trees'),
    ('FromPickleable', 'size(', '3', 'the pickled state is a 3-tuple'),
]
VG2_SCOPE = {
    'C07': ('src/treespec/flatten.cpp', 'src/treespec/richcomparison.cpp', 'include/optree/pytypes.h'),
    'C09': ('src/treespec/treespec.cpp',), 'C08': ('src/treespec/constructor.cpp', 'src/treespec/treespec.cpp'),
    'C11': ('src/treespec/serialization.cpp',), 'C02': ('include/optree/pytypes.h', 'src/registry.cpp'),
    'C18': ('include/optree/pytypes.h',), 'C12': ('src/registry.cpp',),
    'C01': ('src/treespec/unflatten.cpp', 'src/treespec/flatten.cpp', 'include/optree/pytypes.h'),
    'C05': ('src/treespec/traversal.cpp', 'src/treespec/flatten.cpp'),
}


def _vg2_rejecting(a, pos, inits=None):
    """outcome of the un-negated atom `a` on which the guard must throw (True / False), or None
    when the atom is of no class with a fixed convention; `pos` is the sign under which the atom
    occurs (after `!`)"""
    from ..cfg import const_eval as ce
    if a is None:
        return None
    if a.kind in CALL_KINDS:
        nm = a.callee_name()
        if nm in VG2_TYPE_TESTS:
            return False                     # not of the expected type / keys not equal -> throw
        if nm == 'not_equal':
            return True
        if nm in VG2_STATUS_CALLS:
            return True                      # a non-zero status of the C API -> throw
        return None
    if a.kind == 'BinaryOperator' and a.op in ('==', '!=') and len(a.kids) == 2:
        r = strip_casts(a.kids[1])
        if r is not None and r.kind in ('CXXNullPtrLiteralExpr', 'GNUNullExpr'):
            return a.op == '=='              # a null result of the C API -> throw
        minus_one = ce(r) == -1 or (r is not None and r.kind == 'UnaryOperator' and r.op == '-' and r.kids and
                                    ce(strip_casts(r.kids[0])) == 1)
        if minus_one and inits is not None:
            # ... of a value that is the result of a C-API call (`const int result = PyDict_Contains(...)`)
            l = strip_casts(a.kids[0])
            src_ = l
            if l is not None and l.kind == 'DeclRefExpr' and member_path(l) in inits:
                src_ = strip_casts(inits[member_path(l)])
            if src_ is not None and src_.kind in CALL_KINDS and (src_.callee_name() or '').startswith('Py'):
                return a.op == '=='          # status -1 -> throw
        return None
    if a.kind == 'BinaryOperator' and a.op in ('<', '>=') and len(a.kids) == 2 and ce(strip_casts(a.kids[1])) == 0 and \
            strip_casts(a.kids[0]) is not None and strip_casts(a.kids[0]).kind in CALL_KINDS and \
            (strip_casts(a.kids[0]).callee_name() or '').startswith('Py'):
        return a.op == '<'                   # negative status of a C-API call -> throw
    return None


@rule('VG2', floor=40, title='a throw that is guarded by a type test, a null test or a C-API status is reached on the failing outcome')
def vg2(ctx):
    """Convention of the engine, confirmed for every site: `if (!PyList_CheckExact(x)) throw`,
    `if (!IsNamedTupleClass(t)) throw`, `if (!DictKeysEqual(a, b)) throw`, `if (item == nullptr)
    throw`, `if (PyDict_SetItem(...) < 0) throw`, `if (a.not_equal(b)) throw`.  A guard that
    throws on the other outcome rejects every valid argument and lets the invalid ones through
    (wrong results, null dereferences).  Judged on the CFG per atom: the throw is reached from the
    failing edge and not straight from the other one.  InternalError guards (EXPECT_*) are the
    engine's own assertions and are not judged."""
    prog = ctx.cxx()
    scope = VG2_SCOPE.get(ctx.pid)
    n = 0
    seen = set()
    for f in live_funcs(prog):
        if f.body is None or not (f.file or '').startswith(('src/', 'include/optree/')):
            continue
        guards = []
        for g in f.body.walk():
            if g.kind != 'IfStmt' or (g.x or {}).get('hasInit') or (g.x or {}).get('hasVar') or len(g.kids) < 2:
                continue
            then = g.kids[1]
            if then is None:
                continue
            st = [k for k in (then.kids if then.kind == 'CompoundStmt' else [then]) if k is not None]
            if not st:
                continue
            last = st[-1]
            while last.kind == 'ExprWithCleanups' and last.kids:
                last = last.kids[0]
            if last.kind != 'CXXThrowExpr' or 'InternalError' in thrown_type(last):
                continue
            guards.append((g, last))
        if not guards:
            continue
        cfg = cfg_of(f)
        for g, th in guards:
            tn = cfg.cnode_of(th)
            if tn is None:
                continue
            for cn in cfg.nodes:
                if cn.kind != 'cond' or cn.ast is None or not any(x is cn.ast for x in g.kids[0].walk()):
                    continue
                a, pos = unnegate(cn.ast)
                rej = _vg2_rejecting(a, pos, local_inits(f))
                if rej is None and a is not None and a.kind == 'BinaryOperator' and a.op in ('==', '!=') and len(a.kids) == 2:
                    owner_ = f if not f.is_lambda else prog.funcs.get(f.parent, f)
                    for fn_, lt_, rt_, _why in VG2_DIFFERS:
                        if short(owner_).endswith(fn_) and lt_ in a.kids[0].text(4) and \
                                (rt_ is None or rt_ in a.kids[1].text(4)):
                            rej = a.op == '!='
                if rej is None:
                    continue
                key = (g.file, g.line, a.text(3))
                dup = key in seen
                seen.add(key)
                # the CFG node tests cn.ast; the atom `a` is true on the edge labelled `pos`
                lab_rej = rej if pos else (not rej)
                good = cfg.forward_reachable([w for (w, lab) in cfg.succ[cn.idx] if lab is lab_rej])
                bad_, work_ = set(), [w for (w, lab) in cfg.succ[cn.idx] if lab is (not lab_rej)]
                while work_:
                    x_ = work_.pop()
                    if x_ in bad_:
                        continue
                    bad_.add(x_)
                    if cfg.nodes[x_].kind != 'cond':
                        work_ += [w for (w, _) in cfg.succ[x_] if (x_, w) not in cfg.back_edges]
                if not dup:
                    n += 1
                if scope is not None and (f.file or '') not in scope:
                    ctx.ok('%s/%s@%s' % (short(f), (a.text(3) or '')[:40], g.line),
                           '%s: guarded throw (judged under the properties anchored in %s)' % (inst(f), f.file), g.loc)
                    continue
                ctx.check('%s/%s@%s' % (short(f), (a.text(3) or '')[:40], g.line), tn in good and tn not in bad_,
                          '%s: `%s` leads to the throw on its failing outcome' % (inst(f), a.text(4)[:70]),
                          '%s: the %s guarded by `%s` is thrown on the wrong outcome of `%s`: valid arguments are '
                          'rejected and the failing ones go on (wrong results, null dereference)'
                          % (inst(f), thrown_type(th), g.kids[0].text(4)[:70], a.text(4)[:70]), g.loc)
    ctx.require(n >= 40, 'only %d guarded throws with a type / null / status test found' % n)
