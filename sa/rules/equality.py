"""Equality / hashing rules: H1 hash subset of strict-eq, H2 eq covers the structure and only the
structure, H3 operator table."""
from __future__ import annotations

import re

from ..engine import rule
from ..cxx_ir import CALL_KINDS, CTOR_KINDS
from ..cfg import const_eval
from ..bridge import binding_table
from .common import (effective_stmts, short, inst, live_funcs, calls_in, callee_func, member_path, local_inits,
                     enclosing_map, ancestors, strip_casts)

NODE_REC = 'optree::PyTreeSpec::Node'
SPEC_REC = 'optree::PyTreeSpec'


def node_fields(prog):
    rec = prog.records.get(NODE_REC)
    return [f[0] for f in rec.fields] if rec else []


def spec_fields(prog):
    """value members of PyTreeSpec (the node vector is a container: its size and its elements'
    fields are what is hashed/compared, not the vector object)"""
    rec = prog.records.get(SPEC_REC)
    return [f[0] for f in rec.fields if 'vector<' not in (f[1] or '')] if rec else []


def tokens(prog, func, expr, inits, depth=0, seen=None):
    """Set of state tokens an expression depends on: Node field names, PyTreeSpec member names,
    zero-argument const accessors of PyTreeSpec ('GetNumLeaves()'), looking through locals and
    through repo callees that receive a Node / PyTreeSpec."""
    nf = set(node_fields(prog))
    sf = set(spec_fields(prog))
    out = set()
    seen = seen if seen is not None else set()
    if expr is None or depth > 6:
        return out
    for n in expr.walk():
        if n.kind == 'MemberExpr':
            if n.name in nf and _base_is(n, 'Node'):
                out.add(n.name)
            elif n.name in sf and _base_is(n, 'PyTreeSpec'):
                out.add(n.name)
        elif n.kind == 'DeclRefExpr' and n.ref and n.ref.get('kind') in ('VarDecl', 'BindingDecl'):
            nm = n.ref.get('name')
            if nm in inits and nm not in seen:
                seen.add(nm)
                out |= tokens(prog, func, inits[nm], inits, depth + 1, seen)
        elif n.kind in CALL_KINDS:
            t = prog.target(func, n)
            if t is not None and t.record == SPEC_REC:
                if not t.params and t.is_const:
                    out.add(t.name + '()')
                else:
                    # fields the callee reads from a Node it is handed
                    out |= fields_read(prog, t)
    return out


def _base_is(member, cls):
    if not member.kids or member.kids[0] is None:
        return cls == 'PyTreeSpec'
    b = member.kids[0]
    t = (b.type or '') + ' ' + ((b.x or {}).get('desugared') or '')
    if b.kind == 'CXXThisExpr':
        return cls in t
    if cls == 'Node':
        return 'Node' in t or 'const_iterator' in t or 'const_reverse_iterator' in t or \
            'reverse_iterator' in t or 'value_type' in t or '__normal_iterator' in t
    return cls in t


def fields_read(prog, func, _seen=None):
    nf = set(node_fields(prog))
    out = set()
    if func.body is None:
        return out
    for n in func.body.walk():
        if n.kind == 'MemberExpr' and n.name in nf and _base_is(n, 'Node'):
            out.add(n.name)
    return out


# ---- comparison extraction -------------------------------------------------------------------
def as_inequality(e):
    """(lhs, rhs) if e is true exactly when lhs != rhs, else None"""
    if e is None:
        return None
    if e.kind == 'BinaryOperator' and e.op == '!=':
        return e.kids[0], e.kids[1]
    if e.kind == 'CXXOperatorCallExpr' and e.callee_name() == 'operator!=' and len(e.kids) == 3:
        return e.kids[1], e.kids[2]
    if e.kind == 'UnaryOperator' and e.op == '!':
        i = e.kids[0]
        if i is not None and i.kind == 'BinaryOperator' and i.op == '==':
            return i.kids[0], i.kids[1]
        if i is not None and i.kind == 'CXXOperatorCallExpr' and i.callee_name() == 'operator==' \
                and len(i.kids) == 3:
            return i.kids[1], i.kids[2]
    if e.kind == 'CXXMemberCallExpr' and e.callee_name() == 'not_equal':
        return e.call_base(), e.call_args()[0]
    return None


def disjuncts(e):
    if e is not None and e.kind == 'BinaryOperator' and e.op == '||':
        return disjuncts(e.kids[0]) + disjuncts(e.kids[1])
    return [e]


def conjuncts(e):
    if e is not None and e.kind == 'BinaryOperator' and e.op == '&&':
        return conjuncts(e.kids[0]) + conjuncts(e.kids[1])
    return [e]


def side_token(prog, e):
    """token for one side of a comparison: field / accessor name with the owner stripped, and
    a '?' suffix for a presence (bool) view"""
    presence = False
    x = e
    while x is not None and x.kind in ('CXXStaticCastExpr', 'CXXFunctionalCastExpr',
                                       'CStyleCastExpr') and x.kids:
        if 'bool' in (x.type or ''):
            presence = True
        x = x.kids[-1]
    if x is not None and x.kind == 'CXXMemberCallExpr' and x.callee_name() == 'operator bool':
        presence = True
        x = x.call_base()
    if x is None:
        return None
    if x.kind == 'MemberExpr':
        return x.name + ('?' if presence else '')
    if x.kind == 'CXXMemberCallExpr':
        nm = x.callee_name()
        b = x.call_base()
        if b is not None and b.kind == 'MemberExpr':
            return '%s.%s()' % (b.name, nm)
        return nm + '()'
    if x.kind in CTOR_KINDS and len(x.kids) == 1:
        return side_token(prog, x.kids[0])
    return None


def returns_false(stmt):
    if stmt is None:
        return False
    # the branch does nothing but return false (no-op statements do not count)
    es = effective_stmts(stmt)
    if len(es) == 1 and es[0].kind == 'ReturnStmt' and es[0].kids and const_eval(es[0].kids[0]) is False:
        return True
    return False


def throws(stmt):
    if stmt is None:
        return False
    return any(n.kind == 'CXXThrowExpr' for n in stmt.walk())


def eq_comparisons(prog, f):
    """(strict tokens, weak tokens, all tokens read) of an equality-like function: every `if`
    whose then-branch is `return false` (or an EXPECT_* throw) contributes its inequality
    disjuncts; a disjunct that is a bare inequality is strict, one conjoined with other tests is
    weak unless the other conjuncts are presence tests of the same field."""
    strict, weak = {}, {}
    for n in f.body.walk():
        if n.kind != 'IfStmt':
            continue
        kids = list(n.kids)
        cond, then = kids[0], (kids[1] if len(kids) > 1 else None)
        is_assert = throws(then) and not returns_false(then)
        if not (returns_false(then) or is_assert):
            continue
        for d in disjuncts(cond):
            cs = conjuncts(d)
            ineqs = [(c, as_inequality(c)) for c in cs]
            main = [(c, iq) for c, iq in ineqs if iq is not None]
            if not main:
                continue
            for c, (l, r) in main:
                tl, tr = side_token(prog, l), side_token(prog, r)
                if tl is None or tl != tr:
                    continue
                others = [o for o in cs if o is not c]
                guards_ok = True
                for o in others:
                    ot = side_token(prog, o)
                    if ot is None or ot.rstrip('?') != tl.rstrip('?') or not ot.endswith('?'):
                        guards_ok = False
                tgt = strict if guards_ok else weak
                tgt.setdefault(tl, n)
    return strict, weak


# ---------------------------------------------------------------------------------------------
@rule('H1', floor=8, title='everything that feeds the hash is compared strictly by ==')
def h1(ctx):
    prog = ctx.cxx()
    hv = prog.one('PyTreeSpec::HashValueImpl')
    eq = prog.one('PyTreeSpec::EqualTo')
    inits = local_inits(hv)
    strict, weak = eq_comparisons(prog, eq)
    hashed = {}
    for c in calls_in(hv.body, {'HashCombine'}):
        args = c.call_args()
        ctx.require(len(args) >= 2, 'HashCombine call with %d arguments' % len(args))
        toks = tokens(prog, hv, args[1], inits)
        ctx.require(toks, 'cannot tell what %s hashes (%s)' % (args[1].text(4), c.loc))
        for t in toks:
            hashed.setdefault(t, c)
    ctx.require(len(hashed) >= 8, 'HashValueImpl: only %d hashed fields recognised' % len(hashed))
    # presence tokens count as comparing the field's presence; a field compared by value
    # strictly also needs nothing else
    strict_names = {t.rstrip('?') for t in strict if not t.endswith('?')}
    eq_equiv = {
        # accessor <-> what EqualTo compares for it
        'GetNumNodes()': {'GetNumNodes()', 'm_traversal.size()'},
        'GetNumLeaves()': {'GetNumLeaves()'},
    }
    for t, c in sorted(hashed.items()):
        alts = eq_equiv.get(t, {t})
        ok = bool(alts & set(strict)) or t in strict_names
        why = ''
        if not ok:
            if alts & set(weak) or t in {w.rstrip('?') for w in weak}:
                why = ('`%s` is hashed, but == compares it only under a wildcard guard (an '
                       'inequality conjoined with other tests): two equal treespecs can hash '
                       'differently' % t)
            else:
                why = '`%s` is hashed but == never compares it' % t
        ctx.check('HashValueImpl/' + t, ok,
                  '`%s` feeds the hash and is strictly compared by EqualTo' % t, why, c.loc,
                  {'strict': sorted(strict), 'weak': sorted(weak)})


@rule('H4', floor=8, title='Python objects enter the hash through their Python hash, never through their address')
def h4(ctx):
    prog = ctx.cxx()
    hv = prog.one('PyTreeSpec::HashValueImpl')
    n = 0
    for c in calls_in(hv.body, {'HashCombine'}):
        t = prog.target(hv, c)
        args = c.call_args()
        n += 1
        ty = ','.join(t.targs) if t is not None else (args[1].type or '')
        is_pyobj = bool(re.search(r'pybind11::(handle|object|list|tuple|dict|type|function|str)|py::(handle|object)', ty))
        what = args[1].text(4) if len(args) > 1 else '?'
        ctx.check('HashValueImpl/HashCombine#%d' % (n - 1), not is_pyobj,
                  'HashCombine<%s>(%s): a value hash' % (ty, what),
                  'HashCombine<%s>(%s) hashes the *address* of a Python object, while == compares '
                  'that object by value (Python ==): two equal treespecs holding equal but distinct '
                  'objects (e.g. a deque maxlen above the small-int cache) hash differently'
                  % (ty, what), c.loc)


@rule('H2', floor=7, title='== compares the structure and only the structure')
def h2(ctx):
    prog = ctx.cxx()
    eq = prog.one('PyTreeSpec::EqualTo')
    strict, weak = eq_comparisons(prog, eq)
    names = set(strict)
    need = {
        'traversal size': {'m_traversal.size()', 'GetNumNodes()'},
        'none_is_leaf': {'m_none_is_leaf'},
        'node kind': {'kind'},
        'node arity': {'arity'},
        'custom registration': {'custom'},
        'metadata presence': {'node_data?'},
        'metadata value': {'node_data'},
    }
    for what, alts in need.items():
        ctx.check('EqualTo/' + what, bool(alts & names),
                  'EqualTo strictly compares %s' % what,
                  'EqualTo does not strictly compare %s (looked for %s among %s; weak: %s)'
                  % (what, sorted(alts), sorted(names), sorted(weak)), eq.loc)
    read = fields_read(prog, eq)
    for forbidden in ('original_keys', 'node_entries'):
        ctx.check('EqualTo/ignores-' + forbidden, forbidden not in read,
                  'EqualTo does not read Node::%s (insertion order / path entries are not part '
                  'of the structure)' % forbidden,
                  'EqualTo reads Node::%s' % forbidden, eq.loc)
    # the same for the hash
    hv = prog.one('PyTreeSpec::HashValueImpl')
    hread = fields_read(prog, hv)
    for forbidden in ('original_keys', 'node_entries'):
        ctx.check('HashValueImpl/ignores-' + forbidden, forbidden not in hread,
                  'the hash does not read Node::%s' % forbidden,
                  'the hash reads Node::%s, which == ignores' % forbidden, hv.loc)


OPS = {
    # operator -> (callee, strict literal or None, negated)
    'operator==': ('EqualTo', None, False),
    'operator!=': ('EqualTo', None, True),
    'operator<': ('IsPrefix', True, False),
    'operator<=': ('IsPrefix', False, False),
    'operator>': ('IsSuffix', True, False),
    'operator>=': ('IsSuffix', False, False),
}
BIND_FUNCTOR = {'__eq__': 'equal_to', '__ne__': 'not_equal_to', '__lt__': 'less',
                '__le__': 'less_equal', '__gt__': 'greater', '__ge__': 'greater_equal'}
BIND_TARGET = {'is_prefix': 'IsPrefix', 'is_suffix': 'IsSuffix', '__hash__': 'HashValue',
               '__len__': 'GetNumLeaves', '__repr__': 'ToString'}


def _single_return(f):
    rets = [n for n in f.body.walk() if n.kind == 'ReturnStmt']
    if len(rets) != 1 or not rets[0].kids:
        return None
    return rets[0].kids[0]


@rule('H3', floor=18, title='comparison operators and their Python bindings map to the right relation')
def h3(ctx):
    prog = ctx.cxx()
    for op, (callee, strict, neg) in OPS.items():
        fs = [f for f in prog.by_name('optree::PyTreeSpec::' + op) if not f.dependent]
        ctx.require(len(fs) == 1, 'PyTreeSpec::%s: %d definitions' % (op, len(fs)))
        f = fs[0]
        e = _single_return(f)
        ctx.require(e is not None, '%s is not a single return expression' % op)
        negated = False
        while e.kind == 'UnaryOperator' and e.op == '!':
            negated = not negated
            e = e.kids[0]
        ok = e.kind in CALL_KINDS and e.callee_name() == callee and negated == neg
        detail = ''
        if ok:
            args = e.call_args()
            # the first argument is the operator's own (first) parameter
            p0 = f.params[0][0] if f.params else None
            ok = bool(args) and p0 is not None and member_path(args[0]) == p0 and \
                (e.call_base() is None or e.call_base().kind == 'CXXThisExpr')
            if ok and strict is not None:
                ok = len(args) >= 2 and const_eval(args[1]) is strict
        ctx.check('PyTreeSpec::' + op, ok,
                  '%s is %s%s(other%s)' % (op, '!' if neg else '', callee,
                                           '' if strict is None else ', strict=%s' % strict),
                  '%s does not reduce to %s%s(other%s): %s'
                  % (op, '!' if neg else '', callee,
                     '' if strict is None else ', strict=%s' % strict, e.text(5)), f.loc)
    # IsSuffix(other, strict) == other.IsPrefix(*this, strict)
    f = prog.one('PyTreeSpec::IsSuffix')
    e = _single_return(f)
    ps = [p_[0] for p_ in f.params]
    ok = e is not None and len(ps) == 2 and e.kind == 'CXXMemberCallExpr' and e.callee_name() == 'IsPrefix' and \
        member_path(e.call_base()) == ps[0] and len(e.call_args()) == 2 and \
        member_path(e.call_args()[0]) == 'this' and member_path(e.call_args()[1]) == ps[1]
    ctx.check('PyTreeSpec::IsSuffix', ok, 'IsSuffix(other, strict) is other.IsPrefix(*this, strict)',
              'IsSuffix is not the converse of IsPrefix: %s' % (e.text(5) if e else '?'), f.loc)
    tab = binding_table(prog)
    for name, functor in BIND_FUNCTOR.items():
        b = tab.get(('PyTreeSpec', name))
        ctx.require(b is not None, 'no binding for PyTreeSpec.%s' % name)
        ctx.check('binding/' + name, b.functor == functor,
                  'PyTreeSpec.%s is bound to std::%s' % (name, functor),
                  'PyTreeSpec.%s is bound to %s, expected std::%s'
                  % (name, b.functor or b.target, functor), b.node.loc)
    for name, target in BIND_TARGET.items():
        b = tab.get(('PyTreeSpec', name))
        ctx.require(b is not None, 'no binding for PyTreeSpec.%s' % name)
        ctx.check('binding/' + name, b.target == target,
                  'PyTreeSpec.%s is bound to PyTreeSpec::%s' % (name, target),
                  'PyTreeSpec.%s is bound to %s, expected PyTreeSpec::%s'
                  % (name, b.target or b.functor, target), b.node.loc)
    # defaults of the strict flag
    for name in ('is_prefix', 'is_suffix'):
        b = tab[('PyTreeSpec', name)]
        d = dict(b.args).get('strict')
        ctx.check('binding/%s/strict-default' % name, d in ('False', 'false', '0'),
                  '%s defaults to strict=false' % name,
                  '%s: default of strict is %r' % (name, d), b.node.loc)


PAYLOAD_FIELDS = ('node_data', 'node_entries', 'original_keys')


@rule('H5', floor=6, title='node metadata is compared by value (Python ==), never by object identity')
def h5(ctx):
    """A node's payload is an arbitrary Python object: a class, a deque maxlen, a default factory, a
    key list, custom metadata.  Equal payloads need not be the same object (`deque.maxlen` makes a
    fresh int above the small-int cache; key lists are per-treespec copies), so every comparison
    of a payload field of a node with another object goes through `equal` / `not_equal`; `is` /
    `is_not` / a pointer comparison on it makes equal structures differ."""
    prog = ctx.cxx()
    n = 0
    for f in live_funcs(prog):
        if f.body is None or not (f.file or '').startswith('src/treespec/'):
            continue
        for c in f.body.walk():
            by_value = by_ident = None
            if c.kind == 'CXXMemberCallExpr' and c.callee_name() in ('equal', 'not_equal', 'is', 'is_not'):
                ops = [c.call_base()] + [a for a in c.call_args() if a is not None]
                kindcall = c.callee_name()
            elif c.kind == 'BinaryOperator' and c.op in ('==', '!=') and len(c.kids) == 2 and \
                    all(k is not None and any(x.kind == 'CXXMemberCallExpr' and x.callee_name() == 'ptr'
                                              for x in k.walk()) for k in c.kids):
                ops = list(c.kids)
                kindcall = 'ptr() ' + c.op
            else:
                continue
            payload = []
            for o_ in ops:
                if o_ is None:
                    continue
                for m in o_.walk():
                    if m.kind == 'MemberExpr' and m.name in PAYLOAD_FIELDS and _base_is(m, 'Node'):
                        payload.append(m.name)
            if not payload:
                continue
            # comparing a payload with the None singleton by identity is fine
            if any(o_ is not None and 'none' in o_.text(3).lower() for o_ in ops):
                continue
            n += 1
            ok = kindcall in ('equal', 'not_equal')
            ctx.check('%s/%s/%s' % (short(f), payload[0], kindcall.replace(' ', '')), ok,
                      '%s compares %s by value' % (inst(f), payload[0]),
                      '%s compares %s with `%s`: equal metadata that is not the same object (a deque '
                      'maxlen above 256, a key list, custom metadata) makes equal structures differ'
                      % (inst(f), payload[0], kindcall), c.loc)
    ctx.analysed['payload_comparisons'] = n


@rule('H6', floor=5, title='every comparison in EqualTo decides: unequal on one outcome, possibly equal on the other')
def h6(ctx):
    """== is a conjunction over the flags and the nodes.  For every test in EqualTo exactly one
    outcome can still reach `return true`: a comparison both of whose outcomes can is ignored
    (a `return false` dropped or turned into `continue`), one neither of whose outcomes can makes
    treespecs that pass it unequal."""
    from .twins import deciding_probes
    prog = ctx.cxx()
    from .common import unnegate

    def comparison(e):
        """a test that compares two values (guards such as `x.empty()` or `a->node_data &&`, and the
        loop test against the end iterator, are not comparisons of the two treespecs)"""
        base, _ = unnegate(e)
        if base is None:
            return False
        if base.kind == 'BinaryOperator' and base.op in ('==', '!='):
            pass
        elif base.kind == 'CXXOperatorCallExpr' and base.callee_name() in ('operator==', 'operator!='):
            pass
        elif base.kind == 'CXXMemberCallExpr' and base.callee_name() in ('equal', 'not_equal', 'is'):
            pass
        else:
            return False
        t = base.text(5)
        ops = [k for k in base.kids if k is not None][-2:]
        if any(const_eval(o) is not None for o in ops):
            return False        # a test against a constant (`x.size() == 0`) is a guard
        return 'end()' not in t and 'cend' not in t
    deciding_probes(ctx, prog.one('PyTreeSpec::EqualTo'), 'EqualTo', 5,
                    'the comparison does not take part in the answer: treespecs that differ in it '
                    'compare equal (or equal ones unequal)', comparison)
