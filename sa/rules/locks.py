"""Lock rules: L1 no user code under an engine lock, L3 shared state guarded, L4 check-then-act
atomic / lookup by value, L5 no live reference into the agenda across re-entry, T3 cache eviction
pairing, L2 lock order (informational)."""
from __future__ import annotations

import re

from ..engine import rule
from ..cxx_ir import CALL_KINDS, CTOR_KINDS
from ..cfg import cfg_of
from ..effects import PY, PYDEL, ONCE, external_effects
from .common import (short, inst, live_funcs, calls_in, callee_func, member_path, enclosing_map,
                     ancestors, strip_casts, relation, if_outcome)

GUARD_TYPES = ('scoped_read_lock_guard', 'scoped_write_lock_guard', 'scoped_lock_guard',
               'scoped_recursive_lock_guard')


def guard_mode(t):
    t = t or ''
    if 'scoped_read_lock_guard' in t or 'shared_lock' in t:
        return 'shared'
    if 'scoped_write_lock_guard' in t or 'unique_lock' in t or 'scoped_lock_guard' in t or \
            'lock_guard' in t:
        return 'exclusive'
    return None


def regions(func):
    """[(mutex name, mode, guard VarDecl, [statements covered])] for RAII guards in func"""
    out = []
    if func.body is None:
        return out
    for comp in func.body.find('CompoundStmt'):
        if comp.kind != 'CompoundStmt':
            continue
        for i, s in enumerate(comp.kids):
            if s is None or s.kind != 'DeclStmt':
                continue
            for v in s.kids:
                if v is None or v.kind != 'VarDecl':
                    continue
                t = (v.type or '')
                if not any(g in t for g in GUARD_TYPES):
                    continue
                mode = guard_mode(t)
                full = t + ' ' + ((v.x or {}).get('desugared') or '') + ' ' + \
                    ' '.join((c.type or '') + ' ' + ((c.x or {}).get('desugared') or '')
                             for c in v.walk())
                if 'pymutex' in full or 'PyMutex' in full:
                    # free-threaded build: PyMutex detaches the thread state while it waits;
                    # it does not block other threads' access to the interpreter
                    mode = 'py-' + (mode or 'exclusive')
                mutex = None
                for c in v.walk():
                    if c.kind == 'DeclRefExpr' and c.ref and c.ref.get('kind') == 'VarDecl' and \
                            'mutex' in (c.ref.get('type') or c.type or '').lower():
                        mutex = c.ref.get('name')
                    elif c.kind == 'MemberExpr' and 'mutex' in (c.type or '').lower():
                        mutex = c.name
                out.append((mutex or '?', mode, v, [x for x in comp.kids[i + 1:] if x is not None]))
    return out


def py_leaves(prog, eff, func, root, private=None, depth=0, want=PY):
    """calls with effect `want` under root; descends only into repo callees that are private to
    the locked region (`private`: set of function keys whose every caller holds the mutex), so a
    report names the first function that leaves the lock-owning family:
    [(chain of function labels, call node, owning func, reason)]"""
    out = []
    private = private or set()
    for n, e, why, tgt in eff.effects_in(func, root):
        if want not in e:
            continue
        if tgt is not None and tgt.body is not None and tgt.key in private and depth < 4:
            sub = py_leaves(prog, eff, tgt, tgt.body, private, depth + 1, want)
            out += [([short(tgt)] + ch, c, fn, w) for ch, c, fn, w in sub]
            continue
        out.append(([], n, func, why))
    return out


def leaf_name(call):
    nm = call.callee_name() or '?'
    if call.kind in CTOR_KINDS:
        return (nm or '?') + '{}'
    return nm


@rule('L1', floor=20, title='no statement that can run Python code inside a region of a C++ mutex')
def l1(ctx):
    prog = ctx.cxx()
    eff = ctx.effects()
    nreg = 0
    held = _callers_hold(prog)
    for f in live_funcs(prog):
        for mutex, mode, guard, stmts in regions(f):
            if (mode or '').startswith('py-'):
                ctx.info('%s/%s' % (short(f), mutex),
                         '%s: `%s` is a PyMutex (free-threaded build): waiting detaches the thread '
                         'state, so holding it across user code cannot wedge the interpreter; '
                         'not counted' % (inst(f), mutex), guard.loc)
                continue
            private = {k for k, h in held.items() if mutex in h}
            nreg += 1
            owner = f if not f.is_lambda else prog.funcs.get(f.parent, f)
            base = '%s/%s' % (short(owner) + ('::lambda' if f.is_lambda else ''), mutex)
            found = {}
            infos = {}
            for s in stmts:
                for chain, call, fn, why in py_leaves(prog, eff, f, s, private):
                    key = leaf_name(call)
                    found.setdefault(key, (chain, call, fn, why))
                for chain, call, fn, why in py_leaves(prog, eff, f, s, private, want=PYDEL):
                    infos.setdefault(leaf_name(call), call)
            if not found:
                ctx.ok(base, '%s: the %s region of `%s` contains no call that can run Python '
                       'code' % (inst(f), mode, mutex), guard.loc)
            for key, (chain, call, fn, why) in sorted(found.items()):
                ctx.bad('%s/%s' % (base, key),
                        '%s holds `%s` (%s; blocks with the GIL held) across %s%s - %s: a second '
                        'thread that needs the mutex blocks without releasing the GIL while this '
                        'one waits for the GIL inside Python code'
                        % (inst(f), mutex, mode, ('%s -> ' % ' -> '.join(chain)) if chain else '',
                           leaf_name(call), why), call.loc)
            for key, call in sorted(infos.items()):
                ctx.info('%s/PYDEL/%s' % (base, key),
                         'destructor may run under `%s` (%s)' % (mutex, key), call.loc)
    ctx.analysed['lock_regions'] = nreg
    ctx.require(nreg >= 20, 'only %d lock regions found (25 on the pinned tree)' % nreg)


# ---------------------------------------------------------------------------------------------
SHARED_STATE = {
    # variable name -> mutex name that must be held
    'm_registrations': 'sm_mutex',
    'm_named_registrations': 'sm_mutex',
    'sm_builtins_types': 'sm_mutex',
    'sm_is_dict_insertion_ordered': 'sm_is_dict_insertion_ordered_mutex',
}
MUTATORS = {'emplace', 'insert', 'erase', 'clear', 'operator[]', 'try_emplace', 'swap',
            'emplace_back', 'push_back', 'pop_back'}


def _static_locals(func):
    """static local containers with their sibling static mutex: name -> mutex name"""
    out = {}
    if func.body is None:
        return out
    statics = [v for v in func.body.find('VarDecl') if (v.x or {}).get('storageClass') == 'static']
    mutexes = [v.name for v in statics if 'mutex' in (v.type or '').lower()]
    for v in statics:
        t = v.type or ''
        if ('unordered_map' in t or 'unordered_set' in t or 'map<' in t or 'set<' in t) and mutexes:
            out[v.name] = mutexes[0]
    return out


@rule('L3', floor=30, title='every access to shared engine state lies in a region of its mutex')
def l3(ctx):
    prog = ctx.cxx()
    # callers-hold analysis: function -> set of mutexes held at every call site
    held_by_callers = _callers_hold(prog)
    n = 0
    for f in live_funcs(prog):
        if f.body is None:
            continue
        table = dict(SHARED_STATE)
        owner = f if not f.is_lambda else prog.funcs.get(f.parent, f)
        table.update(_static_locals(owner))
        table.update(_static_locals(f))
        regs = regions(f)
        cover = {}
        for mutex, mode, guard, stmts in regs:
            for s in stmts:
                for x in s.walk():
                    cover.setdefault(id(x), []).append((mutex, mode))
        parent = None
        for m in f.body.walk():
            name = None
            if m.kind == 'MemberExpr' and m.name in table:
                name = m.name
            elif m.kind == 'DeclRefExpr' and m.ref and m.ref.get('name') in table and \
                    m.ref.get('kind') == 'VarDecl':
                name = m.ref.get('name')
            if name is None:
                continue
            need = table[name]
            if parent is None:
                parent = enclosing_map(f.body)
            # a declaration `static auto cache = ...` is the definition, not an access
            anc = ancestors(m, parent)
            if any(a.kind == 'VarDecl' and a.name == name for a in anc):
                continue
            # what is done with it
            use = 'read'
            p = parent.get(id(m))
            if p is not None and p.kind == 'MemberExpr' and p.name in MUTATORS:
                use = 'write'
            if p is not None and p.kind == 'CXXOperatorCallExpr' and p.callee_name() == 'operator[]':
                use = 'write'
            held = {mu: mo for mu, mo in cover.get(id(m), [])}
            inherited = held_by_callers.get(f.key, {})
            mode = held.get(need) or inherited.get(need)
            in_once = _in_once_initialiser(prog, f)
            n += 1
            site = '%s/%s/%s' % (short(owner) + ('::lambda' if f.is_lambda else ''), name, use)
            ok = (mode == 'exclusive') or (mode == 'shared' and use == 'read') or in_once
            ctx.check(site, ok,
                      '%s: %s of `%s` under %s `%s`%s' % (inst(f), use, name, mode, need,
                                                          ' (call_once initialiser)' if in_once else ''),
                      '%s: %s of shared `%s` %s' % (
                          inst(f), use, name,
                          'under a shared lock only' if mode == 'shared' else
                          'without holding `%s`' % need), m.loc)
    ctx.analysed['shared_state_accesses'] = n


def _in_once_initialiser(prog, f):
    """f is (nested in) a lambda passed to call_once_and_store_result"""
    g = f
    hops = 0
    while g is not None and g.is_lambda and hops < 4:
        par = prog.funcs.get(g.parent)
        if par is None:
            return False
        for c in calls_in(par.body, {'call_once_and_store_result'}):
            for l in c.find('LambdaExpr'):
                if (l.x or {}).get('lambda_key') == g.key:
                    return True
        g = par
        hops += 1
    return False


def _callers_hold(prog):
    """function key -> {mutex: mode} held at *every* call site (one level, then closure)"""
    sites = {}
    for f in live_funcs(prog):
        if f.body is None:
            continue
        cover = {}
        for mutex, mode, guard, stmts in regions(f):
            for s in stmts:
                for x in s.walk():
                    cover.setdefault(id(x), {})[mutex] = mode
        for c in calls_in(f.body):
            t = callee_func(prog, f, c)
            if t is None:
                continue
            sites.setdefault(t.key, []).append((f.key, cover.get(id(c), {})))
        # lambdas defined inside a region and invoked there inherit through their parent
    held = {}
    changed = True
    rounds = 0
    while changed and rounds < 5:
        changed = False
        rounds += 1
        for k, lst in sites.items():
            common = None
            for caller, h in lst:
                hh = dict(held.get(caller, {}))
                hh.update(h)
                if common is None:
                    common = hh
                else:
                    common = {m: (common[m] if common[m] == hh[m] else 'shared')
                              for m in common if m in hh}
            common = common or {}
            if common != held.get(k, {}):
                held[k] = common
                changed = True
    # lambdas inherit from the function they are defined in when they are only called there
    for f in live_funcs(prog):
        if f.is_lambda and f.key not in held and f.parent in held:
            pass
    return held


# ---------------------------------------------------------------------------------------------
@rule('L4', floor=6, title='registry check-then-act is atomic and Lookup hands out its result by value')
def l4(ctx):
    prog = ctx.cxx()
    # (a) Lookup returns an owning RegistrationPtr by value
    for f in [x for x in prog.by_suffix('PyTreeTypeRegistry::Lookup') if not x.dependent]:
        ret = f.sig.split('(')[0].strip()
        ok = 'RegistrationPtr' in ret and '&' not in ret and '*' not in ret
        ctx.check('Lookup/by-value', ok,
                  '%s returns an owning RegistrationPtr by value' % inst(f),
                  '%s returns `%s`: a reference/iterator into the registry map escapes the lock'
                  % (inst(f), ret), f.loc)
        regs = regions(f)
        ctx.check('Lookup/locked', any(m == 'sm_mutex' for m, _, _, _ in regs),
                  '%s holds sm_mutex while it reads the maps' % inst(f),
                  '%s reads the registry maps without sm_mutex' % inst(f), f.loc)
    # (b) Register / Unregister: the duplicate/absent test and the mutation share one exclusive
    # region (the *Impl functions are only called from inside it)
    held = _callers_hold(prog)
    for name in ('PyTreeTypeRegistry::RegisterImpl', 'PyTreeTypeRegistry::UnregisterImpl'):
        for f in [x for x in prog.by_suffix(name) if not x.dependent]:
            mode = held.get(f.key, {}).get('sm_mutex')
            own = [m for m, mo, _, _ in regions(f) if m == 'sm_mutex' and mo == 'exclusive']
            ctx.check('%s/one-exclusive-region' % short(f), mode == 'exclusive' or bool(own),
                      '%s runs entirely inside one exclusive sm_mutex region: its test and its '
                      'mutation cannot be separated by another thread' % inst(f),
                      '%s is not covered by one exclusive sm_mutex region (callers hold: %s)'
                      % (inst(f), mode), f.loc)
    for name in ('PyTreeTypeRegistry::Register', 'PyTreeTypeRegistry::Unregister'):
        f = prog.one(name)
        regs = [r for r in regions(f) if r[0] == 'sm_mutex']
        ctx.check('%s/single-region' % short(f), len(regs) == 1 and regs[0][1] == 'exclusive',
                  '%s takes sm_mutex exclusively exactly once: both variants are updated in the '
                  'same region' % inst(f),
                  '%s has %d sm_mutex regions: the two variants can be observed torn'
                  % (inst(f), len(regs)), f.loc)
        if regs:
            calls = [c for s in regs[0][3] for c in calls_in(s)
                     if callee_func(prog, f, c) is not None and
                     callee_func(prog, f, c).qualname.endswith('Impl')]
            ctx.check('%s/both-inside' % short(f), len(calls) >= 2,
                      '%s updates both variants inside the region' % inst(f),
                      '%s: only %d *Impl call(s) inside the locked region' % (inst(f), len(calls)),
                      f.loc)


# ---------------------------------------------------------------------------------------------
@rule('L5', floor=2, title='the iterator keeps no reference into its agenda across user code')
def l5(ctx):
    prog = ctx.cxx()
    eff = ctx.effects()
    for f in [x for x in prog.by_suffix('PyTreeIter::NextImpl') if not x.dependent]:
        cfg = cfg_of(f)
        # locals bound by reference / iterator to m_agenda
        refs = []
        for v in f.body.find('VarDecl', 'DecompositionDecl'):
            t = v.type or ''
            init = v.kids[0] if v.kids else None
            if init is None:
                continue
            touches = any(m.kind == 'MemberExpr' and m.name == 'm_agenda' for m in init.walk())
            if not touches:
                continue
            is_ref = t.rstrip().endswith('&') or 'iterator' in t or \
                (v.kind == 'DecompositionDecl' and '&' in t) or t.rstrip().endswith('*')
            # `auto [a, b] = agenda.back()` copies: the decomposition holds a *copy* unless
            # declared with &
            if v.kind == 'DecompositionDecl':
                is_ref = bool(re.search(r'&\s*$', t)) or 'init' in (v.x or {}) and False
                is_ref = is_ref or _decomp_is_reference(v)
            refs.append((v, is_ref))
        ctx.require(refs, '%s: no local derived from m_agenda found' % inst(f))
        # PY calls
        pycalls = [n for n, e, why, tgt in eff.effects_in(f, f.body) if PY in e]
        pops = [c for c in calls_in(f.body, {'pop_back'})
                if (member_path(c.call_base()) or '').endswith('m_agenda')]
        ctx.require(pops, '%s: no m_agenda.pop_back()' % inst(f))
        popn = cfg.cnode_of(pops[0])
        for v, is_ref in refs:
            site = 'PyTreeIter::NextImpl/agenda-local'
            if not is_ref:
                # a copy: must be popped before any user code runs
                first_py = [cfg.cnode_of(p) for p in pycalls]
                ok = all(cfg.dominates(popn, p) for p in first_py if p is not None)
                ctx.check(site, ok,
                          '%s: the agenda entry is copied out and popped before any call that '
                          'can run Python code' % inst(f),
                          '%s: user code can run before the agenda entry is popped (re-entrant '
                          '__next__ would see it twice)' % inst(f), v.loc)
            else:
                ctx.bad(site, '%s: `%s` is a reference/iterator into m_agenda that stays live '
                        'while user code runs (predicate / flatten function); a re-entrant '
                        '__next__ or a reallocation invalidates it' % (inst(f), v.name or 'binding'),
                        v.loc)
        # children are pushed after the last PY call of the arm: emplace_back never precedes a
        # PY call on a forward path
        pushes = [c for c in calls_in(f.body, {'emplace_back'})
                  if (member_path(c.call_base()) or '').endswith('m_agenda')]
        bad = []
        for c in pushes:
            cn = cfg.cnode_of(c)
            reach = cfg.forward_reachable([cn])
            for p in pycalls:
                pn = cfg.cnode_of(p)
                if pn in reach and pn != cn and not _same_loop(cfg, cn, pn):
                    bad.append((c, p))
        ctx.check('PyTreeIter::NextImpl/push-after-user-code', not bad,
                  '%s: children are pushed only after the arm made its last call into Python'
                  % inst(f),
                  '%s: agenda is extended before user code runs in the same arm: %s'
                  % (inst(f), [(a.loc, b.loc) for a, b in bad[:3]]), f.loc)


def _decomp_is_reference(v):
    t = (v.type or '')
    x = v.x or {}
    # clang prints the decomposed type; a reference binding shows '&' in it
    return '&' in t.split('>')[-1]


def _same_loop(cfg, a, b):
    return False


# ---------------------------------------------------------------------------------------------
@rule('T3', floor=3, title='type caches: insertion is capped and paired with a weakref that evicts the same key')
def t3(ctx):
    prog = ctx.cxx()
    n = 0
    for f in live_funcs(prog):
        if f.body is None or f.is_lambda:
            continue
        st = _static_locals(f)
        if not st:
            continue
        for cache, mutex in st.items():
            emplaces = [c for c in calls_in(f.body, {'emplace', 'insert', 'try_emplace', 'insert_or_assign'})
                        if member_path(c.call_base()) == cache]
            if not emplaces:
                continue
            if not any('handle' in (a.type or '') for c in emplaces for a in c.call_args() if a is not None):
                continue
            n += 1
            site = '%s/%s' % (short(f), cache)
            regs = [r for r in regions(f) if r[0] == mutex and r[1] == 'exclusive']
            e = emplaces[0]
            inreg = [r for r in regs if any(x is e for s in r[3] for x in s.walk())]
            ctx.check(site + '/exclusive', bool(inreg),
                      '%s: cache insertion happens under the exclusive lock' % inst(f),
                      '%s: cache insertion outside an exclusive region of `%s`' % (inst(f), mutex),
                      e.loc)
            if not inreg:
                continue
            region_stmts = inreg[0][3]
            # size cap: the insertion is control dependent on a comparison of cache.size()
            parent = enclosing_map(f.body)
            capped = False
            for a in ancestors(e, parent):
                if a.kind == 'IfStmt':
                    base, outcome = if_outcome(a, e)
                    rel = relation(base)
                    if rel is not None and outcome is True and cache + '.size' in rel[0].text(6) and \
                            'MAX_TYPE_CACHE_SIZE' in rel[1].text(6):
                        capped = True
            ctx.check(site + '/capped', capped,
                      '%s: insertion guarded by %s.size() < MAX_TYPE_CACHE_SIZE' % (inst(f), cache),
                      '%s: cache grows without the MAX_TYPE_CACHE_SIZE cap' % inst(f), e.loc)
            # weakref on the same key with a callback that erases that key under the same mutex
            key_arg = member_path(e.call_args()[0]) if e.call_args() else None
            # (anywhere in the function, under the same exclusive lock: the caller holds a reference
            # to the type, so it cannot die between the insertion and a later registration)
            all_reg_stmts = [s for r in regs for s in r[3]]
            wr = [c for s in all_reg_stmts for c in s.find(*CTOR_KINDS)
                  if (c.type or '').endswith('weakref')]
            ok = False
            why = 'no py::weakref created under the exclusive lock'
            for w in wr:
                wa = w.kids
                if not wa or member_path(wa[0]) != key_arg:
                    why = 'weakref is on `%s`, cache key is `%s`' % (
                        member_path(wa[0]) if wa else None, key_arg)
                    continue
                lams = w.find('LambdaExpr')
                if not lams:
                    why = 'weakref callback is not a lambda'
                    continue
                lf = prog.lambda_func(f, lams[0])
                if lf is None:
                    why = 'callback lambda not found'
                    continue
                er = [c for c in calls_in(lf.body, {'erase'})
                      if member_path(c.call_base()) == cache]
                lregs = [r for r in regions(lf) if r[0] == mutex and r[1] == 'exclusive']
                if not er:
                    why = 'callback does not erase from `%s`' % cache
                    continue
                if not lregs or not any(x is er[0] for s in lregs[0][3] for x in s.walk()):
                    why = 'callback erases without the exclusive lock'
                    continue
                ea = er[0].call_args()
                ek = member_path(ea[0]) if ea else None
                if ek != key_arg:
                    # erase(it) where it = cache.find(key)
                    inits = {v.name: v.kids[-1] for v in lf.body.find('VarDecl') if v.kids}
                    src = inits.get(ek)
                    if not (src is not None and any(member_path(a) == key_arg
                                                    for c in calls_in(src, {'find'})
                                                    for a in c.call_args())):
                        why = 'callback erases `%s`, cache key is `%s`' % (ek, key_arg)
                        continue
                ok = True
            ctx.check(site + '/evicted', ok,
                      '%s: a weak reference on the cached type erases the same key under the same '
                      'mutex when the type dies (no stale answer after address reuse)' % inst(f),
                      '%s: %s - a freed type can leave a stale cache entry that a new type at the '
                      'same address inherits' % (inst(f), why), e.loc)
            # what is published is the recogniser's answer, never a placeholder another thread
            # could read while the recogniser is still running user code
            consts = [c for c in emplaces
                      if len(c.call_args()) >= 2 and c.call_args()[1] is not None and
                      strip_casts(c.call_args()[1]).kind in ('CXXBoolLiteralExpr', 'IntegerLiteral',
                                                             'CXXNullPtrLiteralExpr')]
            ctx.check(site + '/stores-the-answer', not consts,
                      '%s: every value stored in `%s` is a computed answer' % (inst(f), cache),
                      '%s: `%s` is filled with the constant `%s` before the answer is known: another '
                      'thread that finds the entry meanwhile gets the placeholder (e.g. a namedtuple '
                      'classified as a leaf)' % (inst(f), cache,
                                                 consts[0].call_args()[1].text(3) if consts else ''),
                      consts[0].loc if consts else e.loc)
    ctx.require(n >= 3, 'only %d type caches found (3 on the pinned tree)' % n)


@rule('T3b', floor=3, title='every address-keyed memo of a type recogniser is invalidated when the type dies')
def t3b(ctx):
    """Any static / thread_local variable of a caching recogniser that remembers a type by address
    (a pointer, a handle, or a value derived from one) must be reset by the weak-reference callback
    that evicts the map entry - otherwise a new class at the same address inherits the answer."""
    prog = ctx.cxx()
    n = 0
    for f in live_funcs(prog):
        if f.body is None or f.is_lambda:
            continue
        st = _static_locals(f)
        if not st:
            continue
        caches = set(st)
        mutexes = set(st.values())
        lams = prog.lambdas_of(f)
        evict = [l for l in lams if any(member_path(c.call_base()) in caches
                                        for c in calls_in(l.body, {'erase'}))]
        if not evict:
            continue
        n += 1
        statics = [v for v in f.body.find('VarDecl')
                   if (v.x or {}).get('storageClass') == 'static' or (v.x or {}).get('tls')]
        touched_in_evict = set()
        for l in evict:
            for m in l.body.walk():
                if m.kind == 'DeclRefExpr' and m.ref:
                    touched_in_evict.add(m.ref.get('name'))
        for v in statics:
            if v.name in mutexes:
                continue
            ctx.check('%s/%s/evicted-with-type' % (short(f), v.name), v.name in touched_in_evict,
                      '%s: static `%s` is maintained by the eviction callback' % (inst(f), v.name),
                      '%s: static%s `%s` (%s) survives the death of the cached type: the eviction '
                      'callback never touches it, so a class created later at the same address '
                      'gets the remembered answer' % (inst(f), ' thread_local' if (v.x or {}).get('tls') else '',
                                                      v.name, v.type), v.loc)
    ctx.require(n >= 3, 'only %d caching recognisers found' % n)


L6_ALLOWED = ('gil_safe_call_once_and_store', 'read_write_mutex', 'std::mutex', 'std::shared_mutex',
              'std::recursive_mutex', 'unordered_map', 'unordered_set', 'PyModuleDef', 'slots_array',
              'PyMutex', 'std::once_flag', 'std::atomic')


@rule('L6', floor=20, title='no call-spanning scratch state: function-local statics are once-initialised values, locks or locked caches')
def l6(ctx):
    """A `static` or `thread_local` local outlives the call.  The engine runs user code in the middle
    of its traversals (flatten functions, predicates, mapped functions), and that code can call
    back into the engine on the same thread: a scratch buffer kept in a static / thread_local
    local is then shared between the outer and the nested call (and, when merely `static`,
    between threads).  The only function-local statics are therefore once-initialised objects,
    mutexes, and the caches those mutexes guard (T3 / L3 decide how the caches are used);
    anything else - in particular a sequence container or a Python object - is call-spanning
    scratch state."""
    prog = ctx.cxx()
    n = 0
    seen = set()
    for f in live_funcs(prog):
        if f.body is None or not f.file:
            continue
        for v in f.body.find('VarDecl'):
            x = v.x or {}
            if not (x.get('storageClass') == 'static' or x.get('tls')):
                continue
            key = (f.file, f.name, v.name)
            if key in seen:
                continue
            seen.add(key)
            n += 1
            t = (v.type or '') + ' ' + ((x.get('desugared') or ''))
            ok = any(a in t for a in L6_ALLOWED) or (v.type or '').startswith('const ') or 'constexpr' in str(x)
            owner = f if not f.is_lambda else prog.funcs.get(f.parent, f)
            ctx.check('%s/static %s' % (short(owner), v.name), ok,
                      '%s: static local `%s` is a once-initialised value, a lock or a locked cache (%s)'
                      % (inst(f), v.name, (v.type or '')[:50]),
                      '%s keeps `%s` (%s) in a %s local: the buffer outlives the call, so a nested call made '
                      'from user code that runs during the traversal (a custom flatten function, an '
                      'is_leaf predicate) - or another thread - works on the same object; paths, leaves '
                      'or counts of the two calls get mixed'
                      % (inst(f), v.name, (v.type or '')[:60], 'thread_local' if x.get('tls') else 'static'),
                      v.loc)
    ctx.analysed['function_local_statics'] = n
